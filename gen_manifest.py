#!/usr/bin/env python3
"""Regenerates /verif/MANIFEST.json from the table below (kept in one place so that the
manifest is always schema-valid and not_applicable is always the complement of checks)."""
import json, subprocess
BASE = open('/root/.vp/BASELINE.json').read()
baseline_cmd = json.loads(BASE)["cmd"]
ALL = ["C%02d" % i for i in range(1, 21)]
CHECKS = {
 "C10": dict(engine="crash", category="fault_enumeration",
    technique="differential exploration against a never-freezing twin with a full query battery after every freeze pass, plus exhaustive crash-point enumeration (real process kills) of the freeze + wipe-out sequence",
    text="A freezing node and a twin without freezer receive the same 17-block, five-epoch chain (transactions, an uncle, proposals, side-chain blocks at heights that become frozen); after every delivery a synchronous freeze pass runs and every getter the property names is compared for every block, transaction and live cell (store, snapshot, and after a restart). A child process is killed at every point of the first and second freeze pass (before each data write, between data and index write, before the fsync, before each database batch); the parent re-opens, compares the battery, runs the next pass (which must continue to the two-epoch threshold), extends the chain and compares again. Freeze policy (threshold, contiguity, monotonicity) is checked after every pass.",
    note="Trusted: flat world with 4-block epochs; process-crash model; answers about side-chain blocks at frozen heights are exempt; cell data is queried for live cells only.",
    design="DESIGN.md §5 C10"),
 "C11": dict(engine="node", category="exploration",
    technique="explicit-state breadth-first search over operation histories on the real tx-pool service of a real node (every transition a real submit / remove / mined block / clock advance), dedup by a fingerprint of the pool's internal dump plus chain state; after every transition the bookkeeping is judged by recomputation from the pool's contents",
    text="Nine designed transactions (a chain of four against an ancestor limit of three, a two-parent join, one sufficient and one insufficient RBF replacement, a cell-dep user and the consumer of that dep cell) over a real node with production pool wiring; operations Submit(i), Remove(i), Mine (the node's own block template is sealed and processed: pending -> gap -> proposed -> committed), Expire (clock past expiry + a block). All histories to the tier's depth, with RBF on and off, are replayed; after every operation a hook dumps entries, input/dep edge maps, links and the recorded aggregates, and the oracle recomputes: no double spend, edges == inputs/deps of pooled entries, link key set == entries, parents/children == actual spend/dep relations and mutually transposed, ancestor/descendant count/size/cycles/fee == sums over the link closure, ancestor limit, status counters and totals, and for replacements: accepted => all conflicts and their descendants gone; rejected => pool unchanged.",
    note="Trusted: the dump hook reads the structures faithfully; transactions use always-success locks; pool size-limit eviction is reached only through the small max_tx_pool_size; concurrency between the pool's service tasks is not enumerated (operations are applied one at a time to quiescence).",
    design="DESIGN.md §5 C11"),
 "C12": dict(engine="node", category="model_checking",
    technique="exhaustive enumeration of histories (scenario x role assignment x submission positions x assembler on/off x length of the first lead) on a real node with the production tx-pool service, two freshly forged competing branches per history, pool dump judged after every event against a plain replay of the new main chain",
    text="Blocks a1..a_f | b1..b_(f+1) (reorg: f detached, f+1 attached) | a_(f+1) a_(f+2) (reorg back; block-1 proposals leave the window) for f = 1 and 3 (2 and 4 with a header dep). Scenarios: parent/child chain, two conflicting spends, a header-dep on a1 plus a bystander, a cell-dep user and the dep cell's spender. Per transaction and branch the role is nothing / proposed in block 1 / proposed and committed in block 3 (all 9 combinations per tx, invalid ones filtered); each transaction is submitted never or at one of the positions {start, after a1, after a2, end of first lead, just before B overtakes, after B overtook, end} (quick: never/start/after a1/after B overtook). After every submission and block, once the pool reports the new tip: no pooled tx is committed on the main chain, every input and cell dep is live on it or created by a pooled tx, every header dep is on it, every tx committed only on the abandoned branch and admissible on the new one is pooled again, and with the assembler on each entry's stage equals proposed/gap/pending computed from the new chain's proposal window.",
    note="Trusted: the pool dump hook; forged blocks are built with ckb's own reward/DAO calculators. Not covered: interleavings of the reorg notification with a concurrent submission (each event runs to quiescence), expiry and size-limit eviction during reorgs, RBF during reorgs.",
    design="DESIGN.md §5 C12"),
 "C13": dict(engine="node", category="model_checking",
    technique="explicit-state breadth-first search over operation histories on a real node with tx-pool and block assembler (every transition a real submit / mined template / forged sibling / forged reorg), from four seed states, in three worlds with reachable block limits; in every reached state the template is sealed and processed by a twin node positioned on the parent the template names",
    text="Worlds: block bytes limited to about three transactions, block cycles limited to three transactions, no tight limit (proposal limit 3, 4-block epochs, window 2..4). Alphabet: Submit of nine designed transactions (chain of three, a two-parent join, a dep user and the dep cell's spender, two independent ones, a conflicting replacement), Mine (seal and process the node's own template), Uncle (a forged sibling of the tip arrives), Reorg (two forged blocks detach the tip). Seeds: empty; four proposed transactions (more than a block takes); chain + join proposed; one block before the epoch boundary. After every operation the template returned immediately (if it still names the previous tip it is checked on that parent) and the template naming the current tip are sealed with a fresh nonce and processed by the twin: the node's own full verification (header, proposals window, transactions, cellbase reward, DAO, epoch, uncles, extension, size and cycle limits) must accept it; and against the pool dump every template transaction has all its pooled parents earlier in the template, no cell is spent twice, proposals are within the limit.",
    note="Trusted: dump hook, background-idle hook and candidate-uncle reset hook. The moment of the template request relative to the assembler's internal processing is what the real threads produce (one immediate and one quiescent request per operation), not an enumerated schedule.",
    design="DESIGN.md §5 C13"),
 "C15": dict(engine="seq", category="exploration",
    technique="small-scope exhaustive enumeration of value shapes (all vector lengths 0..2, all option/union arms, numeric extremes in every position) and of single-field / single-byte mutations, with round-trip, field-content and hash-commitment oracles",
    text="243 transaction shapes, 81 block shapes, every script hash type x args size, every protocol union arm (27 messages) are pushed through: molecule strict/compatible decode and field-by-field rebuild; packed->JSON->text->JSON->packed and back; a field-by-field comparison of the JSON object with the packed fields it names (so a swap in both conversion directions is caught); hash laws under an 18-entry transaction mutation catalogue and a block mutation catalogue (tx hash ignores witnesses only, witness hash / transactions root / proposals hash / extra hash / block hash each change when they must, cached view hashes equal recomputation); and ~400k single-byte, header-word and truncation mutants of the encodings, where every mutant accepted by strict decoding must re-encode to itself.",
    note="Small-scope hypothesis: vectors longer than 2-3 elements and interactions of several mutated fields are not enumerated. Values embedding a block with an extension are only decodable in compatible mode (by design) and are exempt from the strict/rebuild identities.",
    design="DESIGN.md §5 C15"),
 "C16": dict(engine="seq", category="exploration",
    technique="exhaustive enumeration of short byte strings and of single-step mutants of every protocol message through the production decode boundary and a full accessor/verifier walk; exhaustive subsets of prefilled/available/supplied transactions and tamperings through the real Relayer::reconstruct_block",
    text="All 65 793 byte strings of length <=2 and, for one seed message per union arm of the four protocols (incl. blocks / compact blocks carrying an extension), every truncation, single-byte substitution (7 values), aligned header-word replacement (7 values) and bit flip, raw and inside a compressed frame, are decoded the way the handlers do (compatible decoding + the handlers' malformed-message predicates, exposed by a hook) and every accessor, view conversion, hash, Display and context-free verifier is run under catch_unwind; decompress output is bounded. Reconstruction: the real Relayer on a real node+pool, for every prefilled subset (8) x pool subset (8) x supplied subset incl. a foreign tx (16) x tampering (6): the result must be the announced block (byte-identical, same hash), a precise missing list, a collision or an error. Structure: every prefilled index sequence of length 0..3 over {0,1,2,3,4,7} x 7 short-id lists (incl. a duplicate) goes through CompactBlockVerifier and, if accepted, reconstruct_block. Uncles: a block with two locally unknown uncles, every asked index set x every peer answer sequence of length 0..3 over {U0,U1,foreign} through BlockUnclesVerifier and then reconstruct_block.",
    note="Byte strings further than one mutation from a seed are not enumerated; only compact blocks accepted by CompactBlockVerifier and answers accepted by BlockTransactions/BlockUnclesVerifier are reconstructed (production order); asked uncle indexes are in range (they are the node's own).",
    design="DESIGN.md §5 C16"),
 "C17": dict(engine="seq", category="model_checking",
    technique="explicit-state search over operation histories on the real structures (orphan pool to the fixpoint of reachable states; in-flight table with step-wise refinement checks on the dumped state; header map with real sled backend vs BTreeMap; skip-list ancestor lookup vs parent walk)",
    text="Orphan pool: for every labelled forest of 5 blocks over two absent roots, all sequences of insert / remove_blocks_by_parent(any node) / clean_expired are explored until no new state appears, each return value and the leader set compared with a plain-map model. In-flight table: all sequences (depth 5 quick / 6 thorough) over 3 peers x 4 blocks with a faked clock; every operation is checked as a relation between the dumped pre- and post-state, and the statement's invariants on every state. Header map: every sequence of length <=5/6 of insert/get/contains/remove over 4 keys plus spill (limit 2 items, real sled backend) against a BTreeMap. Ancestor: every (from,to) pair on chains of 300/1024 headers and from 40-block branches at fork points, with and without the main-chain shortcut, against a parent walk.",
    note="Trusted: expiry universes give siblings the same epoch; in-flight records left behind when prune evicts an idle peer scheduler are counted, not judged; locator construction is not covered (needs a real SyncShared) and is not claimed.",
    design="DESIGN.md §5 C17"),
 "C20": dict(engine="node", category="model_checking",
    technique="exhaustive exploration of reorg/truncate/restart histories on the real node with unique proposal ids, compared with the window computed from raw main-chain blocks; verifier agreement at every distance around the window",
    text="For two proposal windows, every history (main chain of length 1..7/10, competing branch forking at every depth 0..far+2 below the tip and overtaking, truncation to every ancestor within far+1) is executed on a real node; after every step the incrementally maintained proposal view, and the view rebuilt by a real shutdown + re-open of the data directory, are compared with the union of proposal ids (uncles included) of the main-chain blocks in the window. A second family commits a real transaction at every distance 1..far+2 from its proposal (by block or by uncle) and requires node view, verifier verdict and window rule to agree.",
    note="Trusted: flat world; ids reported as dropped to the pool are not observed directly; chain-only node.",
    design="DESIGN.md §5 C20"),
 "C01": dict(engine="node", category="model_checking",
    technique="stateless exhaustive exploration of delivery orders on the real node: all labelled block trees x validity labellings x arrival permutations x duplicate patterns, reference fork-choice oracle",
    text="Every labelled block tree with <=3 blocks (quick) / <=4 (thorough) under every single-invalid-block labelling (3 invalidity kinds), and every all-valid tree with <=4 / <=5 blocks, is delivered in every arrival permutation (with 3 duplicate patterns) to a fresh real node through the out-of-order path; after every delivery the tip, total difficulty, verified flags, submitter verdicts and orphan pool are compared with a reference fork choice over the delivered set. Exhaustive within the bound; equal-difficulty world so every fork is a tie race.",
    note="Trusted: ground-truth validity by construction (audited by a forge node), Dummy PoW, OS thread scheduling not controlled in this family (gate-level interleavings are a separate family).",
    design="DESIGN.md §5 C01"),
 "C02": dict(engine="node", category="model_checking",
    technique="explicit-state exploration of reorg histories on the real node with a byte-level reference replay (RefChain) of every reached state, store and published snapshot, plus differential against a main-chain-only node",
    text="Two-branch block universes over a 5-transaction universe (in-block chains, the same tx re-committed across the fork, conflicting spends of a cell created on both branches, uncles, forks straddling the epoch boundary) are generated exhaustively within the bound; every topological interleaving of the branches (with a truncation at every position for the designed universes) is executed on a fresh real node; after every step all canonical columns of the store and of the published snapshot are compared byte-for-byte with an independent from-genesis replay, and the final state with a node that only saw the final main chain.",
    note="Trusted: flat-difficulty world, always-success scripts, RefChain (plain maps + molecule encoders + external MMR library), RocksDB; received_at masked; cycles compared differentially.",
    design="DESIGN.md §5 C02"),
 "C05": dict(engine="seq", category="model_checking",
    technique="exhaustive enumeration of chunk boundaries (every first split point of small programs, uniform step sizes, pairs of splits, every budget around the exact cost) on the real VM scheduler, compared with the un-chunked run of the same resolved transaction",
    text="For 38 (program, VM version) pairs from script/testdata (always_success/failure on v0-2, current_cycles, exec from cell data / witness, infinite exec, spawn_cases 1..19 with pipes/wait/inherited fds, spawn+exec, spawn out-of-cycles) the run is cut at every cycle s in [1,T) when T-1 fits the run budget (6 500 quick / 130 000 thorough; else dense head and tail plus an odd stride) and continued by complete and by resume_from_state; executed in uniform chunks for a ladder of step sizes and every tiny step size; cut twice on a grid; and given every total budget in [T-150, T+150] (600 thorough). Verdict and total cycles must equal verify() of the same transaction; budgets below the cost must report the cycle limit; non-terminating programs must never complete. Pause/resume signals: for the five testdata programs with in-script pause points (DEBUG_PAUSE, v1 and v2) the captured-state path through every pause, resumable_verify_with_signal with an unlimited budget, every budget in [T-60, T+60] (400 thorough) and T/2, 2T/3, 3T/4, 9T/10, each pause answered by Resume; for every other succeeding program the signal path for budgets in [T-4, T+4].",
    note="Trusted: the testdata binaries; ckb-vm itself. Pause signals land only at the deterministic in-script pause points (installed the way the repository's tests install them); pauses at arbitrary instructions depend on thread timing and are not enumerated. One defect is listed as a known finding (spawn/pipe programs report a deadlock when a chunk limit falls on an IO syscall).",
    design="DESIGN.md §5 C05"),
 "C07": dict(engine="seq", category="exploration",
    technique="exhaustive enumeration of finite boundary lattices of the pure consensus arithmetic (all 2^32 compact values in thorough), judged by an exact big-integer reference of the RFC formulas",
    text="next_epoch_ext is evaluated on the complete cartesian grid of epoch statistics placed on every clamp / truncation boundary (length, uncle count, duration incl. sub-second, difficulty up to 2^200, previous hash rate around both factor-two clamps) and compared with the RFC 0020 formula in exact rational arithmetic (length bounds, difficulty, adjusted hash rate, chaining). Block rewards are summed for every epoch length 1..1800 x reward schedule x every block index, the halving schedule for 70 halvings; the EpochNumberWithFraction successor relation on all small values; compact/target/difficulty laws on 256 exponents x 11 mantissas (quick) or all 2^32 compact values (thorough); Eaglesong acceptance against an independent comparison.",
    note="Exhaustive over the stated lattices, not over the 2^64/2^256 value space between lattice points; reference results that do not fit U256 are skipped; Eaglesong itself is trusted.",
    design="DESIGN.md §5 C07"),
 "C08": dict(engine="crash", category="fault_enumeration",
    technique="exhaustive crash-point enumeration: a child process runs each import history and is killed before its N-th database write for every N; real restart path + C02 reference replay + convergence check; depth-2 crashes during recovery (thorough)",
    text="For each history (reorgs, an invalid block in the middle of the otherwise winning branch, children delivered before parents, sequential and burst delivery) a child process is killed (_exit) immediately before every one of its database writes (boot-time writes included); the parent re-opens the directory through SharedBuilder/InitLoadUnverified and requires: it opens, store and snapshot equal a from-genesis replay of the recovered main chain, every stored block that can be verified gets its record again, the tip is maximal among stored fully valid chains, and after redelivery the state equals the crash-free run. Thorough additionally kills the recovery itself at every one of its writes.",
    note="Trusted: process-crash model (completed writes durable, RocksDB write atomicity); write order between threads as produced by the OS in that child run; flat world.",
    design="DESIGN.md §5 C08"),
 "C09": dict(engine="crash", category="fault_enumeration",
    technique="explicit-state BFS over freezer operation histories on the real code + exhaustive crash-image (torn data/index file) enumeration per reached state",
    text="Every history of <=4 (quick) / <=6 (thorough) Append/Truncate/Sync/Reopen operations on the real FreezerFiles with a 40-byte file limit, and every Freezer-level freeze/truncate/reopen history on real packed blocks, is executed; for every reached state every crash image (head data file x INDEX cut to every byte length between last-synced and final size, new head absent/empty) is recovered by the real repair code and compared with a reference item list. Exhaustive within the bound; the bound covers every branch of the repair loop including the walk back across a file boundary.",
    note="Trusted: tmpfs file semantics stand in for a disk; only head data file and INDEX are torn (as the quantifier says); truncate/reopen treated as sync points; reference = Vec<Vec<u8>>.",
    design="DESIGN.md §5 C09"),
}
checks = []
for pid in ALL:
    if pid in CHECKS:
        c = CHECKS[pid]
        checks.append({
            "property_id": pid,
            "quick_cmd": f"bin/check {pid} --tier quick",
            "thorough_cmd": f"bin/check {pid} --tier thorough",
            "evidence_file": f"/verif/evidence/{pid}.json",
            "replay_cmd_template": f"bin/check {pid} --replay {{path}}",
            "engine": c["engine"],
            "level_claimed": {"category": c["category"], "text": c["text"], "design_ref": c["design"]},
            "level_note": c["note"],
            "technique": c["technique"],
        })
NA_REASON = "check not built yet in this round (model-checking design exists in DESIGN.md §5; not claimed until the harness for it has run and demonstrated detection)"
commits = subprocess.run(["git", "-C", "/repo", "log", "--format=%h %s", "--grep=^verif-hooks"], capture_output=True, text=True).stdout.strip().splitlines()
m = {
 "version": 1,
 "setup_cmd": "cd /verif/harness && CARGO_NET_OFFLINE=true cargo build --release --offline",
 "hooks": {
   "guard": "verif-hooks (cargo feature, off by default, declared per hooked crate)",
   "enable": "the harness Cargo.toml enables `<crate>/verif-hooks` on its path dependencies into /repo; `bin/check` rebuilds the harness (and therefore the touched /repo crates) from /repo's working tree before every run",
   "baseline_off_cmd": baseline_cmd,
   "source_commits": [c.split()[0] for c in commits],
   "add_only": True,
 },
 "engines": [
   {"name": "seq", "path": "harness/src/props", "serves_properties": [p for p in CHECKS if CHECKS[p]["engine"] == "seq"], "kind_free_text": "bounded-exhaustive operation sequences / input lattices on real sequential components with plain reference models"},
   {"name": "node", "path": "harness/src/node.rs", "serves_properties": [p for p in CHECKS if CHECKS[p]["engine"] == "node"], "kind_free_text": "explicit-state exploration where every transition is a call into a real booted ckb node"},
   {"name": "crash", "path": "harness/src/props", "serves_properties": [p for p in CHECKS if CHECKS[p]["engine"] == "crash"], "kind_free_text": "crash-image / torn-file enumeration with recovery by the real open path"},
 ],
 "checks": checks,
 "not_applicable": [{"property_id": p, "reason": NA_REASON} for p in ALL if p not in CHECKS],
 "notes": "Technique family: model checking (bounded exhaustive exploration of the real code). exit 0 = held, 1 = VIOLATION, 2 = machinery failure (never a verdict). Known findings: /verif/known_findings.txt.",
}
json.dump(m, open('/verif/MANIFEST.json', 'w'), indent=1)
print("checks:", [c["property_id"] for c in checks])
