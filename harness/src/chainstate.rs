//! Canonical-chain state: a byte-level dump of the store (or of a published snapshot) and
//! `RefChain`, a from-genesis replay of a main chain into plain maps.  The reference shares no
//! attach/detach/reorg code with ckb: it uses molecule builders only to encode rows, blake2b,
//! and the external MMR library with ckb's digest-merge function.
use ckb_chain_spec::consensus::Consensus;
use ckb_db::{Direction, IteratorMode};
use ckb_db_schema::*;
use ckb_merkle_mountain_range::{MMR, MMRStore, leaf_index_to_mmr_size, util::MemStore};
use ckb_store::ChainStore;
use ckb_types::{
    U256,
    core::{BlockView, Capacity},
    packed,
    prelude::*,
    utilities::merkle_mountain_range::MergeHeaderDigest,
};
use std::collections::BTreeMap;

pub type Rows = BTreeMap<Vec<u8>, Vec<u8>>;

#[derive(Clone, Debug, Default, PartialEq, Eq)]
pub struct Dump {
    pub cell: Rows,
    pub cell_data: Rows,
    pub cell_data_hash: Rows,
    pub index: Rows,
    pub tx_info: Rows,
    pub uncles: Rows,
    pub meta_tip: Vec<u8>,
    pub meta_epoch: Vec<u8>,
    pub block_epoch: Rows,
    pub epoch: Rows,
    pub block_ext: Rows,
    pub mmr: Rows,
}

fn rows<S: ChainStore>(s: &S, col: Col) -> Rows {
    s.get_iter(col, IteratorMode::From(&[], Direction::Forward)).map(|(k, v)| (k.to_vec(), v.to_vec())).collect()
}

pub fn dump<S: ChainStore>(s: &S) -> Dump {
    Dump {
        cell: rows(s, COLUMN_CELL),
        cell_data: rows(s, COLUMN_CELL_DATA),
        cell_data_hash: rows(s, COLUMN_CELL_DATA_HASH),
        index: rows(s, COLUMN_INDEX),
        tx_info: rows(s, COLUMN_TRANSACTION_INFO),
        uncles: rows(s, COLUMN_UNCLES),
        meta_tip: s.get(COLUMN_META, META_TIP_HEADER_KEY).map(|v| v.as_ref().to_vec()).unwrap_or_default(),
        meta_epoch: s.get(COLUMN_META, META_CURRENT_EPOCH_KEY).map(|v| v.as_ref().to_vec()).unwrap_or_default(),
        block_epoch: rows(s, COLUMN_BLOCK_EPOCH),
        epoch: rows(s, COLUMN_EPOCH),
        block_ext: rows(s, COLUMN_BLOCK_EXT),
        mmr: rows(s, COLUMN_CHAIN_ROOT_MMR),
    }
}

#[derive(Clone, Debug, PartialEq, Eq)]
pub struct RefExt {
    pub total_difficulty: U256,
    pub total_uncles_count: u64,
    pub txs_fees: Vec<u64>,
    pub txs_sizes: Vec<u64>,
}

#[derive(Clone, Debug, Default)]
pub struct RefChain {
    pub cell: Rows,
    pub cell_data: Rows,
    pub cell_data_hash: Rows,
    pub index: Rows,
    pub tx_info: Rows,
    pub uncles: Rows,
    pub meta_tip: Vec<u8>,
    pub meta_epoch: Vec<u8>,
    /// main-chain block hash -> epoch index (hash of the last block of the previous epoch)
    pub block_epoch: Rows,
    /// epoch index -> packed EpochExt ; 8-byte epoch number -> epoch index
    pub epoch: Rows,
    pub epoch_by_number: Rows,
    pub ext: BTreeMap<Vec<u8>, RefExt>,
    pub mmr: Rows,
    pub mmr_root: Vec<u8>,
    pub tip_total_difficulty: U256,
    /// per-output capacity of live cells, for fee computation
    live_capacity: BTreeMap<Vec<u8>, u64>,
}

fn cell_key(tx_hash: &packed::Byte32, index: u32) -> Vec<u8> {
    let mut k = tx_hash.as_slice().to_vec();
    k.extend_from_slice(&index.to_be_bytes());
    k
}

impl RefChain {
    /// Replay `chain` (chain[0] = genesis) under the flat world (`permanent_difficulty`): epochs
    /// are computed in closed form from the genesis epoch.
    pub fn replay(consensus: &Consensus, chain: &[BlockView]) -> Result<RefChain, String> {
        assert!(consensus.permanent_difficulty(), "RefChain epoch model is the closed form of the permanent-difficulty world");
        let mut r = RefChain::default();
        let store = MemStore::<packed::HeaderDigest>::default();
        let mut mmr_size = 0u64;
        let mut td = U256::zero();
        let mut uncles_total = 0u64;
        let genesis_epoch = consensus.genesis_epoch_ext().clone();
        let epoch_len = consensus.epoch_duration_target().div_ceil(8);
        let mut cur_epoch = genesis_epoch.clone();
        for (n, b) in chain.iter().enumerate() {
            let n = n as u64;
            if b.number() != n {
                return Err(format!("chain[{n}] has number {}", b.number()));
            }
            if n > 0 && b.parent_hash() != chain[n as usize - 1].hash() {
                return Err(format!("chain[{n}] does not extend chain[{}]", n - 1));
            }
            let hash = b.hash();
            // ---- epoch (closed form)
            if n > 0 && n == cur_epoch.start_number() + cur_epoch.length() {
                let number = cur_epoch.number() + 1;
                let reward = consensus.primary_epoch_reward(number).as_u64();
                cur_epoch = cur_epoch
                    .clone()
                    .into_builder()
                    .base_block_reward(Capacity::shannons(reward / epoch_len))
                    .remainder_reward(Capacity::shannons(reward % epoch_len))
                    .number(number)
                    .last_block_hash_in_previous_epoch(chain[n as usize - 1].hash())
                    .start_number(n)
                    .length(epoch_len)
                    .build();
            }
            let epoch_index = cur_epoch.last_block_hash_in_previous_epoch();
            r.block_epoch.insert(hash.as_slice().to_vec(), epoch_index.as_slice().to_vec());
            let packed_epoch: packed::EpochExt = (&cur_epoch).into();
            r.epoch.insert(epoch_index.as_slice().to_vec(), packed_epoch.as_slice().to_vec());
            let num_key: packed::Uint64 = cur_epoch.number().into();
            r.epoch_by_number.insert(num_key.as_slice().to_vec(), epoch_index.as_slice().to_vec());
            // header epoch field must agree with the reference epoch
            let he = b.epoch();
            if n > 0 && (he.number() != cur_epoch.number() || he.index() != n - cur_epoch.start_number() || he.length() != cur_epoch.length()) {
                return Err(format!("block {n} epoch field {he} disagrees with reference epoch {} start {} len {}", cur_epoch.number(), cur_epoch.start_number(), cur_epoch.length()));
            }
            // ---- index
            let num: packed::Uint64 = n.into();
            r.index.insert(num.as_slice().to_vec(), hash.as_slice().to_vec());
            r.index.insert(hash.as_slice().to_vec(), num.as_slice().to_vec());
            // ---- uncles
            for u in b.uncles().into_iter() {
                let hv: packed::HeaderView = u.header().into();
                r.uncles.insert(u.hash().as_slice().to_vec(), hv.as_slice().to_vec());
                uncles_total += 1;
            }
            // ---- transactions: info, cells
            let mut fees = vec![];
            let mut sizes = vec![];
            for (ti, tx) in b.transactions().iter().enumerate() {
                let key = packed::TransactionKey::new_builder().block_hash(hash.clone()).index(ti).build();
                let info = packed::TransactionInfo::new_builder().key(key).block_number(n).block_epoch(b.epoch()).build();
                r.tx_info.insert(tx.hash().as_slice().to_vec(), info.as_slice().to_vec());
                sizes.push(tx.data().serialized_size_in_block() as u64);
                let mut in_cap = 0u64;
                if ti > 0 {
                    for inp in tx.input_pts_iter() {
                        let idx: u32 = inp.index().into();
                        let k = cell_key(&inp.tx_hash(), idx);
                        if n > 0 {
                            match r.live_capacity.remove(&k) {
                                Some(c) => in_cap += c,
                                None => return Err(format!("reference replay: block {n} tx {ti} spends a cell that is not live")),
                            }
                        }
                        r.cell.remove(&k);
                        r.cell_data.remove(&k);
                        r.cell_data_hash.remove(&k);
                    }
                }
                let mut out_cap = 0u64;
                for (oi, (output, data)) in tx.outputs_with_data_iter().enumerate() {
                    let k = cell_key(&tx.hash(), oi as u32);
                    let entry = packed::CellEntryBuilder::default()
                        .output(output.clone())
                        .block_hash(hash.clone())
                        .block_number(n)
                        .block_epoch(b.epoch())
                        .index(ti)
                        .data_size(data.len() as u64)
                        .build();
                    r.cell.insert(k.clone(), entry.as_slice().to_vec());
                    if data.is_empty() {
                        r.cell_data.insert(k.clone(), vec![]);
                        r.cell_data_hash.insert(k.clone(), vec![]);
                    } else {
                        let dh = packed::CellOutput::calc_data_hash(&data);
                        let de = packed::CellDataEntryBuilder::default().output_data(data).output_data_hash(dh.clone()).build();
                        r.cell_data.insert(k.clone(), de.as_slice().to_vec());
                        r.cell_data_hash.insert(k.clone(), dh.as_slice().to_vec());
                    }
                    let c: u64 = output.capacity().unpack();
                    out_cap += c;
                    r.live_capacity.insert(k, c);
                }
                if ti > 0 && n > 0 {
                    if in_cap < out_cap {
                        return Err(format!("reference replay: block {n} tx {ti} creates capacity"));
                    }
                    fees.push(in_cap - out_cap);
                }
            }
            // the in-block same-transaction order matters: a cell created and spent in the same
            // block must not be live afterwards (handled above because outputs are inserted in
            // order and inputs removed in order)
            // ---- ext
            td = td + b.difficulty();
            r.ext.insert(hash.as_slice().to_vec(), RefExt { total_difficulty: td.clone(), total_uncles_count: uncles_total, txs_fees: fees, txs_sizes: sizes });
            // ---- mmr
            let mut mmr = MMR::<packed::HeaderDigest, MergeHeaderDigest, &MemStore<packed::HeaderDigest>>::new(mmr_size, &store);
            mmr.push(b.digest()).map_err(|e| format!("ref mmr push: {e}"))?;
            mmr_size = mmr.mmr_size();
            if n as usize == chain.len() - 1 {
                r.mmr_root = mmr.get_root().map_err(|e| format!("ref mmr root: {e}"))?.as_slice().to_vec();
            }
            mmr.commit().map_err(|e| format!("ref mmr commit: {e}"))?;
        }
        let tip = chain.last().unwrap();
        debug_assert_eq!(mmr_size, leaf_index_to_mmr_size(tip.number()));
        for pos in 0..mmr_size {
            let e = MMRStore::get_elem(&&store, pos).map_err(|e| e.to_string())?.ok_or("ref mmr hole")?;
            let k: packed::Uint64 = pos.into();
            r.mmr.insert(k.as_slice().to_vec(), e.as_slice().to_vec());
        }
        r.meta_tip = tip.hash().as_slice().to_vec();
        let packed_epoch: packed::EpochExt = (&cur_epoch).into();
        r.meta_epoch = packed_epoch.as_slice().to_vec();
        r.tip_total_difficulty = td;
        Ok(r)
    }
}

fn diff_rows(name: &str, got: &Rows, want: &Rows, out: &mut Vec<(String, String)>) {
    if got == want {
        return;
    }
    let extra: Vec<_> = got.keys().filter(|k| !want.contains_key(*k)).collect();
    let missing: Vec<_> = want.keys().filter(|k| !got.contains_key(*k)).collect();
    let differ: Vec<_> = got.iter().filter(|(k, v)| want.get(*k).map(|w| w != *v).unwrap_or(false)).map(|(k, _)| k).collect();
    let h = |v: &Vec<&Vec<u8>>| v.iter().take(2).map(|k| crate::core::hex(k)).collect::<Vec<_>>().join(",");
    out.push((
        name.to_string(),
        format!("{name}: {} stale/extra rows [{}], {} missing rows [{}], {} rows with wrong value [{}]", extra.len(), h(&extra), missing.len(), h(&missing), differ.len(), h(&differ)),
    ));
}

/// Compare a dump with the reference.  Returns (sub-check name, message) per disagreement.
pub fn compare<S: ChainStore>(s: &S, d: &Dump, r: &RefChain) -> Vec<(String, String)> {
    let mut out = vec![];
    diff_rows("live-cells", &d.cell, &r.cell, &mut out);
    diff_rows("cell-data", &d.cell_data, &r.cell_data, &mut out);
    diff_rows("cell-data-hash", &d.cell_data_hash, &r.cell_data_hash, &mut out);
    diff_rows("number-hash-index", &d.index, &r.index, &mut out);
    diff_rows("tx-info", &d.tx_info, &r.tx_info, &mut out);
    diff_rows("uncle-index", &d.uncles, &r.uncles, &mut out);
    if d.meta_tip != r.meta_tip {
        out.push(("meta-tip".into(), format!("stored tip {} != main-chain head {}", crate::core::hex(&d.meta_tip), crate::core::hex(&r.meta_tip))));
    }
    if d.meta_epoch != r.meta_epoch {
        out.push(("current-epoch".into(), "stored current epoch ext differs from the epoch of the tip".to_string()));
    }
    for (h, idx) in &r.block_epoch {
        if d.block_epoch.get(h) != Some(idx) {
            out.push(("block-epoch".into(), format!("block {} epoch index row {:?} != {}", crate::core::hex(h), d.block_epoch.get(h).map(|v| crate::core::hex(v)), crate::core::hex(idx))));
        }
    }
    for (idx, e) in &r.epoch {
        if d.epoch.get(idx) != Some(e) {
            out.push(("epoch-ext".into(), format!("epoch ext row for index {} differs from reference", crate::core::hex(idx))));
        }
    }
    for (num, idx) in &r.epoch_by_number {
        if d.epoch.get(num) != Some(idx) {
            out.push(("epoch-by-number".into(), format!("epoch number row {} -> {:?}, main chain says {}", crate::core::hex(num), d.epoch.get(num).map(|v| crate::core::hex(v)), crate::core::hex(idx))));
        }
    }
    for (h, want) in &r.ext {
        let hash = packed::Byte32::from_slice(h).unwrap();
        match s.get_block_ext(&hash) {
            None => out.push(("block-ext".into(), format!("main-chain block {} has no ext", crate::core::hex(h)))),
            Some(ext) => {
                let fees: Vec<u64> = ext.txs_fees.iter().map(|c| c.as_u64()).collect();
                let ok = ext.total_difficulty == want.total_difficulty
                    && ext.total_uncles_count == want.total_uncles_count
                    && ext.verified == Some(true)
                    && (hash == packed::Byte32::from_slice(r.index.get(&0u64.to_le_bytes().to_vec()).unwrap()).unwrap()
                        || (fees == want.txs_fees
                            && ext.txs_sizes.as_ref() == Some(&want.txs_sizes)
                            && ext.cycles.as_ref().map(|c| c.len()) == Some(want.txs_fees.len())));
                if !ok {
                    out.push(("block-ext".into(), format!("ext of main-chain block {}: got td={:#x} uncles={} verified={:?} fees={:?} sizes={:?} cycles={:?}; want td={:#x} uncles={} fees={:?} sizes={:?}", crate::core::hex(h), ext.total_difficulty, ext.total_uncles_count, ext.verified, fees, ext.txs_sizes, ext.cycles, want.total_difficulty, want.total_uncles_count, want.txs_fees, want.txs_sizes)));
                }
            }
        }
    }
    for (pos, e) in &r.mmr {
        if d.mmr.get(pos) != Some(e) {
            out.push(("chain-root-mmr".into(), format!("MMR node at position {} differs from the reference MMR of the main chain", u64::from_le_bytes(pos.as_slice().try_into().unwrap()))));
        }
    }
    out
}
