//! Block source for bulk universes: a chain-only real node (the forge) whose main chain is
//! moved to the wanted parent (truncate + replay), and an assembler that fills cellbase, DAO,
//! epoch and chain-root extension with ckb's calculators on the forge's snapshot.  Ground
//! truth for validity in universes is by construction (valid blocks come from here unchanged,
//! invalid ones are explicit mutations), cross-checked by a control node (see `Universe::audit`).
use crate::node::*;
use crate::world::*;
use ckb_chain_spec::consensus::Consensus;
use ckb_dao::DaoCalculator;
use ckb_reward_calculator::RewardCalculator;
use ckb_snapshot::Snapshot;
use ckb_store::ChainStore;
use ckb_types::{
    bytes::Bytes,
    core::{
        BlockBuilder, BlockView, Capacity, TransactionBuilder, TransactionView, UncleBlockView,
        cell::{OverlayCellProvider, TransactionsProvider, resolve_transaction},
    },
    packed::{self, CellInput, CellOutput, CellbaseWitness, ProposalShortId, Script},
    prelude::*,
};
use std::collections::{HashMap, HashSet};
use std::path::Path;

#[derive(Clone, Debug, Default)]
pub struct BlockSpec {
    pub txs: Vec<TransactionView>,
    pub proposals: Vec<ProposalShortId>,
    pub uncles: Vec<UncleBlockView>,
    /// added to the canonical timestamp of the height (siblings differ here)
    pub ts_offset: u64,
    pub miner: u8,
    /// absolute timestamp override (worlds with dynamic difficulty choose epoch durations)
    pub timestamp: Option<u64>,
}

pub fn miner_lock(miner: u8) -> Script {
    // always-success lock with distinguishing args so that rewards are attributable; miners 240.. use
    // 700 bytes of args (a cell locked by them needs 741 CKB: worlds with a small block reward
    // reach the "reward too small to create the cell" branch)
    let args = if miner >= 240 { vec![miner; 700] } else { vec![miner] };
    always_success_lock().as_builder().args(Bytes::from(args).pack()).build()
}

pub fn build_cellbase(snapshot: &Snapshot, miner: u8) -> Result<TransactionView, String> {
    let tip = snapshot.tip_header();
    let number = tip.number() + 1;
    let witness = CellbaseWitness::new_builder().lock(miner_lock(miner)).message(Bytes::new().pack()).build();
    let (target_lock, block_reward) = RewardCalculator::new(snapshot.consensus(), snapshot)
        .block_reward_to_finalize(tip)
        .map_err(|e| format!("reward: {e}"))?;
    let input = CellInput::new_cellbase_input(number);
    let output = CellOutput::new_builder().capacity(block_reward.total).lock(target_lock).build();
    let b = TransactionBuilder::default().input(input).witness(witness.as_bytes().pack());
    let no_target = number <= snapshot.consensus().finalization_delay_length();
    let lack = output.is_lack_of_capacity(Capacity::zero()).map_err(|e| e.to_string())?;
    Ok(if no_target || lack { b.build() } else { b.output(output).output_data(Bytes::new().pack()).build() })
}

/// Assemble a block on top of `snapshot`'s tip.
pub fn assemble(snapshot: &Snapshot, spec: &BlockSpec) -> Result<BlockView, String> {
    assemble_with(snapshot, spec, None)
}

/// `assemble` with a given cellbase (candidates that break the reward rule and nothing else: the
/// DAO field is computed for the block as it is)
pub fn assemble_with(snapshot: &Snapshot, spec: &BlockSpec, cellbase: Option<TransactionView>) -> Result<BlockView, String> {
    let consensus = snapshot.consensus();
    let tip = snapshot.tip_header();
    let number = tip.number() + 1;
    let epoch = consensus
        .next_epoch_ext(tip, &snapshot.borrow_as_data_loader())
        .ok_or("next_epoch_ext")?
        .epoch();
    let cellbase = match cellbase {
        Some(c) => c,
        None => build_cellbase(snapshot, spec.miner)?,
    };
    let mut all = vec![cellbase];
    all.extend(spec.txs.iter().cloned());
    let provider = TransactionsProvider::new(all.iter());
    let overlay = OverlayCellProvider::new(&provider, snapshot);
    let mut seen = HashSet::new();
    let mut rtxs = vec![];
    for tx in &all {
        rtxs.push(resolve_transaction(tx.clone(), &mut seen, &overlay, snapshot).map_err(|e| format!("resolve {}: {e}", tx.hash()))?);
    }
    let dao = DaoCalculator::new(consensus, &snapshot.borrow_as_data_loader())
        .dao_field(rtxs.iter(), tip)
        .map_err(|e| format!("dao: {e}"))?;
    let root = snapshot.chain_root_mmr(tip.number()).get_root().map_err(|e| format!("mmr: {e}"))?;
    let ext: packed::Bytes = root.calc_mmr_hash().as_bytes().pack();
    Ok(BlockBuilder::default()
        .version(consensus.block_version())
        .parent_hash(tip.hash())
        .number(number)
        .epoch(epoch.number_with_fraction(number))
        .compact_target(epoch.compact_target())
        .timestamp(spec.timestamp.unwrap_or(time_for_height(number) + spec.ts_offset))
        .dao(dao)
        .transactions(all)
        .proposals(spec.proposals.clone())
        .uncles(spec.uncles.clone())
        .extension(Some(ext))
        .build())
}

/// A forge: chain-only node that can be repositioned onto any already-built block.
pub struct Forge {
    pub node: Option<Node>,
    pub consensus: Consensus,
    /// every block this forge has produced or been fed, by hash
    pub known: HashMap<packed::Byte32, BlockView>,
    /// blocks verified by the current forge node (a detached verified block cannot be
    /// re-attached by re-delivery: the chain answers "already verified")
    processed: HashSet<packed::Byte32>,
    root: std::path::PathBuf,
    generation: u32,
    pub boots: u32,
}

impl Forge {
    pub fn new(dir: &Path, consensus: &Consensus) -> Result<Forge, String> {
        let mut known = HashMap::new();
        let g = consensus.genesis_block().clone();
        known.insert(g.hash(), g);
        let mut f = Forge { node: None, consensus: consensus.clone(), known, processed: HashSet::new(), root: dir.to_path_buf(), generation: 0, boots: 0 };
        f.reboot()?;
        Ok(f)
    }

    fn reboot(&mut self) -> Result<(), String> {
        if let Some(n) = self.node.take() {
            let d = n.dir.clone();
            n.shutdown();
            let _ = std::fs::remove_dir_all(d);
        }
        self.generation += 1;
        self.boots += 1;
        let dir = self.root.join(format!("forge-{}", self.generation));
        let _ = std::fs::remove_dir_all(&dir);
        let node = Node::boot(&dir, &NodeOpts::new(self.consensus.clone()))?;
        node.wait_startup()?;
        self.node = Some(node);
        self.processed.clear();
        Ok(())
    }

    pub fn node(&self) -> &Node {
        self.node.as_ref().unwrap()
    }

    fn path_to(&self, hash: &packed::Byte32) -> Result<Vec<BlockView>, String> {
        let mut path = vec![];
        let mut cur = hash.clone();
        loop {
            let b = self.known.get(&cur).ok_or_else(|| format!("forge does not know block {cur}"))?.clone();
            if b.number() == 0 {
                break;
            }
            cur = b.parent_hash();
            path.push(b);
        }
        path.reverse();
        Ok(path)
    }

    /// Make `parent` the forge's tip.
    pub fn goto(&mut self, parent: &packed::Byte32) -> Result<(), String> {
        if &self.node().tip().hash() == parent {
            return Ok(());
        }
        let path = self.path_to(parent)?;
        let (common, first_new) = {
            let snap = self.node().shared.snapshot();
            let mut common = self.consensus.genesis_hash();
            let mut first_new = 0;
            for (i, b) in path.iter().enumerate() {
                if snap.is_main_chain(&b.hash()) {
                    common = b.hash();
                    first_new = i + 1;
                } else {
                    break;
                }
            }
            (common, first_new)
        };
        let mut first_new = first_new;
        if path[first_new..].iter().any(|b| self.processed.contains(&b.hash())) {
            self.reboot()?;
            first_new = 0;
        } else if self.node().tip().hash() != common {
            self.node().chain().truncate(common).map_err(|e| format!("truncate: {e}"))?;
        }
        for b in &path[first_new..] {
            match self.node().process(b) {
                Ok(true) => {}
                other => return Err(format!("forge replay of block {} answered {:?}", b.number(), other.map_err(|e| e.to_string()))),
            }
            self.processed.insert(b.hash());
            if self.node().tip().hash() != b.hash() {
                return Err(format!("forge could not attach block {} {}", b.number(), b.hash()));
            }
        }
        Ok(())
    }

    /// Build a block on `parent` per `spec`; the block is not processed by the forge.
    pub fn build_on(&mut self, parent: &packed::Byte32, spec: &BlockSpec) -> Result<BlockView, String> {
        self.goto(parent)?;
        let snap = self.node().shared.snapshot();
        let b = assemble(&snap, spec)?;
        self.known.insert(b.hash(), b.clone());
        Ok(b)
    }

    /// `build_on` with a given cellbase
    pub fn build_on_with_cellbase(&mut self, parent: &packed::Byte32, spec: &BlockSpec, cellbase: TransactionView) -> Result<BlockView, String> {
        self.goto(parent)?;
        let snap = self.node().shared.snapshot();
        let b = assemble_with(&snap, spec, Some(cellbase))?;
        self.known.insert(b.hash(), b.clone());
        Ok(b)
    }

    /// Drop everything learnt except genesis (histories with fresh blocks never come back to old ones).
    pub fn forget(&mut self) {
        self.known.retain(|_, b| b.number() == 0);
        self.processed.clear();
    }

    pub fn learn(&mut self, b: &BlockView) {
        self.known.insert(b.hash(), b.clone());
    }
}
