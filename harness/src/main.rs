//! ckbmc — bounded exhaustive exploration of nervosnetwork/ckb against /verif/properties.jsonl.
//!
//! `ckbmc check <ID> --tier quick|thorough [--replay file]`   orchestrator (spawns shard workers)
//! `ckbmc worker <ID> --tier T --shard i --of n --out file`   one shard, writes a partial report
mod chainstate;
mod core;
mod forge;
mod node;
mod props;
mod sched;
mod universe;
mod world;
mod zoo;

use crate::core::*;
use std::path::PathBuf;
use std::process::Command;
use std::time::{Duration, Instant};

pub struct Prop {
    pub id: &'static str,
    /// run in `n` subprocesses (process-global state in ckb) or in-process
    pub sharded: bool,
    pub meta: fn(Tier) -> Meta,
    pub run: fn(&Ctx) -> Report,
    /// exploration wall budget in seconds (quick, thorough); caps are reported, never silent
    pub budget: (u64, u64),
}

fn arg_value(args: &[String], name: &str) -> Option<String> {
    args.iter()
        .position(|a| a == name)
        .and_then(|i| args.get(i + 1).cloned())
}

struct StderrLogger;
impl log::Log for StderrLogger {
    fn enabled(&self, m: &log::Metadata) -> bool {
        m.level() <= log::Level::Debug && (m.target().starts_with("ckb_chain") || m.target().starts_with("ckb_shared") || m.target().starts_with("ckb_tx_pool"))
    }
    fn log(&self, r: &log::Record) {
        if self.enabled(r.metadata()) {
            eprintln!("[{} {}] {}", r.level(), r.target(), r.args());
        }
    }
    fn flush(&self) {}
}
static LOGGER: StderrLogger = StderrLogger;

fn main() {
    if std::env::var("VERIF_LOG").is_ok() {
        let _ = log::set_logger(&LOGGER);
        log::set_max_level(log::LevelFilter::Debug);
    }
    let args: Vec<String> = std::env::args().collect();
    if args.len() >= 5 && args[1] == "crashrun" {
        std::process::exit(props::c08::crashrun_main(&args[2..]));
    }
    if args.len() >= 4 && args[1] == "syscellrun" {
        std::process::exit(props::c14::syscellrun_main(&args[2..]));
    }
    if args.len() >= 5 && args[1] == "freezerun" {
        std::process::exit(props::c10::freezerun_main(&args[2..]));
    }
    if args.len() < 3 {
        eprintln!("usage: ckbmc check|worker <ID> [--tier quick|thorough] [--replay file]");
        std::process::exit(2);
    }
    let mode = args[1].as_str();
    let id = args[2].as_str();
    let tier = Tier::parse(
        &arg_value(&args, "--tier")
            .or_else(|| std::env::var("VERIF_TIER").ok())
            .unwrap_or_else(|| "quick".into()),
    );
    let seed: u64 = std::env::var("VERIF_SEED")
        .ok()
        .and_then(|s| s.parse().ok())
        .unwrap_or(0);
    let prop = match props::lookup(id) {
        Some(p) => p,
        None => {
            eprintln!("unknown property {id}");
            std::process::exit(2);
        }
    };
    let budget_s = arg_value(&args, "--budget")
        .and_then(|s| s.parse().ok())
        .or_else(|| std::env::var("VERIF_BUDGET").ok().and_then(|s| s.parse().ok()))
        .unwrap_or(if tier.is_thorough() {
            prop.budget.1
        } else {
            prop.budget.0
        });
    let replay = arg_value(&args, "--replay").map(PathBuf::from);
    let started = Instant::now();
    // the quick tiers are sized to finish inside the budget on this machine; on a machine that runs
    // many checks at once they finish the same enumeration (see Ctx::out_of_time)
    if !tier.is_thorough() {
        unsafe { std::env::set_var("VERIF_CPU_BUDGET", "1") };
    }

    // never let a worker thread's panic message be the only trace: keep default hook but
    // make sure logging of ckb crates is silent unless asked for
    match mode {
        "worker" => {
            let shard: usize = arg_value(&args, "--shard").unwrap().parse().unwrap();
            let shards: usize = arg_value(&args, "--of").unwrap().parse().unwrap();
            let out = PathBuf::from(arg_value(&args, "--out").unwrap());
            let scratch = PathBuf::from(arg_value(&args, "--scratch").unwrap());
            std::fs::create_dir_all(&scratch).ok();
            let ctx = Ctx {
                tier,
                seed,
                shard,
                shards,
                scratch,
                started,
                budget: Duration::from_secs(budget_s),
                replay,
            };
            let report = (prop.run)(&ctx);
            std::fs::write(&out, serde_json::to_vec(&report).unwrap()).expect("write shard report");
            std::process::exit(0);
        }
        "check" => {
            let scratch = scratch_root();
            std::fs::create_dir_all(&scratch).expect("create scratch");
            let meta = (prop.meta)(tier);
            let ctx = Ctx {
                tier,
                seed,
                shard: 0,
                shards: 1,
                scratch: scratch.clone(),
                started,
                budget: Duration::from_secs(budget_s),
                replay: replay.clone(),
            };
            let report = if prop.sharded && replay.is_none() {
                let n: usize = arg_value(&args, "--workers")
                    .and_then(|s| s.parse().ok())
                    .unwrap_or(16);
                run_sharded(&prop, &ctx, n, budget_s)
            } else {
                (prop.run)(&ctx)
            };
            let code = finish(&meta, &ctx, &report);
            let _ = std::fs::remove_dir_all(&scratch);
            std::process::exit(code);
        }
        _ => {
            eprintln!("unknown mode {mode}");
            std::process::exit(2);
        }
    }
}

fn run_sharded(prop: &Prop, ctx: &Ctx, n: usize, budget_s: u64) -> Report {
    let exe = std::env::current_exe().expect("current_exe");
    let mut children = vec![];
    for i in 0..n {
        let out = ctx.scratch.join(format!("shard-{i}.json"));
        let scratch = ctx.scratch.join(format!("w{i}"));
        let log = std::fs::File::create(ctx.scratch.join(format!("shard-{i}.log"))).unwrap();
        let child = Command::new(&exe)
            .arg("worker")
            .arg(prop.id)
            .args(["--tier", ctx.tier.as_str()])
            .args(["--shard", &i.to_string()])
            .args(["--of", &n.to_string()])
            .args(["--budget", &budget_s.to_string()])
            .arg("--out")
            .arg(&out)
            .arg("--scratch")
            .arg(&scratch)
            .env("VERIF_SEED", ctx.seed.to_string())
            .stdout(log.try_clone().unwrap())
            .stderr(log)
            .spawn()
            .expect("spawn worker");
        children.push((i, child, out));
    }
    let mut report = Report::new();
    // hard stop: budget + generous grace; a worker still alive then is a machinery failure
    let hard = Duration::from_secs(budget_s * 3 + 300);
    for (i, mut child, out) in children {
        let status = loop {
            match child.try_wait() {
                Ok(Some(st)) => break Some(st),
                Ok(None) => {
                    if ctx.started.elapsed() > hard {
                        let _ = child.kill();
                        let _ = child.wait();
                        break None;
                    }
                    std::thread::sleep(Duration::from_millis(20));
                }
                Err(_) => break None,
            }
        };
        let logp = ctx.scratch.join(format!("shard-{i}.log"));
        match status {
            Some(st) if st.success() => match std::fs::read(&out)
                .ok()
                .and_then(|b| serde_json::from_slice::<Report>(&b).ok())
            {
                Some(r) => report.merge(r),
                None => report
                    .machinery_errors
                    .push(format!("shard {i}: no readable report")),
            },
            other => {
                let tail = std::fs::read_to_string(&logp).unwrap_or_default();
                let tail: String = tail
                    .lines()
                    .rev()
                    .take(30)
                    .collect::<Vec<_>>()
                    .into_iter()
                    .rev()
                    .collect::<Vec<_>>()
                    .join("\n");
                report.machinery_errors.push(format!(
                    "shard {i} died ({other:?}); log tail:\n{tail}"
                ));
            }
        }
    }
    report
}
