//! Worlds: small-parameter consensus configurations in which epoch boundaries, proposal
//! window edges and reward finalisation all occur within a dozen blocks.
use ckb_chain_spec::consensus::{Consensus, ConsensusBuilder, ProposalWindow, build_genesis_epoch_ext};
use ckb_dao_utils::genesis_dao_data;
use ckb_test_chain_utils::{always_success_cell, create_always_success_tx};
use ckb_types::{
    bytes::Bytes,
    core::{
        BlockBuilder, BlockView, Capacity, EpochNumberWithFraction, TransactionBuilder, TransactionView,
        capacity_bytes, hardfork::HardForks,
    },
    packed::{self, CellDep, CellInput, CellOutput, OutPoint},
    prelude::*,
    utilities::DIFF_TWO,
};

pub const BASE_TIME: u64 = 1_700_000_000_000;
pub const BLOCK_INTERVAL_MS: u64 = 8_000;
pub const GENESIS_CELLS: usize = 8;
pub const EPOCH_REWARD: u64 = 1_917_808_21917808;

#[derive(Clone, Debug)]
pub struct WorldOpts {
    pub epoch_length: u64,
    pub window: (u64, u64),
    pub cellbase_maturity: EpochNumberWithFraction,
    pub max_block_bytes: Option<u64>,
    pub max_block_cycles: Option<u64>,
    pub max_block_proposals_limit: Option<u64>,
    pub permanent_difficulty: bool,
    /// genesis compact target (DIFF_TWO in the flat world; larger where difficulty must be able
    /// to halve and double without hitting 1)
    pub genesis_compact_target: u32,
    /// genesis also holds script/testdata/exec_caller_from_witness as a code cell and one cell
    /// locked by it (a lock whose verdict depends on the witness): see `witness_lock_cells`
    pub witness_lock: bool,
    /// primary issuance per epoch (default EPOCH_REWARD, which divides evenly by the 4-block epoch)
    pub primary_epoch_reward: Option<u64>,
    /// genesis shaped like a production chain's: transaction 0 creates four cells (always-success
    /// code, a second code cell, two data cells), transaction 1 two dep-group cells over them -
    /// the layout `setup_system_cell_cache` expects.  All of them unspendable.
    pub system_cells: bool,
    /// activation epoch of the 2023 hard fork (VM version 2, hash type data2); default 0 = active
    /// from genesis like every other feature
    pub ckb2023_epoch: u64,
    /// genesis transaction 0 has three outputs; output 2 (where production chains keep the NervosDAO
    /// code cell: `OUTPUT_INDEX_DAO`) holds the always-success code under a type script of its own,
    /// so that `Consensus::dao_type_hash` names a script cells can use: every consensus-level rule
    /// about NervosDAO cells (maximum withdraw, S, DAO script size) applies to them, while the script
    /// itself accepts everything (the real script's own checks are not consensus code of the node)
    pub dao_cell: bool,
    /// length of the genesis epoch when it differs from the later epochs' (`epoch_length`): the
    /// first epoch change then also changes the length, in the permanent-difficulty world too
    pub genesis_epoch_length: Option<u64>,
}

impl Default for WorldOpts {
    fn default() -> Self {
        WorldOpts {
            epoch_length: 4,
            window: (2, 4),
            cellbase_maturity: EpochNumberWithFraction::new(0, 0, 1),
            max_block_bytes: None,
            max_block_cycles: None,
            max_block_proposals_limit: None,
            permanent_difficulty: true,
            genesis_compact_target: DIFF_TWO,
            witness_lock: false,
            primary_epoch_reward: None,
            system_cells: false,
            ckb2023_epoch: 0,
            dao_cell: false,
            genesis_epoch_length: None,
        }
    }
}

pub fn set_time(ms: u64) {
    let g = ckb_systemtime::faketime();
    g.set_faketime(ms);
    std::mem::forget(g);
}

pub fn time_for_height(h: u64) -> u64 {
    BASE_TIME + h * BLOCK_INTERVAL_MS
}

pub fn always_success_lock() -> packed::Script {
    always_success_cell().2.clone()
}

pub fn always_success_dep(consensus: &Consensus) -> CellDep {
    let tx0 = consensus.genesis_block().transactions()[0].hash();
    CellDep::new_builder().out_point(OutPoint::new(tx0, 0)).build()
}

/// Genesis: tx0 = always-success code cell (cellbase-shaped), tx1.. = spendable cells of
/// distinct capacities locked by always-success.
pub fn genesis_block() -> BlockView {
    genesis_block_with_target(DIFF_TWO)
}

pub fn genesis_block_with_target(compact_target: u32) -> BlockView {
    genesis_block_ext(compact_target, false)
}

/// the lock script whose code is script/testdata/exec_caller_from_witness (exec's witness 0)
pub fn witness_lock_script() -> packed::Script {
    let code = std::fs::read("/repo/script/testdata/exec_caller_from_witness").expect("testdata/exec_caller_from_witness");
    packed::Script::new_builder().code_hash(CellOutput::calc_data_hash(&code)).hash_type(ckb_types::core::ScriptHashType::Data1).build()
}

/// (code cell, cell locked by the witness lock) of a `witness_lock` genesis
pub fn witness_lock_cells(consensus: &Consensus) -> ((OutPoint, u64), (OutPoint, u64)) {
    let txs = consensus.genesis_block().transactions();
    let n = txs.len();
    let cap = |tx: &TransactionView| -> u64 { tx.outputs().get(0).unwrap().capacity().unpack() };
    ((OutPoint::new(txs[n - 2].hash(), 0), cap(&txs[n - 2])), (OutPoint::new(txs[n - 1].hash(), 0), cap(&txs[n - 1])))
}

pub fn genesis_block_ext(compact_target: u32, witness_lock: bool) -> BlockView {
    genesis_block_full(compact_target, witness_lock, false)
}

/// a lock nobody can unlock (no cell holds code with this hash)
pub fn unspendable_lock() -> packed::Script {
    packed::Script::new_builder().code_hash(packed::Byte32::new([0xEE; 32])).hash_type(ckb_types::core::ScriptHashType::Data).build()
}

pub fn genesis_block_full(compact_target: u32, witness_lock: bool, system_cells: bool) -> BlockView {
    genesis_block_all(compact_target, witness_lock, system_cells, false)
}

/// the type script of the genesis cell at `OUTPUT_INDEX_DAO` in a `dao_cell` world
pub fn dao_code_cell_type() -> packed::Script {
    always_success_lock().as_builder().args(Bytes::from(b"nervos-dao-stand-in".to_vec()).pack()).build()
}

/// the type script NervosDAO cells carry in a `dao_cell` world
pub fn dao_type_script(consensus: &Consensus) -> packed::Script {
    packed::Script::new_builder().code_hash(consensus.dao_type_hash()).hash_type(ckb_types::core::ScriptHashType::Type).build()
}

pub fn dao_dep(consensus: &Consensus) -> CellDep {
    let tx0 = consensus.genesis_block().transactions()[0].hash();
    CellDep::new_builder().out_point(OutPoint::new(tx0, 2)).build()
}

pub fn genesis_block_all(compact_target: u32, witness_lock: bool, system_cells: bool, dao_cell: bool) -> BlockView {
    let lock = always_success_lock();
    let mut txs: Vec<TransactionView> = if dao_cell {
        let (as_cell, as_data, _) = always_success_cell();
        let dead = unspendable_lock();
        let filler = Bytes::from(vec![0xF1u8; 16]);
        let cell = |data: &Bytes, type_: Option<packed::Script>| CellOutput::new_builder().lock(dead.clone()).type_(type_.pack()).build_exact_capacity(Capacity::bytes(data.len()).unwrap()).unwrap();
        vec![TransactionBuilder::default()
            .input(CellInput::new(OutPoint::null(), 0))
            .witness(always_success_lock().into_witness())
            .output(as_cell.clone())
            .output_data(as_data.clone())
            .output(cell(&filler, None))
            .output_data(filler)
            .output(cell(as_data, Some(dao_code_cell_type())))
            .output_data(as_data.clone())
            .build()]
    } else if system_cells {
        let (as_cell, as_data, _) = always_success_cell();
        let dead = unspendable_lock();
        let cell = |data: &Bytes| CellOutput::new_builder().lock(dead.clone()).build_exact_capacity(Capacity::bytes(data.len()).unwrap()).unwrap();
        let code2 = Bytes::from([as_data.as_ref(), &[0u8; 8][..]].concat());
        let d2 = Bytes::from(vec![0xD2u8; 40]);
        let d3 = Bytes::from(vec![0xD3u8; 64]);
        let tx0 = TransactionBuilder::default()
            .input(CellInput::new(OutPoint::null(), 0))
            .witness(always_success_lock().into_witness())
            .output(as_cell.clone())
            .output_data(as_data.clone())
            .output(cell(&code2))
            .output_data(code2)
            .output(cell(&d2))
            .output_data(d2)
            .output(cell(&d3))
            .output_data(d3)
            .build();
        let group = |idx: &[u32]| -> Bytes {
            let v: Vec<OutPoint> = idx.iter().map(|i| OutPoint::new(tx0.hash(), *i)).collect();
            let ov: packed::OutPointVec = v.pack();
            ov.as_bytes()
        };
        let g0 = group(&[1, 3]);
        let g1 = group(&[1, 2, 3]);
        let tx1 = TransactionBuilder::default()
            .input(CellInput::new(OutPoint::null(), 0))
            .output(cell(&g0))
            .output_data(g0)
            .output(cell(&g1))
            .output_data(g1)
            .build();
        vec![tx0, tx1]
    } else {
        vec![create_always_success_tx()]
    };
    for i in 0..GENESIS_CELLS as u64 {
        let data = Bytes::from(i.to_le_bytes().to_vec());
        txs.push(
            TransactionBuilder::default()
                .input(CellInput::new(OutPoint::null(), 0))
                .output(
                    CellOutput::new_builder()
                        .capacity(capacity_bytes!(50_000).safe_add(Capacity::shannons(i * 1_000_000)).unwrap())
                        .lock(lock.clone())
                        .build(),
                )
                .output_data(data)
                .build(),
        );
    }
    if witness_lock {
        let code = Bytes::from(std::fs::read("/repo/script/testdata/exec_caller_from_witness").expect("testdata/exec_caller_from_witness"));
        txs.push(
            TransactionBuilder::default()
                .input(CellInput::new(OutPoint::null(), 0))
                .output(CellOutput::new_builder().capacity(capacity_bytes!(5_000)).lock(lock.clone()).build())
                .output_data(code)
                .build(),
        );
        txs.push(
            TransactionBuilder::default()
                .input(CellInput::new(OutPoint::null(), 0))
                .output(CellOutput::new_builder().capacity(capacity_bytes!(50_000)).lock(witness_lock_script()).build())
                .output_data(Bytes::from(vec![0xEEu8]))
                .build(),
        );
    }
    let dao = genesis_dao_data(txs.iter().collect()).unwrap();
    BlockBuilder::default()
        .timestamp(BASE_TIME)
        .dao(dao)
        .compact_target(compact_target)
        .transactions(txs)
        .build()
}

pub fn consensus(opts: &WorldOpts) -> Consensus {
    let genesis = genesis_block_all(opts.genesis_compact_target, opts.witness_lock, opts.system_cells, opts.dao_cell);
    let epoch_ext = build_genesis_epoch_ext(
        Capacity::shannons(opts.primary_epoch_reward.unwrap_or(EPOCH_REWARD)),
        opts.genesis_compact_target,
        opts.genesis_epoch_length.unwrap_or(opts.epoch_length),
        opts.epoch_length * 8,
        (1, 40),
    );
    let mut b = ConsensusBuilder::new(genesis, epoch_ext)
        .id("verif".to_string())
        .initial_primary_epoch_reward(Capacity::shannons(opts.primary_epoch_reward.unwrap_or(EPOCH_REWARD)))
        .tx_proposal_window(ProposalWindow(opts.window.0, opts.window.1))
        .permanent_difficulty_in_dummy(opts.permanent_difficulty)
        .epoch_duration_target(opts.epoch_length * 8)
        .median_time_block_count(3)
        .cellbase_maturity(opts.cellbase_maturity)
        .hardfork_switch(if opts.ckb2023_epoch == 0 {
            HardForks::new_dev()
        } else {
            HardForks { ckb2021: ckb_types::core::hardfork::CKB2021::new_dev_default(), ckb2023: ckb_types::core::hardfork::CKB2023::new_with_specified(opts.ckb2023_epoch) }
        });
    if let Some(v) = opts.max_block_bytes {
        b = b.max_block_bytes(v);
    }
    if let Some(v) = opts.max_block_cycles {
        b = b.max_block_cycles(v);
    }
    if let Some(v) = opts.max_block_proposals_limit {
        b = b.max_block_proposals_limit(v);
    }
    b.build()
}

/// The spendable genesis cells (out-point, capacity in shannons).
pub fn genesis_cells(consensus: &Consensus) -> Vec<(OutPoint, u64)> {
    consensus
        .genesis_block()
        .transactions()
        .iter()
        .skip(1)
        .filter(|tx| tx.outputs().get(0).map(|o| o.lock().as_slice() == always_success_lock().as_slice()).unwrap_or(false))
        .map(|tx| {
            let cap: u64 = tx.outputs().get(0).unwrap().capacity().unpack();
            (OutPoint::new(tx.hash(), 0), cap)
        })
        .collect()
}

/// A plain always-success transaction: spends `inputs`, creates `n_out` equal outputs, pays
/// `fee` shannons.  `salt` goes into the first output's data so that otherwise identical
/// transactions get distinct hashes.
pub fn simple_tx(consensus: &Consensus, inputs: &[(OutPoint, u64)], n_out: usize, fee: u64, salt: u8) -> TransactionView {
    let total: u64 = inputs.iter().map(|i| i.1).sum();
    let lock = always_success_lock();
    let per = (total - fee) / n_out as u64;
    let mut b = TransactionBuilder::default().cell_dep(always_success_dep(consensus));
    for (op, _) in inputs {
        b = b.input(CellInput::new(op.clone(), 0));
    }
    for k in 0..n_out {
        let cap = if k == 0 { total - fee - per * (n_out as u64 - 1) } else { per };
        b = b
            .output(CellOutput::new_builder().capacity(Capacity::shannons(cap)).lock(lock.clone()).build())
            .output_data(if k == 0 { Bytes::from(vec![salt]) } else { Bytes::new() });
    }
    b.build()
}

pub fn out(tx: &TransactionView, index: usize) -> (OutPoint, u64) {
    let cap: u64 = tx.outputs().get(index).unwrap().capacity().unpack();
    (OutPoint::new(tx.hash(), index as u32), cap)
}
