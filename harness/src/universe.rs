//! Block universes: memoised block trees keyed by path, enumeration helpers.
use crate::forge::*;
use crate::world::*;
use ckb_chain_spec::consensus::Consensus;
use ckb_types::{core::BlockView, packed, prelude::*};
use std::collections::BTreeMap;
use std::path::Path;

/// A path key: sibling indexes from genesis, e.g. [0,1] = second child of the first child of genesis.
pub type Key = Vec<u8>;

#[derive(Clone, Copy, Debug, PartialEq, Eq, PartialOrd, Ord, Hash, serde::Serialize, serde::Deserialize)]
pub enum Invalid {
    /// contextual: header DAO field altered
    Dao,
    /// non-contextual: two cellbases
    TwoCellbases,
    /// contextual: commits a transaction that was never proposed
    Unproposed,
}

pub const INVALID_KINDS: [Invalid; 3] = [Invalid::Dao, Invalid::TwoCellbases, Invalid::Unproposed];

/// Parent vector enumeration: p[i] in 0..=i for i in 0..n (0 = genesis, j = block j, 1-based).
pub fn parent_vectors(n: usize) -> Vec<Vec<usize>> {
    let mut out = vec![vec![]];
    for i in 0..n {
        let mut next = vec![];
        for p in &out {
            for parent in 0..=i {
                let mut q = p.clone();
                q.push(parent);
                next.push(q);
            }
        }
        out = next;
    }
    out
}

pub fn permutations(n: usize) -> Vec<Vec<usize>> {
    fn rec(cur: &mut Vec<usize>, used: &mut Vec<bool>, n: usize, out: &mut Vec<Vec<usize>>) {
        if cur.len() == n {
            out.push(cur.clone());
            return;
        }
        for i in 0..n {
            if !used[i] {
                used[i] = true;
                cur.push(i);
                rec(cur, used, n, out);
                cur.pop();
                used[i] = false;
            }
        }
    }
    let mut out = vec![];
    rec(&mut vec![], &mut vec![false; n], n, &mut out);
    out
}

/// keys of blocks 1..=n for a parent vector
pub fn keys_of(pv: &[usize]) -> Vec<Key> {
    let mut keys: Vec<Key> = vec![vec![]]; // index 0 = genesis
    let mut nchild: Vec<u8> = vec![0];
    for &p in pv {
        let mut k = keys[p].clone();
        k.push(nchild[p]);
        nchild[p] += 1;
        keys.push(k);
        nchild.push(0);
    }
    keys[1..].to_vec()
}

/// Lazily built tree of empty-but-valid blocks (cellbase only) in world `consensus`.
pub struct TreeUniverse {
    pub consensus: Consensus,
    pub forge: Forge,
    pub valid: BTreeMap<Key, BlockView>,
    pub invalid: BTreeMap<(Key, Invalid), BlockView>,
    pub audited: u64,
}

impl TreeUniverse {
    pub fn new(dir: &Path, consensus: &Consensus) -> Result<Self, String> {
        Ok(TreeUniverse { consensus: consensus.clone(), forge: Forge::new(dir, consensus)?, valid: BTreeMap::new(), invalid: BTreeMap::new(), audited: 0 })
    }

    pub fn hash_of(&self, key: &Key) -> packed::Byte32 {
        if key.is_empty() { self.consensus.genesis_hash() } else { self.valid[key].hash() }
    }

    /// Build every key in `keys` (closed under prefixes) in DFS order so that the forge never
    /// has to re-attach a verified block; every block is then fully verified once by the forge.
    pub fn build_all(&mut self, keys: &std::collections::BTreeSet<Key>) -> Result<(), String> {
        self.build_children(&vec![], keys)
    }

    fn build_children(&mut self, node: &Key, keys: &std::collections::BTreeSet<Key>) -> Result<(), String> {
        let children: Vec<Key> = keys.iter().filter(|k| k.len() == node.len() + 1 && k.starts_with(node)).cloned().collect();
        if children.is_empty() {
            return Ok(());
        }
        let parent_hash = self.hash_of(node);
        for c in &children {
            if !self.valid.contains_key(c) {
                let sib = *c.last().unwrap();
                let b = self.forge.build_on(&parent_hash, &BlockSpec { ts_offset: sib as u64 + 1, miner: sib, ..Default::default() })?;
                self.valid.insert(c.clone(), b);
            }
        }
        for c in &children {
            // full verification of the block as a main-chain tip (ground truth of "valid")
            let h = self.valid[c].hash();
            self.forge.goto(&h)?;
            self.audited += 1;
            self.build_children(c, keys)?;
        }
        Ok(())
    }

    /// The invalid variant of the block at `key`; audited: the forge must refuse it as a tip.
    pub fn invalid_block(&mut self, key: &Key, kind: Invalid) -> Result<BlockView, String> {
        if let Some(b) = self.invalid.get(&(key.clone(), kind)) {
            return Ok(b.clone());
        }
        let good = self.valid[key].clone();
        let parent_hash = good.parent_hash();
        let bad = match kind {
            Invalid::Dao => {
                let mut dao = good.dao().raw_data().to_vec();
                dao[31] ^= 0x01;
                dao[0] ^= 0x01;
                good.as_advanced_builder().dao(packed::Byte32::from_slice(&dao).unwrap()).build()
            }
            Invalid::TwoCellbases => {
                let cb = good.transactions()[0].clone();
                good.as_advanced_builder().transaction(cb).build()
            }
            Invalid::Unproposed => {
                let cells = genesis_cells(&self.consensus);
                let tx = simple_tx(&self.consensus, &cells[GENESIS_CELLS - 1..], 1, 1_000, key.len() as u8);
                let sib = *key.last().unwrap();
                self.forge.build_on(&parent_hash, &BlockSpec { txs: vec![tx], ts_offset: sib as u64 + 1, miner: sib, ..Default::default() })?
            }
        };
        self.forge.goto(&parent_hash)?;
        match self.forge.node().process(&bad) {
            Err(_) => {}
            Ok(v) => return Err(format!("audit: forge accepted the {kind:?}-invalid variant of {key:?} with Ok({v})")),
        }
        if self.forge.node().tip().hash() != parent_hash {
            return Err("audit: forge tip moved on an invalid block".into());
        }
        self.audited += 1;
        self.invalid.insert((key.clone(), kind), bad.clone());
        Ok(bad)
    }
}

/// Re-parent `child` onto `new_parent` (used for descendants of an invalid block).
pub fn reparent(child: &BlockView, new_parent: &packed::Byte32) -> BlockView {
    child.as_advanced_builder().parent_hash(new_parent.clone()).build()
}
