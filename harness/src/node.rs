//! Engine `node`: the real ckb node (production wiring and threads) as the transition system.
use ckb_app_config::{BlockAssemblerConfig, DBConfig, NetworkConfig, StoreConfig, TxPoolConfig};
use ckb_chain::{ChainController, ChainServiceScope, LonelyBlock, VerifyResult};
use ckb_chain_spec::consensus::Consensus;
use ckb_jsonrpc_types::{BlockTemplate, ScriptHashType};
use ckb_network::{Flags, NetworkController, NetworkService, NetworkState, network::TransportType};
use ckb_shared::{Shared, SharedBuilder};
use ckb_store::ChainStore;
use ckb_types::{
    core::{BlockView, HeaderView, TransactionView},
    h256, packed,
    prelude::*,
};
use std::path::{Path, PathBuf};
use std::sync::{Arc, Mutex, OnceLock};
use std::time::{Duration, Instant};

static RUNTIME: OnceLock<ckb_async_runtime::Handle> = OnceLock::new();

pub fn runtime() -> ckb_async_runtime::Handle {
    RUNTIME.get_or_init(ckb_async_runtime::new_background_runtime).clone()
}

#[derive(Clone)]
pub struct NodeOpts {
    pub consensus: Consensus,
    /// start the tx-pool service (needed for templates / pool properties). A node with a started
    /// pool keeps its database open until the process exits.
    pub pool: bool,
    pub assembler: bool,
    pub ancient: Option<PathBuf>,
    pub store_config: Option<StoreConfig>,
    pub tx_pool_config: Option<TxPoolConfig>,
    /// configure an assume-valid target the chain never reaches: the node stays in the mode in
    /// which it skips script execution for the blocks it receives (initial download of mainnet /
    /// testnet nodes); every other rule still applies
    pub assume_valid: bool,
}

impl NodeOpts {
    pub fn new(consensus: Consensus) -> Self {
        NodeOpts { consensus, pool: false, assembler: false, ancient: None, store_config: None, tx_pool_config: None, assume_valid: false }
    }
    pub fn with_pool(mut self) -> Self {
        self.pool = true;
        self.assembler = true;
        self
    }
}

pub struct Node {
    pub shared: Shared,
    scope: Option<ChainServiceScope>,
    pub dir: PathBuf,
    pub deliveries: Arc<Mutex<Vec<Delivery>>>,
    _net_dir: Option<tempfile::TempDir>,
    /// receiver end of the pool's relay channel (needed to build a SyncShared / Relayer)
    pub relay_rx: Mutex<Option<ckb_channel::Receiver<ckb_tx_pool::service::TxVerificationResult>>>,
    /// A pool node runs its services (tx-pool, block assembler, notifier, dummy network) on a
    /// runtime of its own: ckb stops those tasks only by the process-wide exit signal, so dropping
    /// the runtime is the only way to end them - and to release the database and memory they hold -
    /// while the process goes on with other nodes.
    rt: Option<tokio::runtime::Runtime>,
    has_pool: bool,
}

#[derive(Clone, Debug)]
pub struct Delivery {
    pub hash: packed::Byte32,
    pub result: Option<Result<bool, String>>,
    pub superseded: bool,
}

pub fn assembler_config() -> BlockAssemblerConfig {
    BlockAssemblerConfig {
        code_hash: h256!("0x0"),
        args: Default::default(),
        hash_type: ScriptHashType::Data,
        message: Default::default(),
        use_binary_version_as_message_prefix: false,
        binary_version: "TEST".to_string(),
        update_interval_millis: 0,
        notify: vec![],
        notify_scripts: vec![],
        notify_timeout_millis: 800,
    }
}

fn dummy_network(shared: &Shared, dir: &Path) -> NetworkController {
    let config = NetworkConfig {
        max_peers: 19,
        max_outbound_peers: 5,
        path: dir.to_path_buf(),
        ping_interval_secs: 15,
        ping_timeout_secs: 20,
        connect_outbound_interval_secs: 1,
        discovery_local_address: true,
        bootnode_mode: true,
        reuse_port_on_linux: true,
        ..Default::default()
    };
    let network_state = Arc::new(NetworkState::from_config(config).expect("Init network state failed"));
    NetworkService::new(
        network_state,
        vec![],
        vec![],
        (shared.consensus().identify_name(), "test".to_string(), Flags::COMPATIBILITY),
        TransportType::Tcp,
    )
    .start(shared.async_handle())
    .expect("Start network service failed")
}

impl Node {
    /// Boots (or re-opens) a node on `dir`.
    pub fn boot(dir: &Path, opts: &NodeOpts) -> Result<Node, String> {
        std::fs::create_dir_all(dir).map_err(|e| e.to_string())?;
        // production's RocksDB options file plus allow_fallocate=false: the scratch lives on tmpfs,
        // where the default 70 MB write-ahead-log preallocation of every open database is real memory
        let opt_file = dir.join("db-options");
        if !opt_file.exists() {
            let base = std::fs::read_to_string("/repo/resource/default.db-options").map_err(|e| format!("resource/default.db-options: {e}"))?;
            let text = base.replacen("[DBOptions]\n", "[DBOptions]\nallow_fallocate=false\n", 1);
            if !text.contains("allow_fallocate=false") {
                return Err("resource/default.db-options has no [DBOptions] section".into());
            }
            std::fs::write(&opt_file, text).map_err(|e| e.to_string())?;
        }
        let db_config = DBConfig { path: dir.join("db"), options_file: Some(opt_file), cache_size: Some(8 << 20), ..Default::default() };
        if let Some(a) = &opts.ancient {
            std::fs::create_dir_all(a).map_err(|e| e.to_string())?;
        }
        // every node gets a runtime of its own (see the field's comment): also a chain-only node spawns
        // a task that only ends with the process - the header map's timer, which keeps the header
        // map's sled database (a file, a flusher thread and about 7 MB) alive
        let rt = Some(tokio::runtime::Builder::new_multi_thread().worker_threads(if opts.pool { 2 } else { 1 }).thread_name("ckbmc-node").enable_all().build().map_err(|e| format!("node runtime: {e}"))?);
        let handle = match &rt {
            Some(rt) => ckb_async_runtime::Handle::new(rt.handle().clone(), None),
            None => runtime(),
        };
        let builder = SharedBuilder::new("ckbmc", dir, &db_config, opts.ancient.clone(), handle, opts.consensus.clone())
            .map_err(|e| format!("SharedBuilder::new failed: {e:?}"))?;
        let mut builder = builder.header_map_tmp_dir(Some(dir.join("header_map")));
        std::fs::create_dir_all(dir.join("header_map")).ok();
        if let Some(sc) = &opts.store_config {
            builder = builder.store_config(sc.clone());
        }
        if let Some(tc) = &opts.tx_pool_config {
            builder = builder.tx_pool_config(tc.clone());
        }
        if opts.assembler {
            builder = builder.block_assembler_config(Some(assembler_config()));
        }
        if opts.assume_valid {
            let mut sc = ckb_app_config::SyncConfig::default();
            sc.assume_valid_targets = Some(vec![ckb_types::h256!("0x00000000000000000000000000000000000000000000000000000000deadbeef")]);
            builder = builder.sync_config(sc);
        }
        let (shared, mut pack) = builder.build().map_err(|e| format!("SharedBuilder::build failed: {e:?}"))?;
        let mut net_dir = None;
        if opts.pool {
            let nd = tempfile::Builder::new().prefix("net").tempdir_in(dir).map_err(|e| e.to_string())?;
            let network = dummy_network(&shared, nd.path());
            pack.take_tx_pool_builder().start(network);
            net_dir = Some(nd);
        } else {
            drop(pack.take_tx_pool_builder());
        }
        let scope = ChainServiceScope::new(pack.take_chain_services_builder());
        let relay_rx = Mutex::new(Some(pack.take_relay_tx_receiver()));
        drop(pack);
        Ok(Node { shared, scope: Some(scope), dir: dir.to_path_buf(), deliveries: Arc::new(Mutex::new(vec![])), _net_dir: net_dir, relay_rx, rt, has_pool: opts.pool })
    }

    pub fn chain(&self) -> &ChainController {
        self.scope.as_ref().unwrap().chain_controller()
    }

    pub fn tip(&self) -> HeaderView {
        self.shared.snapshot().tip_header().clone()
    }

    /// Wait until InitLoadUnverified has finished.
    pub fn wait_startup(&self) -> Result<(), String> {
        let t = Instant::now();
        while self.chain().is_verifying_unverified_blocks_on_startup() {
            if t.elapsed() > Duration::from_secs(30) {
                return Err("InitLoadUnverified did not finish in 30s".into());
            }
            std::thread::sleep(Duration::from_micros(200));
        }
        Ok(())
    }

    /// In-order delivery, returns after the verdict.
    pub fn process(&self, block: &BlockView) -> VerifyResult {
        self.chain().blocking_process_block(Arc::new(block.clone()))
    }

    /// Delivery in any order (production path of sync/relay): returns at once; verdict recorded
    /// in `deliveries`.
    pub fn deliver(&self, block: &BlockView) -> usize {
        let hash = block.hash();
        // the service thread must be idle for the orphan-pool lookup below to be accurate
        // (the verify pipeline may still be busy: that race is intended)
        let _ = self.service_barrier();
        let idx = {
            let mut d = self.deliveries.lock().unwrap();
            // a re-delivery of a block currently held as an orphan replaces the held entry: the
            // earlier delivery's callback will never fire
            if self.chain().get_orphan_block(self.shared.store(), &hash).is_some() {
                for e in d.iter_mut() {
                    if e.hash == hash && e.result.is_none() {
                        e.superseded = true;
                    }
                }
            }
            d.push(Delivery { hash: hash.clone(), result: None, superseded: false });
            d.len() - 1
        };
        let dl = Arc::clone(&self.deliveries);
        let cb = Box::new(move |r: VerifyResult| {
            dl.lock().unwrap()[idx].result = Some(r.map_err(|e| e.to_string()));
        });
        self.chain().asynchronous_process_lonely_block(LonelyBlock { block: Arc::new(block.clone()), switch: None, verify_callback: Some(cb) });
        idx
    }

    /// Delivery without any barrier (engine `sched`: the service thread is parked by the gate
    /// scheduler, a barrier through it would never return).  Verdict recorded in `deliveries`.
    pub fn deliver_nowait(&self, block: &BlockView) -> usize {
        let hash = block.hash();
        let idx = {
            let mut d = self.deliveries.lock().unwrap();
            d.push(Delivery { hash: hash.clone(), result: None, superseded: false });
            d.len() - 1
        };
        let dl = Arc::clone(&self.deliveries);
        let cb = Box::new(move |r: VerifyResult| {
            dl.lock().unwrap()[idx].result = Some(r.map_err(|e| e.to_string()));
        });
        self.chain().asynchronous_process_lonely_block(LonelyBlock { block: Arc::new(block.clone()), switch: None, verify_callback: Some(cb) });
        idx
    }

    /// Explicit quiescence (never a sleep deciding a verdict): the genesis sentinel proves the
    /// service thread has handled everything sent before; then every delivery must have its
    /// verdict or be held in the orphan pool.
    pub fn service_barrier(&self) -> Result<(), String> {
        let genesis = self.shared.consensus().genesis_block().clone();
        match self.chain().blocking_process_block(Arc::new(genesis)) {
            Ok(false) => Ok(()),
            other => Err(format!("genesis sentinel answered {other:?}")),
        }
    }

    /// A sentinel through the whole service -> preload -> verify pipeline: re-delivery of an
    /// already verified main-chain block is answered `Ok(false)` by the verify thread after it
    /// has finished (commit, snapshot publication, notifications) every block queued before it.
    pub fn verify_barrier(&self) -> Result<(), String> {
        use ckb_store::ChainStore;
        let store = self.shared.store();
        let tipn = store.get_tip_header().map(|t| t.number()).unwrap_or(0);
        if tipn == 0 {
            return Ok(());
        }
        let b1 = store.get_block_hash(1).and_then(|h| store.get_block(&h)).ok_or("block 1 of the main chain not readable")?;
        match self.chain().blocking_process_block(Arc::new(b1)) {
            Ok(false) => Ok(()),
            other => Err(format!("verified-block sentinel answered {:?}", other.map_err(|e| e.to_string()))),
        }
    }

    pub fn quiesce(&self) -> Result<(), String> {
        self.quiesce_inner()?;
        self.verify_barrier()
    }

    fn quiesce_inner(&self) -> Result<(), String> {
        self.service_barrier()?;
        let t = Instant::now();
        loop {
            let pending: Vec<packed::Byte32> = {
                let d = self.deliveries.lock().unwrap();
                d.iter().filter(|e| e.result.is_none() && !e.superseded).map(|e| e.hash.clone()).collect()
            };
            let mut all = true;
            for h in pending {
                if self.chain().get_orphan_block(self.shared.store(), &h).is_none() {
                    // re-check: the callback may have fired between the two reads
                    let d = self.deliveries.lock().unwrap();
                    if d.iter().any(|e| e.hash == h && e.result.is_none() && !e.superseded) {
                        all = false;
                        break;
                    }
                }
            }
            if all {
                return Ok(());
            }
            if t.elapsed() > Duration::from_secs(20) {
                return Err("no quiescence after 20s: a delivered block has neither a verdict nor a place in the orphan pool".into());
            }
            std::thread::sleep(Duration::from_micros(100));
        }
    }

    pub fn template(&self) -> Result<BlockTemplate, String> {
        let tip = self.tip().hash();
        let t = Instant::now();
        loop {
            let tpl = self
                .shared
                .get_block_template(None, None, None)
                .map_err(|e| e.to_string())?
                .map_err(|e| e.to_string())?;
            let parent: packed::Byte32 = tpl.parent_hash.clone().into();
            if parent == tip {
                return Ok(tpl);
            }
            if t.elapsed() > Duration::from_secs(20) {
                return Err("template never caught up with the tip".into());
            }
            std::thread::sleep(Duration::from_micros(200));
        }
    }

    /// wait until the pool has processed the latest tip change
    pub fn wait_pool_synced(&self) -> Result<(), String> {
        let t = Instant::now();
        loop {
            let info = self.shared.tx_pool_controller().get_tx_pool_info().map_err(|e| e.to_string())?;
            // ... and the reorg task and the block assembler task have finished what was handed to them
            if info.tip_hash == self.tip().hash() && ckb_tx_pool::verif::background_idle() {
                return Ok(());
            }
            if t.elapsed() > Duration::from_secs(20) {
                return Err("pool never caught up with the tip".into());
            }
            std::thread::sleep(Duration::from_micros(200));
        }
    }

    pub fn submit_tx(&self, tx: &TransactionView) -> Result<(), String> {
        self.shared
            .tx_pool_controller()
            .submit_local_tx(tx.clone())
            .map_err(|e| e.to_string())?
            .map_err(|e| e.to_string())
    }

    pub fn main_chain(&self) -> Vec<BlockView> {
        let snap = self.shared.snapshot();
        let tip = snap.tip_number();
        (0..=tip).map(|n| snap.get_block(&snap.get_block_hash(n).expect("main hash")).expect("main block")).collect()
    }

    /// Stop chain threads and release every handle this struct owns.
    pub fn shutdown(mut self) {
        self.stop();
    }

    /// shutdown and delete the node's directory (nodes that are never re-opened)
    pub fn destroy(mut self) {
        self.stop();
        let dir = self.dir.clone();
        drop(self);
        let _ = std::fs::remove_dir_all(dir);
    }

    fn stop(&mut self) {
        let scope = self.scope.take();
        drop(scope);
        if let Some(rt) = self.rt.take() {
            // the hook's sent/done counters are process-wide: work handed to this node's background
            // tasks must be finished before they are killed, or no pool would ever look idle again
            if self.has_pool {
                let t = Instant::now();
                while !ckb_tx_pool::verif::background_idle() && t.elapsed() < Duration::from_secs(10) {
                    std::thread::sleep(Duration::from_micros(200));
                }
            }
            rt.shutdown_timeout(Duration::from_secs(5));
        }
    }
}

impl Drop for Node {
    fn drop(&mut self) {
        self.stop();
    }
}

pub fn block_from_template(tpl: BlockTemplate, timestamp: Option<u64>) -> BlockView {
    let block: packed::Block = tpl.into();
    let view = block.into_view();
    match timestamp {
        Some(ts) => view.as_advanced_builder().timestamp(ts).build(),
        None => view,
    }
}
