//! C02 — stored chain state and every snapshot equal a replay of the main chain.
//!
//! Enumerated: two-branch block universes over a small transaction universe (in-block chains,
//! the same tx committed on both branches at different heights, a cell created on both branches
//! and spent by conflicting txs, uncles, forks straddling the epoch boundary), every
//! topological interleaving of the two branches, with a truncation inserted at every position
//! (designed universes).  After every step the store and the published snapshot are dumped and
//! compared byte-for-byte with `RefChain`; at the end the dump is compared with a fresh node
//! that only ever saw the final main chain.
use crate::chainstate::*;
use crate::core::*;
use crate::forge::*;
use crate::node::*;
use crate::world::*;
use ckb_chain_spec::consensus::Consensus;
use ckb_store::ChainStore;
use ckb_types::{
    core::{BlockView, TransactionView},
    packed,
    prelude::*,
};
use serde::{Deserialize, Serialize};
use serde_json::{Value, json};
use std::collections::{BTreeMap, HashMap};

pub const TX_NAMES: [&str; 6] = ["T1", "T2", "T2x", "Ta", "Tb", "T3"];

pub struct TxUniverse {
    pub txs: BTreeMap<&'static str, TransactionView>,
}

impl TxUniverse {
    pub fn new(cons: &Consensus) -> Self {
        let g = genesis_cells(cons);
        let t1 = simple_tx(cons, &g[0..1], 2, 1_000_000, 1);
        let t2 = simple_tx(cons, &[out(&t1, 0)], 1, 2_000_000, 2);
        let t2x = simple_tx(cons, &[out(&t1, 0), g[1].clone()], 2, 3_000_000, 3);
        let ta = simple_tx(cons, &g[2..3], 1, 4_000_000, 4);
        let tb = simple_tx(cons, &g[2..4], 1, 5_000_000, 5);
        // spends T1's second output: a block committing T2 and T3 spends two outputs of one transaction
        let t3 = simple_tx(cons, &[out(&t1, 1)], 1, 6_000_000, 6);
        let mut txs = BTreeMap::new();
        txs.insert("T1", t1);
        txs.insert("T2", t2);
        txs.insert("T2x", t2x);
        txs.insert("Ta", ta);
        txs.insert("Tb", tb);
        txs.insert("T3", t3);
        TxUniverse { txs }
    }
    fn parent(name: &str) -> Option<&'static str> {
        match name {
            "T2" | "T2x" | "T3" => Some("T1"),
            _ => None,
        }
    }
    fn conflicts(a: &str, b: &str) -> bool {
        matches!((a, b), ("T2", "T2x") | ("T2x", "T2") | ("Ta", "Tb") | ("Tb", "Ta"))
    }
}

/// commits[i] = names committed in the i-th block of the branch (in order)
#[derive(Clone, Debug, Serialize, Deserialize, PartialEq, Eq, Hash)]
pub struct BranchSpec {
    pub commits: Vec<Vec<String>>,
    /// include the first block of the other branch as an uncle in block index `uncle_at`
    pub uncle_at: Option<usize>,
}

#[derive(Clone, Debug, Serialize, Deserialize, PartialEq, Eq, Hash)]
pub struct UniverseSpec {
    /// number of common blocks after genesis; all txs are proposed in block `prefix - 1`
    pub prefix: usize,
    pub a: BranchSpec,
    pub b: BranchSpec,
}

#[derive(Clone, Debug, Serialize, Deserialize, PartialEq, Eq, Hash)]
pub enum Step {
    A(usize),
    B(usize),
    /// truncate the main chain by k blocks
    Truncate(usize),
}

pub struct Built {
    pub prefix: Vec<BlockView>,
    pub a: Vec<BlockView>,
    pub b: Vec<BlockView>,
    pub by_hash: HashMap<packed::Byte32, BlockView>,
}

/// all placements of `names` into `slots` blocks respecting parent-before-child and conflicts
fn placements(names: &[&'static str], slots: usize) -> Vec<Vec<Vec<String>>> {
    fn rec(i: usize, names: &[&'static str], slots: usize, cur: &mut Vec<Option<usize>>, out: &mut Vec<Vec<Vec<String>>>) {
        if i == names.len() {
            let mut blocks = vec![vec![]; slots];
            for (k, s) in cur.iter().enumerate() {
                if let Some(s) = s {
                    blocks[*s].push(names[k].to_string());
                }
            }
            out.push(blocks);
            return;
        }
        // not committed
        cur.push(None);
        rec(i + 1, names, slots, cur, out);
        cur.pop();
        for s in 0..slots {
            let name = names[i];
            let mut ok = true;
            if let Some(p) = TxUniverse::parent(name) {
                match names.iter().position(|n| *n == p) {
                    Some(pi) if pi < i => match cur[pi] {
                        Some(ps) if ps <= s => {}
                        _ => ok = false,
                    },
                    _ => ok = false,
                }
            }
            for (k, other) in cur.iter().enumerate() {
                if other.is_some() && TxUniverse::conflicts(names[k], name) {
                    ok = false;
                }
            }
            if ok {
                cur.push(Some(s));
                rec(i + 1, names, slots, cur, out);
                cur.pop();
            }
        }
    }
    let mut out = vec![];
    rec(0, names, slots, &mut vec![], &mut out);
    out
}

pub fn build_universe(forge: &mut Forge, cons: &Consensus, txu: &TxUniverse, spec: &UniverseSpec) -> Result<Built, String> {
    let mut by_hash = HashMap::new();
    let mut prefix = vec![];
    let mut parent = cons.genesis_hash();
    for i in 1..=spec.prefix {
        let mut bs = BlockSpec { ts_offset: 0, miner: 1, ..Default::default() };
        if i == spec.prefix - 1 {
            bs.proposals = txu.txs.values().map(|t| t.proposal_short_id()).collect();
        }
        let b = forge.build_on(&parent, &bs)?;
        parent = b.hash();
        by_hash.insert(b.hash(), b.clone());
        prefix.push(b);
    }
    let fork_parent = parent.clone();
    let mut build_branch = |forge: &mut Forge, bspec: &BranchSpec, miner: u8, other_first: Option<&BlockView>| -> Result<Vec<BlockView>, String> {
        let mut out = vec![];
        let mut parent = fork_parent.clone();
        for (i, names) in bspec.commits.iter().enumerate() {
            let mut bs = BlockSpec { ts_offset: miner as u64, miner, ..Default::default() };
            bs.txs = names.iter().map(|n| txu.txs[n.as_str()].clone()).collect();
            if bspec.uncle_at == Some(i) {
                if let Some(u) = other_first {
                    bs.uncles = vec![u.as_uncle()];
                }
            }
            let b = forge.build_on(&parent, &bs)?;
            parent = b.hash();
            out.push(b);
        }
        Ok(out)
    };
    let a = build_branch(forge, &spec.a, 2, None)?;
    let b = build_branch(forge, &spec.b, 3, a.first())?;
    // make the forge verify the last block of each branch too (ground truth: all valid)
    if let Some(l) = a.last() {
        forge.goto(&l.hash())?;
    }
    if let Some(l) = b.last() {
        forge.goto(&l.hash())?;
    }
    for x in a.iter().chain(b.iter()) {
        by_hash.insert(x.hash(), x.clone());
    }
    Ok(Built { prefix, a, b, by_hash })
}

fn interleavings(na: usize, nb: usize) -> Vec<Vec<Step>> {
    fn rec(i: usize, j: usize, na: usize, nb: usize, cur: &mut Vec<Step>, out: &mut Vec<Vec<Step>>) {
        if i == na && j == nb {
            out.push(cur.clone());
            return;
        }
        if i < na {
            cur.push(Step::A(i));
            rec(i + 1, j, na, nb, cur, out);
            cur.pop();
        }
        if j < nb {
            cur.push(Step::B(j));
            rec(i, j + 1, na, nb, cur, out);
            cur.pop();
        }
    }
    let mut out = vec![];
    rec(0, 0, na, nb, &mut vec![], &mut out);
    out
}

fn designed() -> Vec<(UniverseSpec, bool)> {
    let s = |v: &[&[&str]]| -> Vec<Vec<String>> { v.iter().map(|b| b.iter().map(|x| x.to_string()).collect()).collect() };
    vec![
        // in-block chain on A, conflicting spend of T1's output on B, fork straddles epoch boundary (prefix 2: heights 3..6)
        (UniverseSpec { prefix: 2, a: BranchSpec { commits: s(&[&["T1", "T2"], &["Ta"], &[], &[]]), uncle_at: None }, b: BranchSpec { commits: s(&[&["T1"], &["T2x"], &["Tb"]]), uncle_at: None } }, true),
        // same txs re-committed across the fork at different heights, uncle on B (same epoch: prefix 4 -> heights 5..7)
        (UniverseSpec { prefix: 4, a: BranchSpec { commits: s(&[&["T1"], &["T2", "T3", "Ta"], &[], &[]]), uncle_at: None }, b: BranchSpec { commits: s(&[&[], &["T1", "T2", "Ta"], &["T3"]]), uncle_at: Some(1) } }, true),
        // nothing on A, everything on B; then A overtakes again with empty blocks
        (UniverseSpec { prefix: 2, a: BranchSpec { commits: s(&[&[], &[], &[], &[]]), uncle_at: None }, b: BranchSpec { commits: s(&[&["T1", "T2x", "Tb"], &[], &[]]), uncle_at: None } }, false),
        // a block of B commits a transaction the node has never verified next to one it has already
        // verified on A (per-transaction records of one block come partly from the verification cache):
        // the fresh one first ...
        (UniverseSpec { prefix: 2, a: BranchSpec { commits: s(&[&["Ta"], &[], &[], &[]]), uncle_at: None }, b: BranchSpec { commits: s(&[&["T1", "Ta"], &["T2"], &[]]), uncle_at: None } }, false),
        // ... and the known one first, the fresh ones after it
        (UniverseSpec { prefix: 2, a: BranchSpec { commits: s(&[&["T1"], &[], &[], &[]]), uncle_at: None }, b: BranchSpec { commits: s(&[&["T1", "T2x", "Ta"], &[], &[]]), uncle_at: None } }, false),
    ]
}

pub fn meta(tier: Tier) -> Meta {
    Meta {
        id: "C02",
        level: "model_checking",
        rule: "case = (two-branch block universe over txs {T1, T2=spend(T1.0), T2x=conflicting spend(T1.0), Ta, Tb=conflict(Ta)}, delivery history = topological interleaving of the branches, optionally one truncation inserted at a position); after every step the full dump of the canonical columns taken from the store AND from the published snapshot is compared byte-for-byte with RefChain(main chain) and at the end with a fresh node fed only the final main chain. state = (universe, set of delivered blocks, tip); non-trivial iff the history contained a reorg that detached at least one transaction-bearing block (measured).",
        assumptions: &[
            "flat world (permanent difficulty), always-success scripts",
            "BlockExt.received_at is wall-clock and masked; cycles are compared differentially with the main-chain-only node",
            "rows of side-chain blocks and MMR positions beyond the tip are not part of the statement and ignored",
            "snapshots are judged at quiescent points and, through a gate, at the instant between the database commit of every block and the publication of the new snapshot (the published snapshot must still describe its own tip exactly); other reader instants are not enumerated",
        ],
        bounds: json!({
            "designed_universes": designed().len(),
            "generated_branch_blocks": if tier.is_thorough() { json!({"a": 2, "b": 3}) } else { json!({"a": 1, "b": 2}) },
            "tx_universe": TX_NAMES,
            "truncation": "one Truncate(k), k in 1..=2, at every position of every history of the designed universes",
        }),
    }
}

#[derive(Clone, Debug, Serialize, Deserialize)]
pub struct Case {
    pub universe: UniverseSpec,
    pub history: Vec<Step>,
}

fn all_cases(tier: Tier) -> Vec<Case> {
    let mut out = vec![];
    for (u, with_trunc) in designed() {
        let base = interleavings(u.a.commits.len(), u.b.commits.len());
        for h in &base {
            out.push(Case { universe: u.clone(), history: h.clone() });
            if with_trunc {
                for pos in 1..=h.len() {
                    for k in 1..=2usize {
                        let mut hh = h.clone();
                        hh.insert(pos, Step::Truncate(k));
                        out.push(Case { universe: u.clone(), history: hh });
                    }
                }
            }
        }
    }
    // generated family
    let (na, nb) = if tier.is_thorough() { (2, 3) } else { (1, 2) };
    let names: Vec<&'static str> = if tier.is_thorough() { vec!["T1", "T2", "T2x", "Ta", "Tb"] } else { vec!["T1", "T2", "T2x"] };
    let pa = placements(&names, na);
    let pb = placements(&names, nb);
    for prefix in [2usize, 4] {
        if !tier.is_thorough() && prefix == 4 {
            continue;
        }
        for a in &pa {
            for b in &pb {
                // skip the pair where neither branch commits anything (covered by designed #3)
                if a.iter().all(|x| x.is_empty()) && b.iter().all(|x| x.is_empty()) {
                    continue;
                }
                let u = UniverseSpec { prefix, a: BranchSpec { commits: a.clone(), uncle_at: None }, b: BranchSpec { commits: b.clone(), uncle_at: None } };
                for h in interleavings(na, nb) {
                    out.push(Case { universe: u.clone(), history: h });
                }
            }
        }
    }
    out
}

fn main_chain_of(cons: &Consensus, built: &Built, tip: &packed::Byte32) -> Result<Vec<BlockView>, String> {
    let mut chain = vec![];
    let mut cur = tip.clone();
    while cur != cons.genesis_hash() {
        let b = built.by_hash.get(&cur).or_else(|| built.prefix.iter().find(|p| p.hash() == cur)).ok_or_else(|| format!("tip ancestry leaves the universe at {cur}"))?;
        chain.push(b.clone());
        cur = b.parent_hash();
    }
    chain.push(cons.genesis_block().clone());
    chain.reverse();
    Ok(chain)
}

fn check_state(node: &Node, cons: &Consensus, built: &Built, report: &mut Report, case: &Case, step: usize, what: &str) -> Result<RefChain, String> {
    let tip = node.shared.store().get_tip_header().ok_or("no tip header")?.hash();
    let chain = main_chain_of(cons, built, &tip)?;
    let r = RefChain::replay(cons, &chain)?;
    let store = node.shared.store();
    let d = dump(store);
    for (sub, msg) in compare(store, &d, &r) {
        report.violation(format!("store/{sub}"), format!("{msg} [{what}, step {step}]"), json!({"case": case, "step": step, "view": "store"}));
    }
    let snap = node.shared.snapshot();
    let ds = dump(snap.as_ref());
    for (sub, msg) in compare(snap.as_ref(), &ds, &r) {
        report.violation(format!("snapshot/{sub}"), format!("{msg} [{what}, step {step}]"), json!({"case": case, "step": step, "view": "snapshot"}));
    }
    if snap.tip_hash().as_slice() != r.meta_tip.as_slice() || snap.total_difficulty() != &r.tip_total_difficulty {
        report.violation("snapshot/tip-fields", format!("snapshot tip/total difficulty fields disagree with the main chain [{what}, step {step}]"), json!({"case": case, "step": step}));
    }
    let packed_epoch: packed::EpochExt = snap.epoch_ext().into();
    if packed_epoch.as_slice() != r.meta_epoch.as_slice() {
        report.violation("snapshot/epoch-field", format!("snapshot epoch_ext field differs from the epoch of the tip [{what}, step {step}]"), json!({"case": case, "step": step}));
    }
    match snap.chain_root_mmr(snap.tip_number()).get_root() {
        Ok(root) if root.as_slice() == r.mmr_root.as_slice() => {}
        other => report.violation("snapshot/mmr-root", format!("chain_root_mmr(tip).get_root() = {:?} differs from the reference root [{what}, step {step}]", other.map(|r| hex(r.as_slice())).map_err(|e| e.to_string())), json!({"case": case, "step": step})),
    }
    Ok(r)
}

/// The currently published snapshot, judged on its own: the chain it announces (its tip field,
/// walked back through parent hashes) is replayed from genesis and compared byte for byte with
/// everything the snapshot's store view answers.
pub fn judge_published_snapshot(shared: &ckb_shared::Shared, cons: &Consensus) -> Vec<(String, String)> {
    use ckb_store::ChainStore;
    let mut out = vec![];
    let snap = shared.snapshot();
    let tipn = snap.tip_number();
    // the announced chain: from the tip FIELD backwards (not through the number index, which is
    // part of what is judged)
    let mut chain: Vec<BlockView> = vec![];
    let mut cur = snap.tip_hash();
    loop {
        match snap.get_block(&cur) {
            Some(b) => {
                let parent = b.parent_hash();
                let n = b.number();
                chain.push(b);
                if n == 0 {
                    break;
                }
                cur = parent;
            }
            None => {
                out.push(("main-chain-unreadable".into(), format!("the published snapshot (tip {tipn}) cannot read block {cur} of the chain it announces")));
                return out;
            }
        }
    }
    chain.reverse();
    match RefChain::replay(cons, &chain) {
        Err(e) => out.push(("reference".into(), e)),
        Ok(r) => {
            let ds = dump(snap.as_ref());
            out.extend(compare(snap.as_ref(), &ds, &r));
            if snap.tip_hash().as_slice() != r.meta_tip.as_slice() || snap.total_difficulty() != &r.tip_total_difficulty {
                out.push(("tip-fields".into(), "tip / total difficulty fields disagree with the snapshot's own chain".into()));
            }
        }
    }
    out
}

fn run_case(ctx: &Ctx, cons: &Consensus, built: &Built, case: &Case, twins: &mut HashMap<packed::Byte32, Dump>, idx: u64) -> Result<Report, String> {
    let mut report = Report::new();
    let dir = ctx.scratch.join("run");
    let _ = std::fs::remove_dir_all(&dir);
    let node = Node::boot(&dir, &NodeOpts::new(cons.clone()))?;
    node.wait_startup()?;
    for b in &built.prefix {
        node.process(b).map_err(|e| format!("prefix block refused: {e}"))?;
    }
    // "inside every published snapshot even while blocks are being processed": at the gate between
    // the database commit of a block and the publication of the new snapshot, a reader takes the
    // published snapshot and it is judged like a quiescent one (against the replay of ITS tip's chain)
    let inflight: std::sync::Arc<std::sync::Mutex<Vec<(String, String)>>> = Default::default();
    let inflight_count = std::sync::Arc::new(std::sync::atomic::AtomicU64::new(0));
    {
        let shared = node.shared.clone();
        let cons2 = cons.clone();
        let sink = std::sync::Arc::clone(&inflight);
        let count = std::sync::Arc::clone(&inflight_count);
        ckb_chain::verif::set_gate(Some(Box::new(move |point, _hash| {
            if point != "verify_block:after-commit" {
                return;
            }
            count.fetch_add(1, std::sync::atomic::Ordering::SeqCst);
            sink.lock().unwrap().extend(judge_published_snapshot(&shared, &cons2));
        })));
    }
    let mut delivered: Vec<String> = vec![];
    let mut detached_tx_blocks = 0u64;
    let mut prev_chain: Vec<packed::Byte32> = node.main_chain().iter().map(|b| b.hash()).collect();
    for (si, step) in case.history.iter().enumerate() {
        report.transitions += 1;
        match step {
            Step::A(_) | Step::B(_) => {
                let (name, blk) = match step {
                    Step::A(i) => (format!("A{i}"), &built.a[*i]),
                    Step::B(i) => (format!("B{i}"), &built.b[*i]),
                    _ => unreachable!(),
                };
                if let Err(e) = node.process(blk) {
                    // every block of the universe was accepted as a tip by the forge (same code,
                    // canonical order): a refusal here depends on the history, i.e. on state the
                    // history left behind
                    let kind = e.to_string().split('(').take(2).collect::<Vec<_>>().join("(");
                    report.violation(format!("valid-block-refused/{kind}"), format!("block {name}, accepted by a node that received its chain in order, is refused after this history: {e} [step {si}]"), json!({"case": case, "step": si}));
                    report.traces += 1;
                    report.evaluations += 1;
                    node.shutdown();
                    return Ok(report);
                }
            }
            Step::Truncate(k) => {
                let tipn = node.tip().number();
                if tipn as usize > *k {
                    let target = node.shared.snapshot().get_block_hash(tipn - *k as u64).ok_or("truncate target")?;
                    node.chain().truncate(target).map_err(|e| format!("truncate failed: {e}"))?;
                }
            }
        }
        for (sub, msg) in inflight.lock().unwrap().drain(..) {
            report.violation(format!("snapshot-during-commit/{sub}"), format!("{msg} [snapshot taken between the database commit and the snapshot publication while processing {step:?}, step {si}]"), json!({"case": case, "step": si, "view": "snapshot-during-commit"}));
        }
        delivered.push(format!("{step:?}"));
        let what = format!("after {step:?}");
        check_state(&node, cons, built, &mut report, case, si, &what)?;
        let chain: Vec<packed::Byte32> = node.main_chain().iter().map(|b| b.hash()).collect();
        for h in &prev_chain {
            if !chain.contains(h) {
                if let Some(b) = built.by_hash.get(h) {
                    if b.transactions().len() > 1 {
                        detached_tx_blocks += 1;
                    }
                }
            }
        }
        prev_chain = chain;
        report.states.insert(fp(&(&case.universe, &{
            let mut d = delivered.clone();
            d.sort();
            d
        }, node.tip().hash().as_slice().to_vec())));
    }
    ckb_chain::verif::set_gate(None);
    report.count("snapshots_judged_during_a_commit", inflight_count.load(std::sync::atomic::Ordering::SeqCst));
    // differential: a node that only ever saw the final main chain
    let tip = node.tip().hash();
    let mine = dump(node.shared.store());
    if !twins.contains_key(&tip) {
        let tdir = ctx.scratch.join("twin");
        let _ = std::fs::remove_dir_all(&tdir);
        let twin = Node::boot(&tdir, &NodeOpts::new(cons.clone()))?;
        twin.wait_startup()?;
        for b in main_chain_of(cons, built, &tip)?.iter().skip(1) {
            twin.process(b).map_err(|e| format!("twin refused main-chain block: {e}"))?;
        }
        twins.insert(tip.clone(), dump(twin.shared.store()));
        twin.shutdown();
    }
    let t = &twins[&tip];
    let mut diffs = vec![];
    for (name, a, b) in [
        ("live-cells", &mine.cell, &t.cell),
        ("cell-data", &mine.cell_data, &t.cell_data),
        ("cell-data-hash", &mine.cell_data_hash, &t.cell_data_hash),
        ("number-hash-index", &mine.index, &t.index),
        ("tx-info", &mine.tx_info, &t.tx_info),
        ("uncle-index", &mine.uncles, &t.uncles),
    ] {
        if a != b {
            diffs.push(name);
        }
    }
    if mine.meta_tip != t.meta_tip || mine.meta_epoch != t.meta_epoch {
        diffs.push("meta");
    }
    // cycles of main-chain blocks (the one ext field the reference cannot know)
    for b in main_chain_of(cons, built, &tip)?.iter().skip(1) {
        let k = b.hash().as_slice().to_vec();
        let ca = mine.block_ext.get(&k).and_then(|v| packed::BlockExtV1::from_compatible_slice(v).ok()).map(|e| e.cycles().as_slice().to_vec());
        let cb = t.block_ext.get(&k).and_then(|v| packed::BlockExtV1::from_compatible_slice(v).ok()).map(|e| e.cycles().as_slice().to_vec());
        if ca != cb {
            diffs.push("ext-cycles");
            break;
        }
    }
    if !diffs.is_empty() {
        report.violation(format!("differential/{}", diffs[0]), format!("state after the history differs from a node fed only the final main chain in {diffs:?}"), json!({"case": case, "step": case.history.len()}));
    }
    report.traces += 1;
    report.evaluations += 1;
    report.outcomes.insert(fp(&(node.tip().number(), mine.cell.len(), mine.tx_info.len())));
    if detached_tx_blocks > 0 {
        report.nontrivial.insert(fp(&(&case.universe, &case.history)));
    }
    if idx % 499 == 0 {
        report.sample(json!({"case": case, "final_tip_number": node.tip().number(), "live_cells": mine.cell.len(), "detached_tx_bearing_blocks": detached_tx_blocks}));
    }
    node.shutdown();
    Ok(report)
}

pub fn run(ctx: &Ctx) -> Report {
    let mut report = Report::new();
    let cons = consensus(&WorldOpts::default());
    set_time(time_for_height(20));
    let txu = TxUniverse::new(&cons);
    let mut forge = match Forge::new(&ctx.scratch.join("forge"), &cons) {
        Ok(f) => f,
        Err(e) => {
            report.machinery_errors.push(e);
            return report;
        }
    };
    let sched_monitor = {
        let cons = cons.clone();
        move |node: &Node| judge_published_snapshot(&node.shared, &cons)
    };
    if let Some(path) = &ctx.replay {
        let v: Value = load_replay_case(path);
        if v["family"] == "ST" {
            if let Err(e) = sched_tx_family(ctx, &cons, &txu, &mut forge, &sched_monitor, &mut report, Some(&v)) {
                report.machinery_errors.push(e);
            }
            report.outcomes.insert(0);
            report.outcomes.insert(1);
            return report;
        }
        if v["family"] == "S" {
            drop(forge);
            crate::props::c01::sched_family_with_monitor(ctx, &mut report, &sched_monitor, Some(&v));
            report.outcomes.insert(0);
            report.outcomes.insert(1);
            return report;
        }
    }
    let cases: Vec<Case> = if let Some(path) = &ctx.replay {
        let v: Value = load_replay_case(path);
        report.outcomes.insert(0);
        vec![serde_json::from_value(v["case"].clone()).expect("case")]
    } else {
        all_cases(ctx.tier)
    };
    report.max_counter("max_cases_total", cases.len() as u64);
    // family S first (a few seconds): the published snapshot at every cut of every schedule of the
    // chain service's threads
    if ctx.replay.is_none() {
        crate::props::c01::sched_family_with_monitor(ctx, &mut report, &sched_monitor, None);
        if !report.machinery_errors.is_empty() {
            return report;
        }
        if let Err(e) = sched_tx_family(ctx, &cons, &txu, &mut forge, &sched_monitor, &mut report, None) {
            report.machinery_errors.push(format!("family ST: {e}"));
            return report;
        }
    }
    // group by universe so that each universe is built once per worker; shard by universe
    let mut groups: Vec<(UniverseSpec, Vec<(usize, Case)>)> = vec![];
    for (i, c) in cases.into_iter().enumerate() {
        match groups.last_mut() {
            Some((u, v)) if *u == c.universe => v.push((i, c)),
            _ => groups.push((c.universe.clone(), vec![(i, c)])),
        }
    }
    report.max_counter("max_universes_total", groups.len() as u64);
    'outer: for (gi, (uspec, cs)) in groups.iter().enumerate() {
        // designed universes have many histories: shard those by case; generated ones by universe
        let by_case = cs.len() > 40;
        if !by_case && !ctx.mine(gi as u64) {
            continue;
        }
        if by_case && !cs.iter().any(|(i, _)| ctx.mine(*i as u64)) {
            continue;
        }
        let built = match build_universe(&mut forge, &cons, &txu, uspec) {
            Ok(b) => b,
            Err(e) => {
                report.machinery_errors.push(format!("universe {uspec:?}: {e}"));
                break;
            }
        };
        report.count("universes_built", 1);
        let mut twins = HashMap::new();
        for (i, c) in cs {
            if by_case && !ctx.mine(*i as u64) {
                continue;
            }
            if ctx.out_of_time() {
                report.cap_hit = Some(format!("wall budget reached at case {i}"));
                break 'outer;
            }
            match run_case(ctx, &cons, &built, c, &mut twins, *i as u64) {
                Ok(r) => report.merge(r),
                Err(e) => {
                    report.machinery_errors.push(format!("case #{i} {c:?}: {e}"));
                    break 'outer;
                }
            }
        }
    }
    report.count("forge_boots", forge.boots as u64);
    drop(forge);
    report
}


// ---------------------------------------------------------------------------------------
// Family ST: thread schedules over transaction-bearing reorganisations.  The common prefix of a
// designed universe is delivered the ordinary way; then the scheduler takes over the chain
// service's three threads, the blocks of both branches are queued, and every schedule up to the
// preemption bound is executed.  At every cut the published snapshot is judged on its own (live
// cells, cell data, number index, tx-info, uncles, stored tip, epoch, MMR against a replay of the
// chain its tip field announces).

fn sched_tx_subjects(tier: Tier, built: &Built, ui: usize) -> Vec<crate::props::c01::SchedSubject> {
    use crate::props::c01::{Materialised, SchedSubject};
    let p = built.prefix.len();
    let (na, nb) = (built.a.len(), built.b.len());
    let mut blocks = built.prefix.clone();
    blocks.extend(built.a.iter().cloned());
    blocks.extend(built.b.iter().cloned());
    let mut pv: Vec<usize> = (0..p).collect();
    for k in 0..na {
        pv.push(p + k);
    }
    for k in 0..nb {
        pv.push(if k == 0 { p } else { p + na + k });
    }
    let a = |k: usize| p + k;
    let b = |k: usize| p + na + k;
    let mut seqs: Vec<(Vec<usize>, usize, &str)> = vec![(vec![a(0), b(0), b(1)], 1, "A0 B0 B1")];
    if tier.is_thorough() {
        seqs.push((vec![b(0), a(0), a(1)], 1, "B0 A0 A1"));
        seqs.push((vec![a(0), a(1), b(0), b(1), b(2)], 1, "A0 A1 B0 B1 B2"));
        seqs.push((vec![a(0), b(0), b(1)], 2, "A0 B0 B1"));
    }
    seqs.into_iter()
        .map(|(seq, bound, names)| SchedSubject {
            m: Materialised { blocks: blocks.clone(), self_valid: vec![true; blocks.len()] },
            pv: pv.clone(),
            pre: (0..p).collect(),
            seq,
            bound,
            label: json!({"designed_universe": ui, "queued": names, "bound": bound}),
            family: "ST",
        })
        .collect()
}

fn sched_tx_family(ctx: &Ctx, cons: &Consensus, txu: &TxUniverse, forge: &mut Forge, monitor: &dyn Fn(&Node) -> Vec<(String, String)>, report: &mut Report, replay: Option<&Value>) -> Result<(), String> {
    let mut idx = 100_000u64;
    for (ui, (uspec, _)) in designed().iter().enumerate().take(2) {
        if let Some(v) = replay {
            if v["designed_universe"].as_u64() != Some(ui as u64) {
                continue;
            }
        }
        let built = build_universe(forge, cons, txu, uspec)?;
        for sub in sched_tx_subjects(if replay.is_some() { Tier::Thorough } else { ctx.tier }, &built, ui) {
            idx += 1_000;
            if let Some(v) = replay {
                if v["queued"] != sub.label["queued"] || v["bound"] != sub.label["bound"] {
                    continue;
                }
                let schedule: Vec<usize> = serde_json::from_value(v["schedule"].clone()).map_err(|e| e.to_string())?;
                return crate::props::c01::explore_subject(ctx, cons, &sub, 0, report, Some(schedule), Some(monitor), Some("cut/"));
            }
            if ctx.out_of_time() {
                report.cap_hit = Some("wall budget reached in family ST".into());
                return Ok(());
            }
            crate::props::c01::explore_subject(ctx, cons, &sub, idx, report, None, Some(monitor), Some("cut/"))?;
        }
    }
    Ok(())
}
