//! C04 — a transaction is accepted iff inputs are live and unspent and all tx rules hold.
//!
//! A designed context (p1..p5; cells created at known heights, a spent cell, a dep-group cell, a
//! cell under an unknown lock, the witness-dependent lock of the C14 world) and a catalogue of
//! candidate transactions: for every rule the transaction exactly on its boundary and the
//! single-rule violation.  Each candidate is (i) committed in block 6 on a node that received the
//! context directly, (ii) the same on a node that reached the context through a reorganisation
//! from a branch with other spends, (iii) submitted to the pool of a node at tip 5 (expected
//! verdict = the rule evaluated at the earliest commit position the pool assumes).
use crate::core::*;
use crate::forge::*;
use crate::node::*;
use crate::world::*;
use ckb_chain_spec::consensus::Consensus;
use ckb_types::{
    bytes::Bytes,
    core::{BlockView, Capacity, DepType, EpochNumberWithFraction, ScriptHashType, TransactionView},
    packed::{self, Byte32, CellDep, CellInput, CellOutput, OutPoint, Script},
    prelude::*,
};
use serde_json::{Value, json};

const NOW_HEIGHT: u64 = 40;
const REL: u64 = 1 << 63;
const EPOCH: u64 = 0x2000_0000_0000_0000;
const TIME: u64 = 0x4000_0000_0000_0000;

struct Cand {
    name: String,
    /// transactions committed in block 6, in order (usually one)
    txs: Vec<TransactionView>,
    valid_in_block: bool,
    /// None: not comparable in the pool (fee policy)
    valid_in_pool: Option<bool>,
}

struct Universe {
    p: Vec<BlockView>,
    q: Vec<BlockView>,
    cands: Vec<Cand>,
    shift: u64,
}

fn epoch_since(n: u64, i: u64, l: u64) -> u64 {
    EPOCH | EpochNumberWithFraction::new_unchecked(n, i, l).full_value()
}

/// `shift` empty blocks precede the context: the context transactions are committed in block
/// 3 + shift, the tip is 5 + shift and the candidates are committed in block h = 6 + shift, i.e. at
/// every position of a (4-block) epoch; every since threshold is computed from h.
fn build(ctx: &Ctx, cons: &Consensus, shift: u64) -> Result<Universe, String> {
    set_time(time_for_height(NOW_HEIGHT));
    let mut forge = Forge::new(&ctx.scratch.join(format!("c04-forge-{shift}")), cons)?;
    let h = 6 + shift;
    let created = 3 + shift;
    // epoch positions (flat world: 4-block epochs)
    let ep = |n: u64| (n / 4, n % 4);
    let ep_since = |n: u64| epoch_since(ep(n).0, ep(n).1, 4);
    let g = genesis_cells(cons);
    let (code, locked) = witness_lock_cells(cons);
    let as_code = always_success_dep(cons).out_point();
    let rnd = |b: u8| Byte32::from_slice(&[b; 32]).unwrap();
    // ---- context transactions
    // Ta: three plain cells created in block 3 + one under a lock whose code does not exist
    let ta0 = simple_tx(cons, &g[0..1], 4, 1_000_000, 1);
    let unknown_lock = Script::new_builder().code_hash(rnd(0x77)).hash_type(ScriptHashType::Data1).build();
    let mut outs: Vec<CellOutput> = ta0.outputs().into_iter().collect();
    outs[3] = outs[3].clone().as_builder().lock(unknown_lock).build();
    let ta = ta0.as_advanced_builder().set_outputs(outs).build();
    // Tg: a dep group naming the always-success code cell, and one naming an unknown cell
    let group_ok: Bytes = packed::OutPointVec::new_builder().push(as_code.clone()).build().as_bytes();
    let group_bad: Bytes = packed::OutPointVec::new_builder().push(as_code.clone()).push(OutPoint::new(rnd(0x55), 0)).build().as_bytes();
    let tg0 = simple_tx(cons, &g[1..2], 3, 1_000_000, 2);
    let tg = tg0.as_advanced_builder().set_outputs_data(vec![group_ok.pack(), group_bad.pack(), Bytes::new().pack()]).build();
    // Td: spends g2 (so that g2 is dead in the context)
    let td = simple_tx(cons, &g[2..3], 1, 1_000_000, 3);
    // branch q: one block on top of p3 that spends two of the cells created in block 3 (and g3);
    // it is detached when p4, p5 arrive, so those cells are restored by the rollback
    let tq = simple_tx(cons, &g[3..4], 1, 1_000_000, 4);
    let tq2 = simple_tx(cons, &[out(&ta, 0), out(&ta, 1)], 1, 2_000_000, 5);

    // ---- candidates
    let mut cands: Vec<Cand> = vec![];
    let fee = 1_000_000u64;
    let plain = |inp: &[(OutPoint, u64)], salt: u8| simple_tx(cons, inp, 1, fee, salt);
    let with_since = |t: &TransactionView, since: u64| {
        let inputs: Vec<CellInput> = t.inputs().into_iter().map(|i| i.as_builder().since(since).build()).collect();
        t.as_advanced_builder().set_inputs(inputs).build()
    };
    let mut add = |name: &str, txs: Vec<TransactionView>, b: bool, p: Option<bool>| cands.push(Cand { name: name.into(), txs, valid_in_block: b, valid_in_pool: p });
    let a = |i: usize| out(&ta, i);
    add("plain", vec![plain(&g[3..4], 10)], true, Some(true));
    add("input/unknown", vec![plain(&[(OutPoint::new(rnd(0x31), 0), 50_000 * 100_000_000)], 11)], false, Some(false));
    add("input/dead", vec![plain(&g[2..3], 12)], false, Some(false));
    add("input/index-out-of-range", vec![plain(&[(OutPoint::new(ta.hash(), 9), 10_000 * 100_000_000)], 13)], false, Some(false));
    {
        let t = plain(&g[3..4], 14);
        let dup = t.as_advanced_builder().input(t.inputs().get(0).unwrap()).build();
        add("input/same-cell-twice", vec![dup], false, Some(false));
    }
    add("input/created-in-block-3", vec![plain(&[a(0)], 15)], true, Some(true));
    {
        let c1 = plain(&g[5..6], 16);
        let c2 = plain(&[out(&c1, 0)], 17);
        add("input/created-earlier-in-the-same-block", vec![c1.clone(), c2.clone()], true, None);
        add("input/created-later-in-the-same-block", vec![c2.clone(), c1.clone()], false, None);
        // rules that depend on WHERE an input was created, for an input created in the same block
        add("since/relative-block=0-on-a-cell-of-the-same-block", vec![c1.clone(), with_since(&c2, REL)], true, None);
        add("since/relative-block=1-on-a-cell-of-the-same-block", vec![c1.clone(), with_since(&c2, REL | 1)], false, None);
        add("since/relative-epoch=0-on-a-cell-of-the-same-block", vec![c1.clone(), with_since(&c2, REL | epoch_since(0, 0, 1))], true, None);
        add("since/relative-epoch=1/4-on-a-cell-of-the-same-block", vec![c1.clone(), with_since(&c2, REL | epoch_since(0, 1, 4))], false, None);
    }
    {
        let t = plain(&g[3..4], 20);
        add("dep/live-cell", vec![t.as_advanced_builder().cell_dep(CellDep::new_builder().out_point(g[4].0.clone()).build()).build()], true, Some(true));
        add("dep/unknown-cell", vec![t.as_advanced_builder().cell_dep(CellDep::new_builder().out_point(OutPoint::new(rnd(0x32), 0)).build()).build()], false, Some(false));
        add("dep/dead-cell", vec![t.as_advanced_builder().cell_dep(CellDep::new_builder().out_point(g[2].0.clone()).build()).build()], false, Some(false));
        let group = |i: usize| CellDep::new_builder().out_point(OutPoint::new(tg.hash(), i as u32)).dep_type(DepType::DepGroup).build();
        add("dep/group-instead-of-code-dep", vec![t.as_advanced_builder().set_cell_deps(vec![group(0)]).build()], true, Some(true));
        add("dep/group-with-unknown-member", vec![t.as_advanced_builder().set_cell_deps(vec![group(1)]).build()], false, Some(false));
        add("dep/group-cell-unknown", vec![t.as_advanced_builder().set_cell_deps(vec![CellDep::new_builder().out_point(OutPoint::new(rnd(0x33), 0)).dep_type(DepType::DepGroup).build()]).build()], false, Some(false));
        add("dep/no-code-dep-at-all", vec![t.as_advanced_builder().set_cell_deps(vec![]).build()], false, Some(false));
    }
    // header deps are filled in below (they need block hashes)
    // capacity
    {
        let t = simple_tx(cons, &g[3..4], 1, 0, 30);
        add("capacity/outputs-equal-inputs", vec![t.clone()], true, None);
        let o = t.outputs().get(0).unwrap();
        let cap: u64 = o.capacity().unpack();
        add("capacity/outputs-exceed-inputs-by-1", vec![t.as_advanced_builder().set_outputs(vec![o.clone().as_builder().capacity(Capacity::shannons(cap + 1)).build()]).build()], false, Some(false));
        // a second output holding exactly / one shannon less than its occupied capacity
        let t2 = simple_tx(cons, &g[3..4], 2, fee, 31);
        let o1 = t2.outputs().get(1).unwrap();
        let occupied = o1.occupied_capacity(Capacity::bytes(0).unwrap()).unwrap().as_u64();
        let o0 = t2.outputs().get(0).unwrap();
        let total: u64 = Unpack::<u64>::unpack(&o0.capacity()) + Unpack::<u64>::unpack(&o1.capacity());
        let split = |c1: u64| t2.as_advanced_builder().set_outputs(vec![o0.clone().as_builder().capacity(Capacity::shannons(total - c1)).build(), o1.clone().as_builder().capacity(Capacity::shannons(c1)).build()]).build();
        add("capacity/output-exactly-occupied", vec![split(occupied)], true, Some(true));
        add("capacity/output-one-below-occupied", vec![split(occupied - 1)], false, Some(false));
    }
    // since: the candidate block is number 6 in epoch 1 (index 2 of 4).  The pool at tip 5 sees these
    // candidates as already proposed inside the window and assumes commit position 5 - 1 + closest = 6
    // for block numbers, and the tip's epoch (1, 1/4).  Unproposed variants ("fresh") are assumed at
    // 5 + 1 + closest = 8.
    {
        let t = plain(&g[3..4], 40);
        add(&format!("since/absolute-block={}", h), vec![with_since(&t, h)], true, Some(true));
        add(&format!("since/absolute-block={}", h + 1), vec![with_since(&t, h + 1)], false, Some(false));
        add(&format!("since/absolute-block={}", h + 2), vec![with_since(&t, h + 2)], false, Some(false));
        add(&format!("since/absolute-block={}", h + 3), vec![with_since(&t, h + 3)], false, Some(false));
        let r = plain(&[a(1)], 41); // created in block 3 + shift
        add("since/relative-block=3", vec![with_since(&r, REL | 3)], true, Some(true));
        add("since/relative-block=4", vec![with_since(&r, REL | 4)], false, Some(false));
        add("since/relative-block=5", vec![with_since(&r, REL | 5)], false, Some(false));
        add("since/relative-block=6", vec![with_since(&r, REL | 6)], false, Some(false));
        // the block path judges at the commit position (block h), the pool at the tip's (h - 1)
        add("since/absolute-epoch=tip-position", vec![with_since(&t, ep_since(h - 1))], true, Some(true));
        add("since/absolute-epoch=commit-position", vec![with_since(&t, ep_since(h))], true, Some(false));
        add("since/absolute-epoch=commit-position+1/4", vec![with_since(&t, ep_since(h + 1))], false, Some(false));
        // the cell was created three blocks (3/4 of an epoch) below the commit position
        add("since/relative-epoch=3/4", vec![with_since(&r, REL | epoch_since(0, 3, 4))], true, Some(false));
        add("since/relative-epoch=2/4", vec![with_since(&r, REL | epoch_since(0, 2, 4))], true, Some(true));
        add("since/relative-epoch=1", vec![with_since(&r, REL | epoch_since(1, 0, 1))], false, Some(false));
        // epoch encodings with a zero length: index 0 / length 0 is the legal "whole epoch" form, a
        // non-zero index over length 0 is malformed
        add("since/absolute-epoch-whole-epoch-form-0/0", vec![with_since(&t, epoch_since(ep(h - 1).0, 0, 0))], true, Some(true));
        add("since/absolute-epoch-index-1-over-length-0", vec![with_since(&t, epoch_since(ep(h - 1).0, 1, 0))], false, Some(false));
        add("since/absolute-epoch-0-index-7-over-length-0", vec![with_since(&t, epoch_since(0, 7, 0))], false, Some(false));
        add("since/relative-epoch-0/0", vec![with_since(&r, REL | epoch_since(0, 0, 0))], true, Some(true));
        add("since/relative-epoch-index-1-over-length-0", vec![with_since(&r, REL | epoch_since(0, 1, 0))], false, Some(false));
        // median time: the median of the three blocks below the commit position is block h - 2's timestamp
        let median_s = time_for_height(h - 2) / 1000;
        add("since/absolute-time=median", vec![with_since(&t, TIME | median_s)], true, Some(true));
        add("since/absolute-time=median+1s", vec![with_since(&t, TIME | (median_s + 1))], false, Some(false));
        // relative: measured from the timestamp of the block that created the cell (h - 3): 8 seconds
        add("since/relative-time=8s", vec![with_since(&r, REL | TIME | 8)], true, Some(true));
        add("since/relative-time=9s", vec![with_since(&r, REL | TIME | 9)], false, Some(false));
        add("since/epoch-index-not-below-length", vec![with_since(&t, epoch_since(0, 5, 4))], false, Some(false));
        add("since/absolute-time-long-ago", vec![with_since(&t, TIME | 1)], true, Some(true));
        add("since/absolute-time-far-future", vec![with_since(&t, TIME | (time_for_height(NOW_HEIGHT) / 1000 + 86_400))], false, Some(false));
        add("since/relative-time-zero", vec![with_since(&r, REL | TIME)], true, Some(true));
        add("since/relative-time-one-day", vec![with_since(&r, REL | TIME | 86_400)], false, Some(false));
        let tf = plain(&g[3..4], 42);
        add(&format!("pool-fresh/since-absolute-block={}", h + 2), vec![with_since(&tf, h + 2)], false, Some(true));
        add(&format!("pool-fresh/since-absolute-block={}", h + 3), vec![with_since(&tf, h + 3)], false, Some(false));
        let rf = plain(&[a(1)], 43);
        add("pool-fresh/since-relative-block=5", vec![with_since(&rf, REL | 5)], false, Some(true));
        add("pool-fresh/since-relative-block=6", vec![with_since(&rf, REL | 6)], false, Some(false));
        add("since/reserved-flag-bit", vec![with_since(&t, (1u64 << 56) | 1)], false, Some(false));
        add("since/metric-flag-11", vec![with_since(&t, 0x6000_0000_0000_0000 | 1)], false, Some(false));
        add("since/zero", vec![with_since(&t, 0)], true, Some(true));
    }
    // scripts
    add("script/lock-code-not-found", vec![plain(&[a(3)], 50)], false, Some(false));
    {
        let w = |witness: Vec<u8>| simple_tx(cons, &[locked.clone()], 1, 2_000_000, 51).as_advanced_builder().cell_dep(CellDep::new_builder().out_point(code.0.clone()).build()).witness(Bytes::from(witness).pack()).build();
        let good = std::fs::read("/repo/script/testdata/exec_callee").map_err(|e| e.to_string())?;
        add("script/witness-makes-lock-succeed", vec![w(good)], true, Some(true));
        add("script/witness-makes-lock-fail", vec![w(vec![0u8; 64])], false, Some(false));
        add("script/witness-missing", vec![simple_tx(cons, &[locked.clone()], 1, 2_000_000, 51).as_advanced_builder().cell_dep(CellDep::new_builder().out_point(code.0.clone()).build()).build()], false, Some(false));
    }
    {
        // a type script whose code does not exist on an output
        let t = plain(&g[3..4], 52);
        let o = t.outputs().get(0).unwrap().as_builder().type_(Some(Script::new_builder().code_hash(rnd(0x78)).hash_type(ScriptHashType::Data1).build()).pack()).build();
        add("script/output-type-code-not-found", vec![t.as_advanced_builder().set_outputs(vec![o]).build()], false, Some(false));
    }

    // ---- the context: p1 proposes the context txs, p3 commits them and proposes every candidate
    let genesis = cons.genesis_hash();
    let mut lead = vec![];
    let mut parent = genesis.clone();
    for _ in 0..shift {
        let b = forge.build_on(&parent, &BlockSpec { miner: 1, ..Default::default() })?;
        parent = b.hash();
        lead.push(b);
    }
    let mut p = vec![];
    for n in 1..=5u64 {
        let mut spec = BlockSpec { miner: 1, ..Default::default() };
        match n {
            1 => spec.proposals = vec![ta.proposal_short_id(), tg.proposal_short_id(), td.proposal_short_id()],
            2 => spec.proposals = vec![tq.proposal_short_id(), tq2.proposal_short_id()],
            3 => {
                spec.txs = vec![ta.clone(), tg.clone(), td.clone()];
            }
            _ => {}
        }
        let b = forge.build_on(&parent, &spec)?;
        parent = b.hash();
        p.push(b);
    }
    let _ = genesis;
    // the candidate block's own cellbase output, spent in that very block (the world has one epoch
    // of cellbase maturity): the cellbase of block h depends only on the chain below p3's proposals
    {
        let probe = forge.build_on(&p[4].hash(), &BlockSpec { miner: 2, ..Default::default() })?;
        forge.known.remove(&probe.hash());
        let cb = probe.transactions()[0].clone();
        if cb.outputs().is_empty() {
            return Err("the candidate block's cellbase has no output".into());
        }
        let spend = simple_tx(cons, &[out(&cb, 0)], 1, 1_000_000, 70);
        cands.push(Cand { name: "maturity/cellbase-output-of-the-same-block".into(), txs: vec![spend], valid_in_block: false, valid_in_pool: Some(false) });
    }
    let mut q = vec![];
    // header deps
    {
        let t = plain(&g[3..4], 60);
        cands.push(Cand { name: "header-dep/main-chain-block".into(), txs: vec![t.as_advanced_builder().header_dep(p[1].hash()).build()], valid_in_block: true, valid_in_pool: Some(true) });
        cands.push(Cand { name: "header-dep/unknown".into(), txs: vec![t.as_advanced_builder().header_dep(rnd(0x34)).build()], valid_in_block: false, valid_in_pool: Some(false) });
        cands.push(Cand { name: "header-dep/tip".into(), txs: vec![t.as_advanced_builder().header_dep(p[4].hash()).build()], valid_in_block: true, valid_in_pool: Some(true) });
    }
    // p3 must propose every candidate: rebuild p3..p5 with the proposals (ids are known now)
    let ids: Vec<packed::ProposalShortId> = { let mut v: Vec<_> = cands.iter().filter(|c| !c.name.starts_with("pool-fresh/")).flat_map(|c| c.txs.iter().map(|t| t.proposal_short_id())).collect(); v.sort_by(|a, b| a.as_slice().cmp(b.as_slice())); v.dedup(); v };
    // header deps name p2 / p5: p5's hash changes when p3 changes, so the tip header dep is re-made after the rebuild
    let mut parent = p[1].hash();
    p.truncate(2);
    for n in 3..=5u64 {
        let mut spec = BlockSpec { miner: 1, ..Default::default() };
        if n == 3 {
            spec.txs = vec![ta.clone(), tg.clone(), td.clone()];
            spec.proposals = ids.clone();
        }
        let b = forge.build_on(&parent, &spec)?;
        parent = b.hash();
        p.push(b);
    }
    // q4: a child of (the final) p3
    q.push(forge.build_on(&p[2].hash(), &BlockSpec { miner: 2, ts_offset: 1, txs: vec![tq.clone(), tq2.clone()], ..Default::default() })?);
    // the side-branch header dep names q4: its candidate is made now (its id cannot be proposed in p3:
    // it is an invalid candidate anyway, any block carrying it is refused)
    {
        let t = simple_tx(cons, &g[3..4], 1, 1_000_000, 60);
        cands.push(Cand { name: "header-dep/side-branch-block".into(), txs: vec![t.as_advanced_builder().header_dep(q[0].hash()).build()], valid_in_block: false, valid_in_pool: Some(false) });
    }
    // the id of "header-dep/tip" depends on p5's hash, which depends on the proposals: it cannot be
    // proposed in p3; drop it and use p4's parent instead
    cands.retain(|c| c.name != "header-dep/tip");
    let _ = created;
    if shift > 0 {
        for c in cands.iter_mut() {
            c.name = format!("tip{}/{}", 5 + shift, c.name);
        }
    }
    let p: Vec<BlockView> = lead.into_iter().chain(p.into_iter()).collect();
    Ok(Universe { p, q, cands, shift })
}

fn block_for(forge_node: &Node, parent6: &BlockView, txs: &[TransactionView]) -> BlockView {
    // resolvable transactions get a fully consistent block (DAO field and all); the others can
    // only be appended to the empty block
    let snap = forge_node.shared.snapshot();
    match assemble(&snap, &BlockSpec { miner: 2, txs: txs.to_vec(), ..Default::default() }) {
        Ok(b) => b,
        Err(_) => parent6.as_advanced_builder().transactions(txs.to_vec()).build(),
    }
}

fn err_kind(e: &str) -> String {
    e.split(|c: char| !c.is_ascii_alphanumeric()).filter(|t| t.chars().next().map(|c| c.is_ascii_uppercase()).unwrap_or(false)).take(3).collect::<Vec<_>>().join("-")
}

pub fn meta(_tier: Tier) -> Meta {
    Meta {
        id: "C04",
        level: "exploration",
        rule: "the context is built with 0..3 leading empty blocks: tip 5..8, candidates committed in block h = 6..9, i.e. at every position of an epoch, every since threshold computed from h (absolute block h..h+3; absolute epoch at the tip position / commit position / one block later; absolute time = median of the three blocks below h and +1 s; relative time 8 s / 9 s from the creating block's timestamp). Per position: context p1..p5 (flat world with the witness-dependent lock in genesis and one epoch of cellbase maturity): cells created in block 3, a spent genesis cell, a dep-group cell with a good and a bad member list, a cell under a lock whose code does not exist; every candidate id proposed in p3. Catalogue (for each rule the boundary and the violation): inputs unknown / dead / out of range / twice / created in block 3 / created earlier or later in the same block; cell deps live / unknown / dead / group / group with unknown member / unknown group / none; header deps main-chain / unknown / side-branch; capacity outputs = inputs, +1, output exactly occupied, occupied-1; since absolute block 6..9, relative block 3..6, absolute epoch 1+1/4..1+3/4, relative epoch 2/4, 3/4, 1, malformed epoch, absolute / relative time far past and far future, reserved flag, metric 11, zero; lock code missing, witness that makes the lock succeed / fail / absent, output type code missing. Each candidate is committed in block 6 on a node that received p1..p5 directly and on a node that after p3 followed a block q4 spending cells created in block 3 and was reorganised back by p4, p5 (those cells are restored by the rollback); and submitted to the pool of a node at tip 5. Expected: block verdict by construction (commit position 6, epoch 1+2/4); pool verdict by construction at the position the pool assumes (block 6 for a proposed id, block 8 for the unproposed variants, the tip's epoch); both nodes agree; a refused block leaves the tip unchanged.",
        assumptions: &["zero-fee and same-block parent/child candidates are not compared in the pool (fee policy / one submission at a time)", "cellbase maturity is exercised in C14's maturity family", "flat world: every epoch has four blocks (epochs of different lengths: dynamic-epoch maturity family)"],
        bounds: json!({"commit_positions": [6, 7, 8, 9]}),
    }
}

pub fn run(ctx: &Ctx) -> Report {
    let mut report = Report::new();
    let mut w = WorldOpts::default();
    w.witness_lock = true;
    // a non-zero cellbase maturity: a cell wrongly taken for a cellbase output would be refused
    w.cellbase_maturity = EpochNumberWithFraction::new(1, 0, 1);
    let cons = consensus(&w);
    let which: Option<String> = ctx.replay.as_ref().map(|p| load_replay_case(p)["candidate"].as_str().unwrap_or("").to_string());
    if which.is_some() {
        report.outcomes.insert(0);
        report.outcomes.insert(1);
    }
    let go = |shift: u64, report: &mut Report| -> Result<(), String> {
        let u = build(ctx, &cons, shift)?;
        let tip_i = 4 + shift as usize;
        let ctx3 = 3 + u.shift;
        set_time(time_for_height(NOW_HEIGHT));
        let boot = |tag: &str, pool: bool| -> Result<Node, String> {
            let dir = ctx.scratch.join(format!("c04-{tag}-{shift}"));
            let _ = std::fs::remove_dir_all(&dir);
            let mut opts = NodeOpts::new(cons.clone());
            if pool {
                opts = opts.with_pool();
                opts.assembler = false;
            }
            let n = Node::boot(&dir, &opts)?;
            n.wait_startup()?;
            Ok(n)
        };
        let direct = boot("direct", false)?;
        let via_reorg = boot("reorg", false)?;
        let pooln = boot("pool", true)?;
        let builder = boot("builder", false)?;
        for n in [&direct, &via_reorg, &pooln, &builder] {
            for b in &u.p {
                n.process(b).map_err(|e| format!("p{}: {e}", b.number()))?;
                // the node that takes a detour: after p3 it follows q4 (which spends cells created
                // in block 3), then p4 and p5 reorganise it back
                if b.number() == ctx3 && std::ptr::eq(n, &via_reorg) {
                    for qb in &u.q {
                        n.process(qb).map_err(|e| format!("q: {e}"))?;
                    }
                    if n.tip().hash() != u.q.last().unwrap().hash() {
                        return Err("the detour block did not become the tip".into());
                    }
                }
            }
            if n.tip().hash() != u.p[tip_i].hash() {
                return Err("context tip not reached".into());
            }
        }
        pooln.wait_pool_synced()?;
        let empty6 = assemble(&builder.shared.snapshot(), &BlockSpec { miner: 2, ..Default::default() })?;
        report.count("candidates", u.cands.len() as u64);
        for cand in &u.cands {
            if let Some(w) = &which {
                if w != &cand.name {
                    continue;
                }
            }
            let label = json!({"candidate": cand.name});
            let block = block_for(&builder, &empty6, &cand.txs);
            let mut verdicts = vec![];
            let block_nodes: Vec<(&str, &Node)> = if cand.name.starts_with("pool-fresh/") { vec![] } else { vec![("direct", &direct), ("after-reorg", &via_reorg)] };
            for (tag, node) in block_nodes {
                let v = node.process(&block);
                report.transitions += 1;
                let ok = matches!(v, Ok(true));
                let moved = node.tip().hash() == block.hash();
                if ok != moved {
                    report.violation(format!("verdict-and-tip-disagree/{}", cand.name), format!("{tag}: answered {:?}, tip moved: {moved}", v.as_ref().map_err(|e| e.to_string())), label.clone());
                }
                if ok != cand.valid_in_block {
                    report.violation(format!("{}/{}", if cand.valid_in_block { "valid-tx-refused-in-block" } else { "invalid-tx-accepted-in-block" }, cand.name), format!("{tag}: block 6 with the candidate was answered {:?}", v.as_ref().map_err(|e| e.to_string())), label.clone());
                }
                verdicts.push(match &v { Ok(b) => format!("Ok({b})"), Err(e) => err_kind(&e.to_string()) });
                if moved {
                    node.chain().truncate(u.p[tip_i].hash()).map_err(|e| format!("truncate: {e}"))?;
                }
            }
            if verdicts.len() == 2 && verdicts[0] != verdicts[1] {
                report.violation(format!("verdict-depends-on-history/{}", cand.name), format!("direct: {}, after a reorganisation onto the same chain: {}", verdicts[0], verdicts[1]), label.clone());
            }
            report.evaluations += 2;
            // pool
            if let Some(want) = cand.valid_in_pool {
                let tx = cand.txs[0].clone();
                let r = pooln.shared.tx_pool_controller().submit_local_tx(tx.clone()).map_err(|e| e.to_string())?;
                report.transitions += 1;
                report.evaluations += 1;
                if r.is_ok() != want {
                    report.violation(format!("{}/{}", if want { "valid-tx-refused-by-pool" } else { "invalid-tx-accepted-by-pool" }, cand.name), format!("submit at tip 5 answered {:?}", r.as_ref().map(|_| "accepted").map_err(|e| e.to_string())), label.clone());
                }
                if r.is_ok() {
                    let _ = pooln.shared.tx_pool_controller().remove_local_tx(tx.hash());
                }
                verdicts.push(if r.is_ok() { "accepted".into() } else { err_kind(&r.unwrap_err().to_string()) });
            }
            report.states.insert(fp(&cand.name));
            report.outcomes.insert(fp(&verdicts));
            if !cand.valid_in_block || cand.valid_in_pool == Some(false) {
                report.nontrivial.insert(fp(&cand.name));
            }
            report.traces += 1;
            if report.samples.len() < 4 {
                report.sample(json!({"candidate": cand.name, "verdicts": verdicts}));
            }
        }
        drop(empty6);
        direct.shutdown();
        via_reorg.shutdown();
        builder.shutdown();
        pooln.shutdown();
        Ok(())
    };
    if which.as_deref().map(|w| !w.starts_with("dyn-maturity/") && !w.starts_with("hardfork/")).unwrap_or(true) {
        for shift in 0..4u64 {
            if let Some(w) = &which {
                let prefix = format!("tip{}/", 5 + shift);
                if (shift == 0 && w.starts_with("tip")) || (shift > 0 && !w.starts_with(&prefix)) {
                    continue;
                }
            }
            if let Err(e) = go(shift, &mut report) {
                report.machinery_errors.push(format!("context with {shift} leading blocks: {e}"));
            }
        }
    }
    if which.as_deref().map(|w| w.starts_with("hardfork/")).unwrap_or(true) {
        if let Err(e) = hardfork_family(ctx, &mut report, which.as_deref()) {
            report.machinery_errors.push(format!("hard-fork boundary family: {e}"));
        }
    }
    if which.as_deref().map(|w| w.starts_with("dyn-maturity/")).unwrap_or(true) {
        if let Err(e) = dyn_maturity_family(ctx, &mut report, which.as_deref()) {
            report.machinery_errors.push(format!("dynamic-epoch maturity family: {e}"));
        }
    }
    report
}

/// Cellbase maturity across epochs of different lengths.  Dynamic-difficulty world (epochs of 4, 8,
/// 16 blocks), maturity one epoch.  The first cellbase with an output is block 6's, at position 2/8
/// of epoch 1; it matures at 2/8 = 4/16 of epoch 2, i.e. in block 16.  A transaction spending it,
/// and one naming it as a cell dep, is committed in block 14 / 15 (immature: the block must be
/// refused) and in block 16 (accepted), on a chain that proposes it two blocks earlier.  The same
/// for block 7's cellbase (3/8 -> 6/16: block 18).
fn dyn_maturity_family(ctx: &Ctx, report: &mut Report, only: Option<&str>) -> Result<(), String> {
    let mut w = WorldOpts::default();
    w.permanent_difficulty = false;
    w.genesis_compact_target = ckb_types::utilities::difficulty_to_compact(ckb_types::U256::from(1u64 << 24));
    w.cellbase_maturity = EpochNumberWithFraction::new(1, 0, 1);
    let cons = consensus(&w);
    set_time(time_for_height(NOW_HEIGHT + 40));
    let dir = ctx.scratch.join("c04-dyn");
    let _ = std::fs::remove_dir_all(&dir);
    let node = Node::boot(&dir, &NodeOpts::new(cons.clone()))?;
    node.wait_startup()?;
    let g = genesis_cells(&cons);
    // chain 1..=13 (no transactions): learn the cellbases of blocks 6 and 7
    let mut chain: Vec<BlockView> = vec![];
    for n in 1..=7u64 {
        let b = assemble(&node.shared.snapshot(), &BlockSpec { miner: (n % 5) as u8 + 1, ..Default::default() })?;
        node.process(&b).map_err(|e| format!("block {n}: {e}"))?;
        chain.push(b);
    }
    let cb = |n: usize| -> Result<(OutPoint, u64, EpochNumberWithFraction), String> {
        let b = &chain[n - 1];
        let tx = &b.transactions()[0];
        let o = tx.outputs().get(0).ok_or_else(|| format!("cellbase of block {n} has no output"))?;
        Ok((OutPoint::new(tx.hash(), 0), o.capacity().unpack(), b.epoch()))
    };
    // (name, cellbase block, first mature block)
    let mut subjects = vec![];
    for (n, mature_at) in [(6usize, 16u64), (7, 18)] {
        let (op, cap, ep) = cb(n)?;
        if ep.length() != 8 || ep.number() != 1 {
            return Err(format!("block {n} is at {ep}, expected epoch 1 of 8 blocks"));
        }
        let spend = simple_tx(&cons, &[(op.clone(), cap)], 1, 1_000_000, 90 + n as u8);
        // the cell's lock carries the miner's args: the lock is still the always-success code
        let dep = simple_tx(&cons, &g[n - 6..n - 5], 1, 1_000_000, 95 + n as u8).as_advanced_builder().cell_dep(CellDep::new_builder().out_point(op).dep_type(DepType::Code).build()).build();
        subjects.push((format!("spend-of-cellbase-{n}"), spend, mature_at));
        subjects.push((format!("dep-on-cellbase-{n}"), dep, mature_at));
    }
    let base_tip = node.tip().hash();
    // blocks of different candidates must differ (a truncated block stays stored with its verdict
    // and would be answered "already verified" without moving the tip)
    let mut salt = 0u64;
    for (name, tx, mature_at) in subjects {
        for commit_at in [mature_at - 2, mature_at - 1, mature_at, mature_at + 1] {
            salt += 1;
            let cname = format!("dyn-maturity/{name}/commit-in-{commit_at}");
            if let Some(o) = only {
                if o != cname {
                    continue;
                }
            }
            let want_ok = commit_at >= mature_at;
            // back to block 7, then empty blocks up to commit_at - 1 with the proposal two blocks before the commit
            if node.tip().hash() != base_tip {
                node.chain().truncate(base_tip.clone()).map_err(|e| e.to_string())?;
            }
            for n in 8..commit_at {
                let mut spec = BlockSpec { miner: 1, ts_offset: salt, ..Default::default() };
                if n == commit_at - 2 {
                    spec.proposals = vec![tx.proposal_short_id()];
                }
                let b = assemble(&node.shared.snapshot(), &spec)?;
                node.process(&b).map_err(|e| format!("{cname}: block {n}: {e}"))?;
                if node.tip().hash() != b.hash() {
                    return Err(format!("{cname}: block {n} did not become the tip"));
                }
            }
            let tip_before = node.tip().hash();
            let cand = assemble(&node.shared.snapshot(), &BlockSpec { miner: 2, ts_offset: salt, txs: vec![tx.clone()], ..Default::default() })?;
            let pos = cand.epoch();
            let v = node.process(&cand);
            report.transitions += 1;
            report.evaluations += 1;
            let ok = matches!(v, Ok(true));
            let label = json!({"candidate": cname, "commit_position": pos.to_string(), "cellbase_block": name});
            if ok != want_ok {
                report.violation(format!("{}/{}", if want_ok { "valid-tx-refused-in-block" } else { "invalid-tx-accepted-in-block" }, cname), format!("block {commit_at} (epoch position {pos}) using the cellbase output was answered {:?}; the cellbase matures in block {mature_at}", v.as_ref().map_err(|e| e.to_string())), label.clone());
            }
            if !ok && node.tip().hash() != tip_before {
                report.violation(format!("verdict-and-tip-disagree/{cname}"), "the refused block moved the tip".to_string(), label.clone());
            }
            report.states.insert(fp(&cname));
            report.outcomes.insert(fp(&("dyn-maturity", ok)));
            report.nontrivial.insert(fp(&cname));
            report.traces += 1;
        }
    }
    report.count("dyn_maturity_candidates", 16);
    node.shutdown();
    Ok(())
}


/// A rule that switches on at an epoch boundary: the 2023 hard fork (VM version 2; scripts with
/// hash type data2 may run) activates at epoch 2 of a flat world, i.e. with block 8.  A cell under
/// the always-success code referenced as data2 is created in block 3; the transaction spending it
/// is committed in block 6, 7 (refused: InvalidVmVersion), 8 and 9 (accepted).
fn hardfork_family(ctx: &Ctx, report: &mut Report, only: Option<&str>) -> Result<(), String> {
    let mut w = WorldOpts::default();
    w.ckb2023_epoch = 2;
    let cons = consensus(&w);
    set_time(time_for_height(NOW_HEIGHT + 40));
    let dir = ctx.scratch.join("c04-hardfork");
    let _ = std::fs::remove_dir_all(&dir);
    let node = Node::boot(&dir, &NodeOpts::new(cons.clone()))?;
    node.wait_startup()?;
    let g = genesis_cells(&cons);
    let data2_lock = always_success_lock().as_builder().hash_type(ScriptHashType::Data2).build();
    let fund0 = simple_tx(&cons, &g[0..1], 1, 1_000_000, 70);
    let out0 = fund0.outputs().get(0).unwrap().as_builder().lock(data2_lock).build();
    let fund = fund0.as_advanced_builder().set_outputs(vec![out0]).build();
    let spend = simple_tx(&cons, &[out(&fund, 0)], 1, 1_000_000, 71);
    for n in 1..=5u64 {
        let mut spec = BlockSpec { miner: 1, ..Default::default() };
        if n == 1 {
            spec.proposals = vec![fund.proposal_short_id()];
        }
        if n == 3 {
            spec.txs = vec![fund.clone()];
        }
        let b = assemble(&node.shared.snapshot(), &spec)?;
        node.process(&b).map_err(|e| format!("block {n}: {e}"))?;
    }
    let base_tip = node.tip().hash();
    let mut salt = 0u64;
    for commit_at in [7u64, 8, 9, 10] {
        salt += 1;
        let cname = format!("hardfork/data2-lock/commit-in-{commit_at}");
        if let Some(o) = only {
            if o != cname {
                continue;
            }
        }
        if node.tip().hash() != base_tip {
            node.chain().truncate(base_tip.clone()).map_err(|e| e.to_string())?;
        }
        for n in 6..commit_at {
            let mut spec = BlockSpec { miner: 1, ts_offset: salt, ..Default::default() };
            if n == commit_at - 2 {
                spec.proposals = vec![spend.proposal_short_id()];
            }
            let b = assemble(&node.shared.snapshot(), &spec)?;
            node.process(&b).map_err(|e| format!("{cname}: block {n}: {e}"))?;
            if node.tip().hash() != b.hash() {
                return Err(format!("{cname}: block {n} did not become the tip"));
            }
        }
        let cand = assemble(&node.shared.snapshot(), &BlockSpec { miner: 2, ts_offset: salt, txs: vec![spend.clone()], ..Default::default() })?;
        let pos = cand.epoch();
        let want_ok = pos.number() >= 2;
        let v = node.process(&cand);
        report.transitions += 1;
        report.evaluations += 1;
        let ok = matches!(v, Ok(true));
        let label = json!({"candidate": cname, "commit_position": pos.to_string()});
        if ok != want_ok {
            report.violation(format!("{}/{}", if want_ok { "valid-tx-refused-in-block" } else { "invalid-tx-accepted-in-block" }, cname), format!("block {commit_at} (epoch position {pos}) spending a cell under a data2 lock was answered {:?}; data2 scripts may run from epoch 2 on", v.as_ref().map_err(|e| e.to_string())), label.clone());
        }
        report.states.insert(fp(&cname));
        report.outcomes.insert(fp(&("hardfork", ok)));
        report.nontrivial.insert(fp(&cname));
        report.traces += 1;
    }
    node.shutdown();
    Ok(())
}
