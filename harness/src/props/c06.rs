//! C06 — rewards, fee split and DAO field follow the issuance rules; nothing else mints.
//!
//! The forge (ckb's own calculators + full verification) produces a 22-block main chain and a
//! fork with designed fee / proposer / committer assignments (a transaction proposed by two
//! blocks, proposed through an uncle, committed at the closest and at the farthest window edge,
//! proposed, expired and proposed again, several commits per block, three epoch boundaries with
//! remainder rewards).  An independent replay written from the issuance rules (plain integer
//! arithmetic over a cell map) recomputes for EVERY block of EVERY chain: the capacity and lock
//! of the cellbase (reward of the block it finalises: primary + miner share of secondary +
//! committer shares + proposer shares of the first proposer inside the window), the DAO field
//! (C, AR, S, U), U = occupied capacity of the live-cell set, and the conservation law
//! "live capacity + what is still to be paid = C - S".
use crate::core::*;
use crate::forge::*;
use crate::world::*;
use ckb_chain_spec::consensus::Consensus;
use ckb_types::{
    core::{BlockView, Capacity, TransactionView},
    packed::{self, OutPoint, ProposalShortId},
    prelude::*,
};
use serde_json::{Value, json};
use std::collections::{HashMap, HashSet};

const EPOCH_LEN: u64 = 4;
const PRIMARY: u64 = 1_917_808_21917811; // leaves a remainder of 3 over 4 blocks

#[derive(Clone, Debug)]
struct RefBlock {
    primary: u64,
    g2: u64,
    /// per committed transaction (block order, cellbase excluded): (id, fee)
    commits: Vec<(ProposalShortId, u64)>,
    /// ids proposed by the block and by its uncles
    proposals: HashSet<ProposalShortId>,
    /// (C, AR, S, U) after this block
    dao: (u64, u64, u64, u64),
    miner_lock: packed::Script,
}

fn dao_of(b: &BlockView) -> (u64, u64, u64, u64) {
    let d = b.dao().raw_data();
    let r = |i: usize| u64::from_le_bytes(d[i * 8..i * 8 + 8].try_into().unwrap());
    (r(0), r(1), r(2), r(3))
}

fn occupied(o: &packed::CellOutput, data_len: usize) -> u64 {
    // 8 bytes of capacity + lock (32 + 1 + args) + optional type + data, in shannons
    let script = |s: &packed::Script| 32 + 1 + s.args().raw_data().len();
    let bytes = 8 + script(&o.lock()) + o.type_().to_opt().map(|t| script(&t)).unwrap_or(0) + data_len;
    bytes as u64 * 100_000_000
}

#[derive(Clone, Debug)]
struct Cell {
    cap: u64,
    occ: u64,
    /// carries the NervosDAO type script
    dao: bool,
    data: Vec<u8>,
    /// height of the block that created it
    born: usize,
}

struct Replay {
    blocks: Vec<RefBlock>,
    /// out point -> cell
    live: HashMap<OutPoint, Cell>,
    /// block hash -> height on the replayed chain
    height: HashMap<packed::Byte32, usize>,
    /// shares the chain has provably not paid (known finding: block 1's own proposals)
    burned: u64,
    /// (C - S) - live capacity at genesis
    base: i128,
}

/// the reward of block t, payable once blocks up to t + far are known
fn reward_of(r: &Replay, t: usize, window: (u64, u64), ratio: (u64, u64)) -> (u64, u64) {
    let (close, far) = (window.0 as usize, window.1 as usize);
    let b = &r.blocks[t];
    let share = |fee: u64| (fee as u128 * ratio.0 as u128 / ratio.1 as u128) as u64;
    // miner's part of the secondary issuance: g2 * U / C of the parent
    let (pc, _, _, pu) = r.blocks[t - 1].dao;
    let miner_sec = (b.g2 as u128 * pu as u128 / pc as u128) as u64;
    let commit: u64 = b.commits.iter().map(|(_, f)| f - share(*f)).sum();
    let mut proposal = 0u64;
    for c in t + close..=(t + far).min(r.blocks.len() - 1) {
        for (id, fee) in &r.blocks[c].commits {
            if !b.proposals.contains(id) {
                continue;
            }
            // t is paid iff no earlier block inside the window of c proposes the id
            let first = (c.saturating_sub(far).max(1)..=c - close).find(|p| r.blocks[*p].proposals.contains(id));
            if first == Some(t) {
                proposal += share(*fee);
            }
        }
    }
    (b.primary + miner_sec + commit + proposal, proposal)
}

/// Replays `chain` (chain[0] = genesis) and reports every disagreement with the blocks' own fields.
fn replay(cons: &Consensus, chain: &[BlockView], tag: &str, label: &Value, report: &mut Report) {
    replay_with(cons, chain, tag, label, report, PRIMARY)
}

fn replay_with(cons: &Consensus, chain: &[BlockView], tag: &str, label: &Value, report: &mut Report, primary_epoch: u64) {
    let dynamic = !cons.permanent_difficulty();
    let window = (cons.tx_proposal_window().closest(), cons.tx_proposal_window().farthest());
    let delay = cons.finalization_delay_length() as usize;
    let ratio = (cons.proposer_reward_ratio().numer(), cons.proposer_reward_ratio().denom());
    let secondary_epoch = cons.secondary_epoch_reward().as_u64();
    let mut r = Replay { blocks: vec![], live: HashMap::new(), height: HashMap::new(), burned: 0, base: 0 };
    let dao_type_hash = cons.dao_type_hash();
    let is_dao = |o: &packed::CellOutput| o.type_().to_opt().map(|t| t.code_hash() == dao_type_hash && t.hash_type() == ckb_types::core::ScriptHashType::Type.into()).unwrap_or(false);
    for (n, b) in chain.iter().enumerate() {
        // position of the block in its epoch (the header's epoch field is judged by C03 / C07); in the
        // flat worlds every epoch has EPOCH_LEN blocks, in the dynamic world the length doubles
        let (index, len) = if n == 0 { (0, cons.genesis_epoch_ext().length()) } else { (b.epoch().index(), b.epoch().length()) };
        if !dynamic {
            // permanent difficulty: the genesis epoch has its configured length, every later epoch
            // epoch_duration_target / 8 blocks
            let g = cons.genesis_epoch_ext().length();
            let later = cons.epoch_duration_target() / 8;
            let want = if (n as u64) < g { (n as u64, g) } else { ((n as u64 - g) % later, later) };
            if (index, len) != want {
                report.violation("reference/epoch-shape", format!("{tag}: block {n} claims epoch position {index}/{len} in the flat world, expected {}/{}", want.0, want.1), label.clone());
            }
        }
        let primary = primary_epoch / len + if index < primary_epoch % len { 1 } else { 0 };
        let g2 = secondary_epoch / len + if index < secondary_epoch % len { 1 } else { 0 };
        // transactions: fees and occupied capacity movements
        let mut commits = vec![];
        let mut added = 0u64;
        let mut freed = 0u64;
        // NervosDAO interest paid out by this block's withdrawals
        let mut interest = 0u64;
        r.height.insert(b.hash(), n);
        for (ti, tx) in b.transactions().iter().enumerate() {
            let mut in_cap = 0u64;
            // (the genesis block only creates cells)
            let spends = ti > 0 && n > 0;
            if spends {
                for (k, i) in tx.input_pts_iter().enumerate() {
                    match r.live.remove(&i) {
                        Some(cell) => {
                            let mut worth = cell.cap;
                            // a withdrawing cell (NervosDAO type, 8 bytes of data naming a block number > 0)
                            // is worth occupied + counted * AR(block that created it) / AR(deposit block); the
                            // deposit block is the header dependency whose index the witness' input_type names
                            if cell.dao && cell.data.len() == 8 && u64::from_le_bytes(cell.data[..].try_into().unwrap()) > 0 {
                                let dep = tx
                                    .witnesses()
                                    .get(k)
                                    .and_then(|w| packed::WitnessArgs::from_slice(&w.raw_data()).ok())
                                    .and_then(|w| w.input_type().to_opt())
                                    .map(|b| b.raw_data())
                                    .filter(|b| b.len() == 8)
                                    .map(|b| u64::from_le_bytes(b[..].try_into().unwrap()) as usize)
                                    .and_then(|idx| tx.header_deps().get(idx))
                                    .and_then(|h| r.height.get(&h).copied());
                                match dep {
                                    Some(d) if d < cell.born => {
                                        let (ar_d, ar_w) = (r.blocks[d].dao.1, r.blocks[cell.born].dao.1);
                                        let counted = cell.cap - cell.occ;
                                        worth = cell.occ + (counted as u128 * ar_w as u128 / ar_d as u128) as u64;
                                        interest += worth - cell.cap;
                                        report.nontrivial.insert(fp(&(tag, n, "withdraw", d, cell.born)));
                                    }
                                    _ => report.violation("reference/withdraw-without-deposit-header", format!("{tag}: block {n} spends a withdrawing cell without naming an earlier main-chain deposit header"), label.clone()),
                                }
                            }
                            in_cap += worth;
                            freed += cell.occ;
                        }
                        None => report.violation("reference/unknown-input", format!("{tag}: block {n} spends a cell the replay does not know"), label.clone()),
                    }
                }
            }
            let mut out_cap = 0u64;
            for (oi, (o, d)) in tx.outputs_with_data_iter().enumerate() {
                let cap: u64 = o.capacity().unpack();
                let occ = occupied(&o, d.len());
                out_cap += cap;
                added += occ;
                r.live.insert(OutPoint::new(tx.hash(), oi as u32), Cell { cap, occ, dao: is_dao(&o), data: d.to_vec(), born: n });
            }
            if spends {
                commits.push((tx.proposal_short_id(), in_cap.saturating_sub(out_cap)));
            }
        }
        let mut proposals: HashSet<ProposalShortId> = b.data().proposals().into_iter().collect();
        for u in b.data().uncles().into_iter() {
            proposals.extend(u.proposals().into_iter());
        }
        let miner_lock = if n == 0 {
            packed::Script::default()
        } else {
            packed::CellbaseWitness::from_slice(&b.transactions()[0].witnesses().get(0).unwrap().raw_data()).map(|w| w.lock()).unwrap_or_default()
        };
        // DAO field
        let dao = if n == 0 {
            dao_of(b) // initial condition
        } else {
            let (pc, par, ps, pu) = r.blocks[n - 1].dao;
            let miner_issuance = (g2 as u128 * pu as u128 / pc as u128) as u64;
            let c = pc + primary + g2;
            let ar = par + (par as u128 * g2 as u128 / pc as u128) as u64;
            let s = (ps + (g2 - miner_issuance)).saturating_sub(interest);
            let u = pu + added - freed;
            (c, ar, s, u)
        };
        report.evaluations += 1;
        if dao != dao_of(b) {
            let names = ["C (total issuance)", "AR (accumulated rate)", "S (unclaimed secondary issuance)", "U (occupied capacity)"];
            let got = dao_of(b);
            let g = [got.0, got.1, got.2, got.3];
            let w = [dao.0, dao.1, dao.2, dao.3];
            for i in 0..4 {
                if g[i] != w[i] {
                    report.violation(format!("dao/{}", ["C", "AR", "S", "U"][i]), format!("{tag}: block {n}: header says {} = {}, the accumulation rule applied to the parent gives {}", names[i], g[i], w[i]), label.clone());
                }
            }
        }
        r.blocks.push(RefBlock { primary, g2, commits, proposals, dao: dao_of(b), miner_lock });
        if n == 0 {
            let (c, _, s, _) = dao_of(b);
            r.base = (c - s) as i128 - r.live.values().map(|x| x.cap as i128).sum::<i128>();
        }
        // U equals the occupied capacity of the live-cell set
        let live_occupied: u64 = r.live.values().map(|x| x.occ).sum();
        if live_occupied != dao_of(b).3 {
            report.violation("dao/U-vs-live-cells", format!("{tag}: block {n}: U = {}, the live cells occupy {}", dao_of(b).3, live_occupied), label.clone());
        }
        // the cellbase pays exactly the reward of block n - delay
        let cb = &b.transactions()[0];
        let paid: u64 = cb.outputs().into_iter().map(|o| Unpack::<u64>::unpack(&o.capacity())).sum();
        if n > delay {
            let t = n - delay;
            let (want, proposal_part) = reward_of(&r, t, window, ratio);
            report.evaluations += 1;
            // a reward too small to create the cell of the miner's lock is not paid: the cellbase is empty
            let cell_needs = occupied(&packed::CellOutput::new_builder().lock(r.blocks[t].miner_lock.clone()).build(), 0);
            if want < cell_needs {
                if paid != 0 || !cb.outputs().is_empty() {
                    report.violation("reward/unissuable-reward-paid", format!("{tag}: the cellbase of block {n} creates {paid} shannons; the reward of block {t} ({want}) cannot hold a cell of its miner's lock ({cell_needs}) and must not be paid"), label.clone());
                } else {
                    report.nontrivial.insert(fp(&(tag, n, "burnt")));
                }
                r.burned += want;
            } else if t == 1 && proposal_part > 0 && paid + proposal_part == want {
                // block 1 is not paid for the proposals it was the first to make
                report.violation("reward/block-1-proposer-share-unpaid", format!("{tag}: the cellbase of block {n} creates {paid} shannons; the reward of block 1 is {want}: the proposer shares ({proposal_part}) of the transactions block 1 was the first to propose are missing (RewardCalculator::proposal_reward clamps the 'earlier proposer' block number to 1, so block 1's own proposals count as proposed before)"), label.clone());
                r.burned += proposal_part;
            } else if paid != want {
                report.violation("reward/amount", format!("{tag}: the cellbase of block {n} creates {paid} shannons; the reward of block {t} is {want} (primary {}, commits {:?})", r.blocks[t].primary, r.blocks[t].commits.iter().map(|c| c.1).collect::<Vec<_>>()), label.clone());
            } else if r.blocks[t].commits.len() + r.blocks[t].proposals.len() > 0 {
                report.nontrivial.insert(fp(&(tag, n)));
            }
            let lock = cb.outputs().get(0).map(|o| o.lock());
            if want >= cell_needs && lock.as_ref().map(|l| l.as_slice().to_vec()) != Some(r.blocks[t].miner_lock.as_slice().to_vec()) {
                report.violation("reward/lock", format!("{tag}: the cellbase of block {n} does not pay the miner of block {t}"), label.clone());
            }
        } else if n > 0 && paid != 0 {
            report.violation("reward/early-mint", format!("{tag}: the cellbase of block {n} creates {paid} shannons before any block is finalised"), label.clone());
        }
        // conservation: live capacity + everything still to be paid = C - S
        // still to be paid at tip n: for blocks t > n - delay (t >= 1): primary + miner secondary + the
        // committer shares of their fees; and the proposer share of every fee committed so far whose
        // first proposer is not finalised yet
        if n > 0 {
            let share = |fee: u64| (fee as u128 * ratio.0 as u128 / ratio.1 as u128) as u64;
            let live_cap: u64 = r.live.values().map(|x| x.cap).sum();
            let mut pending = 0u64;
            let first_unfinalised = (n + 1).saturating_sub(delay).max(1);
            for t in first_unfinalised..=n {
                let (pc, _, _, pu) = r.blocks[t - 1].dao;
                pending += r.blocks[t].primary + (r.blocks[t].g2 as u128 * pu as u128 / pc as u128) as u64;
                pending += r.blocks[t].commits.iter().map(|(_, f)| f - share(*f)).sum::<u64>();
            }
            for c in 1..=n {
                for (id, fee) in &r.blocks[c].commits {
                    let first = (c.saturating_sub(window.1 as usize).max(1)..=c - window.0 as usize).find(|p| r.blocks[*p].proposals.contains(id));
                    match first {
                        Some(p) if p >= first_unfinalised => pending += share(*fee),
                        Some(_) => {}
                        None => report.violation("reference/commit-without-proposal", format!("{tag}: block {c} commits an id nobody proposed inside the window"), label.clone()),
                    }
                }
            }
            let (c, _, s, _) = dao_of(b);
            report.evaluations += 1;
            // shares of block 1 already known to stay unpaid are not "pending" once block 6 has passed
            let lost = if n > delay { r.burned } else { 0 };
            let unpaid_b1 = if n <= delay { 0 } else { 0 };
            let _ = unpaid_b1;
            let balance = (c - s) as i128 - (live_cap + pending) as i128 - r.base - lost as i128;
            if balance != 0 {
                report.violation("conservation", format!("{tag}: block {n}: live cells hold {live_cap}, still to be paid {pending}, C - S = {}: {} shannons {} relative to genesis", c - s, balance.abs(), if balance > 0 { "have disappeared" } else { "have appeared from nowhere" }), label.clone());
            }
        }
        report.states.insert(fp(&(tag, n, b.hash().as_slice().to_vec())));
    }
    report.traces += 1;
}

fn fee_tx(cons: &Consensus, g: &[(OutPoint, u64)], i: usize, fee: u64, n_out: usize) -> TransactionView {
    simple_tx(cons, &g[i..i + 1], n_out, fee, 100 + i as u8)
}

pub fn meta(_tier: Tier) -> Meta {
    Meta {
        id: "C06",
        level: "exploration",
        rule: "flat world with 4-block epochs and a primary epoch reward that leaves a remainder; main chain of 22 blocks and a 10-block fork from block 6, built by the forge (ckb's calculators, every block fully verified as a tip). Assignments: a transaction proposed by two different blocks inside the window of its commit, proposed only through an uncle, committed at distance 2 and at distance 4, proposed - expired - proposed again - committed, two and three commits in one block, a child spending its parent's output in the next block, blocks proposing without any commit, fees from 1 shannon-odd values up to 0.5 CKB, outputs with data and type scripts (occupied capacity). Assignment family: three fee-paying transactions on a 13-block chain, every assignment of (first proposing block 2..4, a second proposer 1 or 2 blocks later or none, commit distance 2..4) for two of them x three assignments of the third (quick: 4 x 4 x 1). Unissuable-reward family (a world with a block reward of about 100 CKB): block 1 or block 2 names a miner lock whose cell needs 741 CKB, the finalising block must carry an output-less cellbase - the honest candidate must be accepted, four candidates creating capacity anyway (DAO field recomputed for each) must be refused, and the replay must see nothing paid. For EVERY block of EVERY chain an independent replay (plain integer arithmetic over a cell map, written from the issuance rules) must reproduce: cellbase capacity = primary(t) + g2(t)*U(t-1)/C(t-1) + sum(fee - floor(fee*4/10)) over t's commits + sum floor(fee*4/10) over commits in (t+close..t+far) whose first proposer inside their window is t, for t = n - 5 (nothing before block 6); cellbase lock = t's miner lock; DAO field (C, AR, S, U) = accumulation rule on the parent; U = occupied capacity of the live cells; live capacity + rewards and fee shares still to be paid = C - S. NervosDAO family (genesis keeps the always-success code at OUTPUT_INDEX_DAO under its own type script, so Consensus::dao_type_hash names a usable script): for every (deposit at d = 3..5, withdrawal request at d+3..d+5, withdrawal 3..5 blocks later) (quick: 6 triples) the three transactions are proposed and committed, the withdrawal pays out occupied + counted * AR_withdraw / AR_deposit (minus a fee in every second chain); a block whose withdrawal pays one shannon more must be refused by the node, the honest one accepted; a joint chain withdraws two deposits of different size and age in one transaction while a third stays deposited; the replay takes exactly the interest out of S and judges fees, rewards and conservation across the payout.",
        assumptions: &["the NervosDAO type script is a stand-in that accepts everything: the node's consensus-level accounting (DaoCalculator) is judged, the on-chain script's own checks (lock period, deposit header number) are not", "issuance halving and dynamic epoch lengths are C07's subject", "the genesis DAO field is the initial condition"],
        bounds: json!({"main_chain_blocks": 22, "fork_blocks": 10}),
    }
}

pub fn run(ctx: &Ctx) -> Report {
    let mut report = Report::new();
    if ctx.replay.is_some() {
        report.outcomes.insert(0);
        report.outcomes.insert(1);
    }
    let mut w = WorldOpts::default();
    w.primary_epoch_reward = Some(PRIMARY);
    let cons = consensus(&w);
    let mut go = || -> Result<(), String> {
        set_time(time_for_height(60));
        let mut forge = Forge::new(&ctx.scratch.join("c06-forge"), &cons)?;
        let g = genesis_cells(&cons);
        let t1 = fee_tx(&cons, &g, 0, 1_000_003, 1);
        let t2 = fee_tx(&cons, &g, 1, 2_500_007, 2);
        let t3 = fee_tx(&cons, &g, 2, 777_777, 1);
        let t4 = fee_tx(&cons, &g, 3, 50_000_001, 3);
        let t5 = fee_tx(&cons, &g, 4, 1_234_567, 1);
        let t6 = fee_tx(&cons, &g, 5, 9_999_999, 1);
        let t7 = fee_tx(&cons, &g, 6, 3_333_331, 2);
        let t8 = fee_tx(&cons, &g, 7, 1_000_001, 1);
        // a child of t2's second output, with a type script and data on its output
        let t9 = {
            let t = simple_tx(&cons, &[out(&t2, 1)], 1, 4_000_009, 120);
            let o = t.outputs().get(0).unwrap().as_builder().type_(Some(always_success_lock().as_builder().args(ckb_types::bytes::Bytes::from(vec![1u8, 2, 3]).pack()).build()).pack()).build();
            t.as_advanced_builder().set_outputs(vec![o]).set_outputs_data(vec![ckb_types::bytes::Bytes::from(vec![9u8; 40]).pack()]).build()
        };
        let id = |t: &TransactionView| t.proposal_short_id();
        let genesis = cons.genesis_hash();
        let mut a: Vec<BlockView> = vec![];
        let mut parent = genesis.clone();
        // an uncle candidate for block 2: a sibling of block 1 proposing t4 and t1
        let u1 = forge.build_on(&genesis, &BlockSpec { miner: 9, ts_offset: 9, proposals: vec![id(&t4), id(&t1)], ..Default::default() })?;
        for n in 1..=22u64 {
            let mut spec = BlockSpec { miner: (n % 5) as u8 + 1, ..Default::default() };
            match n {
                1 => spec.proposals = vec![id(&t1), id(&t2)],
                2 => {
                    spec.proposals = vec![id(&t2), id(&t3)];
                    spec.uncles = vec![u1.as_uncle()];
                }
                3 => spec.txs = vec![t1.clone()],
                4 => spec.txs = vec![t2.clone(), t4.clone()],
                5 => {
                    spec.txs = vec![t3.clone()];
                    spec.proposals = vec![id(&t5), id(&t6), id(&t9)];
                }
                6 => spec.proposals = vec![id(&t5)],
                7 => spec.txs = vec![t5.clone(), t9.clone()],
                9 => spec.txs = vec![t6.clone()],
                10 => spec.proposals = vec![id(&t7)],
                // t7 expires unproposed-committed at 14; proposed again
                15 => spec.proposals = vec![id(&t7), id(&t8)],
                16 => spec.proposals = vec![id(&t8)],
                18 => spec.txs = vec![t7.clone(), t8.clone()],
                _ => {}
            }
            let b = forge.build_on(&parent, &spec)?;
            parent = b.hash();
            a.push(b);
        }
        // the tip too is verified
        forge.goto(&parent)?;
        // fork from block 6: other placements of t5, t6, t9
        let mut b: Vec<BlockView> = vec![];
        let mut parent = a[5].hash();
        for n in 7..=16u64 {
            let mut spec = BlockSpec { miner: 7, ts_offset: 1, ..Default::default() };
            match n {
                7 => spec.proposals = vec![id(&t6), id(&t7)],
                8 => spec.txs = vec![t5.clone()],
                9 => spec.txs = vec![t6.clone(), t9.clone()],
                10 => spec.txs = vec![t7.clone()],
                _ => {}
            }
            let blk = forge.build_on(&parent, &spec)?;
            parent = blk.hash();
            b.push(blk);
        }
        forge.goto(&parent)?;
        let mut main = vec![cons.genesis_block().clone()];
        main.extend(a.iter().cloned());
        let mut fork = vec![cons.genesis_block().clone()];
        fork.extend(a[..6].iter().cloned());
        fork.extend(b.iter().cloned());
        report.sample(json!({"main_blocks": main.len() - 1, "fork_blocks": b.len(), "fees": [1_000_003, 2_500_007, 777_777, 50_000_001, 1_234_567, 9_999_999, 3_333_331, 1_000_001, 4_000_009]}));
        replay(&cons, &main, "main", &json!({"chain": "main"}), &mut report);
        replay(&cons, &fork, "fork", &json!({"chain": "fork"}), &mut report);
        report.transitions += (main.len() + fork.len()) as u64;
        report.outcomes.insert(fp(&"main"));
        report.outcomes.insert(fp(&"fork"));
        // ---- assignment family: every (proposing block, second proposer or none, commit distance)
        // assignment of three fee-paying transactions on a 13-block chain
        {
            let txs = [&t1, &t2, &t3];
            // per tx: (first proposal block 2..=4, second proposal offset 0 (none) / 1 / 2 blocks later, commit distance 2..=4)
            let mut opts: Vec<(u64, u64, u64)> = vec![];
            for p in 2..=4u64 {
                for second in 0..=2u64 {
                    for dist in 2..=4u64 {
                        // the second proposal must still be at least `close` before the commit to matter or not: keep all
                        opts.push((p, second, dist));
                    }
                }
            }
            let pick: Vec<(u64, u64, u64)> = if ctx.tier.is_thorough() { opts.clone() } else { vec![(2, 0, 2), (2, 1, 4), (3, 2, 4), (4, 0, 3)] };
            let mut n_chains = 0u64;
            for a1 in &pick {
                for a2 in &pick {
                    for a3 in if ctx.tier.is_thorough() { vec![(2u64, 0u64, 2u64), (3, 1, 4), (4, 2, 3)] } else { vec![(3u64, 1u64, 4u64)] } {
                        if ctx.out_of_time() {
                            report.cap_hit = Some(format!("assignment family: wall budget after {n_chains} chains"));
                            return Ok(());
                        }
                        let asg = [*a1, *a2, a3];
                        let mut chain = vec![cons.genesis_block().clone()];
                        let mut parent = cons.genesis_hash();
                        for n in 1..=13u64 {
                            let mut spec = BlockSpec { miner: (n % 3) as u8 + 1, ts_offset: 2, ..Default::default() };
                            for (k, (p, second, dist)) in asg.iter().enumerate() {
                                if n == *p || (*second > 0 && n == p + second) {
                                    spec.proposals.push(id(txs[k]));
                                }
                                if n == p + dist {
                                    spec.txs.push((*txs[k]).clone());
                                }
                            }
                            let b = forge.build_on(&parent, &spec)?;
                            parent = b.hash();
                            chain.push(b);
                        }
                        forge.goto(&parent)?;
                        n_chains += 1;
                        replay(&cons, &chain, "assignment", &json!({"chain": "assignment", "per_tx_first_proposal_second_offset_commit_distance": asg}), &mut report);
                        report.transitions += 13;
                    }
                }
            }
            report.count("assignment_chains", n_chains);
        }
        report.sample(json!({"main_blocks": main.len() - 1, "fork_blocks": b.len(), "fees": [1_000_003, 2_500_007, 777_777, 50_000_001, 1_234_567, 9_999_999, 3_333_331, 1_000_001, 4_000_009]}));
        Ok(())
    };
    if let Err(e) = go() {
        report.machinery_errors.push(e);
    }
    if let Err(e) = dynamic_family(ctx, &mut report) {
        report.machinery_errors.push(format!("dynamic-epoch family: {e}"));
    }
    if let Err(e) = short_genesis_family(ctx, &mut report) {
        report.machinery_errors.push(format!("short-genesis-epoch family: {e}"));
    }
    if let Err(e) = dao_family(ctx, &mut report) {
        report.machinery_errors.push(format!("NervosDAO family: {e}"));
    }
    if let Err(e) = unissuable_family(ctx, &mut report) {
        report.machinery_errors.push(format!("unissuable-reward family: {e}"));
    }
    report
}

/// "Nothing else mints", the branch honest miners never take: a world with a block reward of about
/// 100 CKB in which block 1 names a miner lock whose cell would need 741 CKB.  The reward of block 1
/// cannot be issued: the block that finalises it must carry a cellbase without outputs.  The honest
/// candidate and candidates that create capacity anyway (each with the DAO field computed for the
/// block as it is, so that the reward rule is the only one broken) are judged by the node.
fn unissuable_family(ctx: &Ctx, report: &mut Report) -> Result<(), String> {
    const SMALL: u64 = 400_0000_0003;
    let mut w = WorldOpts::default();
    w.primary_epoch_reward = Some(SMALL);
    let cons = consensus(&w);
    set_time(time_for_height(60));
    let mut forge = Forge::new(&ctx.scratch.join("c06-unissuable-forge"), &cons)?;
    let delay = cons.finalization_delay_length();
    for big_at in [1u64, 2] {
        let mut chain = vec![cons.genesis_block().clone()];
        let mut parent = cons.genesis_hash();
        // blocks 1 .. big_at+delay-1; the next block finalises block `big_at`
        for n in 1..big_at + delay {
            let spec = BlockSpec { miner: if n == big_at { 240 } else { (n % 5) as u8 + 1 }, ts_offset: 3 + big_at, ..Default::default() };
            let b = forge.build_on(&parent, &spec)?;
            parent = b.hash();
            chain.push(b);
        }
        let spec = BlockSpec { miner: 7, ts_offset: 3 + big_at, ..Default::default() };
        let honest = forge.build_on(&parent, &spec)?;
        let cb = honest.transactions()[0].clone();
        if !cb.outputs().is_empty() {
            return Err(format!("the world does not reach the branch: the honest cellbase finalising block {big_at} has outputs"));
        }
        let target_lock = crate::forge::miner_lock(240);
        let out = |cap: u64, lock: packed::Script| cb.as_advanced_builder().output(packed::CellOutput::new_builder().capacity(ckb_types::core::Capacity::shannons(cap)).lock(lock).build()).output_data(ckb_types::bytes::Bytes::new().pack()).build();
        let cell_needs = occupied(&packed::CellOutput::new_builder().lock(target_lock.clone()).build(), 0);
        let candidates: Vec<(&str, TransactionView)> = vec![
            ("1 000 000 CKB to another lock", out(1_000_000 * 100_000_000, crate::forge::miner_lock(9))),
            ("61 CKB (a minimal cell) to another lock", out(61 * 100_000_000, crate::forge::miner_lock(9))),
            ("exactly the cell's occupied capacity to the target's lock", out(cell_needs, target_lock.clone())),
            ("the cell's occupied capacity + 1 000 CKB to the target's lock", out(cell_needs + 1_000 * 100_000_000, target_lock.clone())),
        ];
        for (name, cellbase) in candidates {
            let cand = forge.build_on_with_cellbase(&parent, &spec, cellbase)?;
            forge.known.remove(&cand.hash());
            let label = json!({"family": "unissuable-reward", "unissuable_block": big_at, "candidate": name});
            report.evaluations += 1;
            report.transitions += 1;
            match forge.node().process(&cand) {
                Err(_) => {
                    report.nontrivial.insert(fp(&("unissuable", big_at, name)));
                }
                Ok(_) => {
                    report.violation("reward/unissuable-reward-minted", format!("block {} finalises block {big_at}, whose reward cannot hold a cell of its miner's lock ({cell_needs} shannons needed); a cellbase creating {name} was accepted", big_at + delay), label);
                    // (the forge now stands on a minting block: the family ends here)
                    return Ok(());
                }
            }
            if forge.node().tip().hash() != parent {
                report.violation("reward/unissuable-reward-minted", format!("after the refused candidate ({name}) the tip is not the parent"), json!({"family": "unissuable-reward"}));
            }
        }
        // the honest block is accepted and the replay agrees (nothing paid, amount burnt)
        match forge.node().process(&honest) {
            Ok(true) => {}
            other => report.violation("reward/unissuable-honest-refused", format!("the empty cellbase finalising block {big_at} was answered {:?}", other.map_err(|e| e.to_string())), json!({"family": "unissuable-reward", "unissuable_block": big_at})),
        }
        chain.push(honest.clone());
        // two more blocks so that conservation is judged past the burnt reward
        let mut p2 = honest.hash();
        forge.learn(&honest);
        for n in 0..2u64 {
            let b = forge.build_on(&p2, &BlockSpec { miner: 3, ts_offset: 3 + big_at + n, ..Default::default() })?;
            p2 = b.hash();
            chain.push(b);
        }
        replay_with(&cons, &chain, "unissuable", &json!({"chain": "unissuable-reward", "unissuable_block": big_at}), report, SMALL);
        report.outcomes.insert(fp(&("unissuable", big_at)));
    }
    Ok(())
}

/// Epochs of different lengths: the dynamic-difficulty world (genesis epoch of 4 blocks, then 8, 16:
/// without uncles the length doubles), a primary and a secondary epoch reward that leave different
/// remainders over 4, 8 and 16 blocks.  The reward of the first block of an epoch is the one place
/// where "the epoch of the block", "the epoch of its parent" and "the epoch of the block that pays
/// it" are three different things; rewards are paid 5 blocks later, so the chain runs to block 36.
fn dynamic_family(ctx: &Ctx, report: &mut Report) -> Result<(), String> {
    let mut w = WorldOpts::default();
    w.primary_epoch_reward = Some(PRIMARY);
    w.permanent_difficulty = false;
    w.genesis_compact_target = ckb_types::utilities::difficulty_to_compact(ckb_types::U256::from(1u64 << 24));
    let cons = consensus(&w);
    set_time(time_for_height(80));
    let mut forge = Forge::new(&ctx.scratch.join("c06-dyn-forge"), &cons)?;
    let g = genesis_cells(&cons);
    let t1 = fee_tx(&cons, &g, 0, 1_000_003, 1);
    let t2 = fee_tx(&cons, &g, 1, 2_500_007, 2);
    let t3 = fee_tx(&cons, &g, 2, 777_777, 1);
    let t4 = fee_tx(&cons, &g, 3, 50_000_001, 3);
    let id = |t: &TransactionView| t.proposal_short_id();
    let mut chain = vec![cons.genesis_block().clone()];
    let mut parent = cons.genesis_hash();
    let mut lens = std::collections::BTreeSet::new();
    for n in 1..=36u64 {
        let mut spec = BlockSpec { miner: (n % 5) as u8 + 1, ..Default::default() };
        match n {
            // fees whose committer / proposer shares are paid across the epoch boundaries at 4, 12, 28
            2 => spec.proposals = vec![id(&t1)],
            4 => spec.txs = vec![t1.clone()],
            9 => spec.proposals = vec![id(&t2), id(&t3)],
            12 => spec.txs = vec![t2.clone()],
            13 => spec.txs = vec![t3.clone()],
            26 => spec.proposals = vec![id(&t4)],
            28 => spec.txs = vec![t4.clone()],
            _ => {}
        }
        let b = forge.build_on(&parent, &spec)?;
        lens.insert(b.epoch().length());
        parent = b.hash();
        chain.push(b);
    }
    forge.goto(&parent)?;
    if lens.len() < 3 {
        return Err(format!("the dynamic world did not produce epochs of three different lengths: {lens:?}"));
    }
    replay_with(&cons, &chain, "dynamic", &json!({"chain": "dynamic-epoch-lengths", "epoch_lengths": lens}), report, PRIMARY);
    report.transitions += 36;
    report.outcomes.insert(fp(&"dynamic"));
    report.count("dynamic_epoch_chain_blocks", 36);
    Ok(())
}

/// NervosDAO deposits and withdrawals.  The world's genesis keeps the always-success code at
/// `OUTPUT_INDEX_DAO` under a type script of its own, so `Consensus::dao_type_hash` names a script
/// that cells can carry: the node's consensus-level NervosDAO accounting (`DaoCalculator`: maximum
/// withdraw = occupied + counted * AR_withdraw / AR_deposit, the interest taken out of S, the fee of
/// a withdrawal) applies, while the script itself accepts everything (lock periods are the real
/// script's business, not the node's).  Per chain: a deposit committed at height d, the withdrawal
/// request (phase 1) at w1, the withdrawal (phase 2) at w2, for every (d, w1, w2) in a grid that
/// crosses the epoch boundaries; the withdrawal pays out exactly the maximum (fee 0) or the maximum
/// minus a fee; a block whose withdrawal claims one shannon more must be refused.  A joint chain
/// withdraws two deposits of different ages in one transaction.  Every chain is replayed by the
/// independent reference (S falls by exactly the interest, conservation holds across the payout).
fn dao_family(ctx: &Ctx, report: &mut Report) -> Result<(), String> {
    use ckb_types::bytes::Bytes;
    use ckb_types::core::TransactionBuilder;
    use ckb_types::packed::{CellInput, CellOutput};
    let mut w = WorldOpts::default();
    w.primary_epoch_reward = Some(PRIMARY);
    w.dao_cell = true;
    let cons = consensus(&w);
    if cons.dao_type_hash() == packed::Byte32::zero() {
        return Err("the world has no NervosDAO type hash".into());
    }
    set_time(time_for_height(90));
    let mut forge = Forge::new(&ctx.scratch.join("c06-dao-forge"), &cons)?;
    let g = genesis_cells(&cons);
    let lock = always_success_lock();
    let dao_type = dao_type_script(&cons);
    let plain = |cap: u64| CellOutput::new_builder().capacity(Capacity::shannons(cap)).lock(lock.clone()).build();
    let dao_out = |cap: u64| CellOutput::new_builder().capacity(Capacity::shannons(cap)).lock(lock.clone()).type_(Some(dao_type.clone()).pack()).build();
    let base = || TransactionBuilder::default().cell_dep(always_success_dep(&cons)).cell_dep(dao_dep(&cons));
    let deposit = |i: usize, amount: u64, fee: u64| -> TransactionView {
        base()
            .input(CellInput::new(g[i].0.clone(), 0))
            .output(dao_out(amount))
            .output_data(Bytes::from(vec![0u8; 8]).pack())
            .output(plain(g[i].1 - amount - fee))
            .output_data(Bytes::new().pack())
            .build()
    };
    // phase 1 of several deposits at once: (deposit tx, amount, deposit block) each; fee from the payer cell
    let phase1 = |deps: &[(&TransactionView, u64, &BlockView)], payer: usize, fee: u64| -> TransactionView {
        let mut b = base();
        for (d, amount, blk) in deps {
            b = b.input(CellInput::new(OutPoint::new(d.hash(), 0), 0)).output(dao_out(*amount)).output_data(Bytes::from(blk.number().to_le_bytes().to_vec()).pack()).header_dep(blk.hash());
        }
        b.input(CellInput::new(g[payer].0.clone(), 0)).output(plain(g[payer].1 - fee)).output_data(Bytes::new().pack()).build()
    };
    // the reference value of a withdrawing cell
    let worth = |amount: u64, deposit: &BlockView, withdraw: &BlockView| -> u64 {
        let occ = occupied(&dao_out(amount), 8);
        occ + ((amount - occ) as u128 * dao_of(withdraw).1 as u128 / dao_of(deposit).1 as u128) as u64
    };
    let phase2 = |p1: &TransactionView, deps: &[(&BlockView, &BlockView)], payout: u64| -> TransactionView {
        let mut b = base();
        let mut headers: Vec<packed::Byte32> = vec![];
        for (k, (dblk, wblk)) in deps.iter().enumerate() {
            for h in [dblk.hash(), wblk.hash()] {
                if !headers.contains(&h) {
                    headers.push(h);
                }
            }
            let idx = headers.iter().position(|h| h == &dblk.hash()).unwrap() as u64;
            let wit = packed::WitnessArgs::new_builder().input_type(Some(Bytes::from(idx.to_le_bytes().to_vec())).pack()).build();
            b = b.input(CellInput::new(OutPoint::new(p1.hash(), k as u32), 0)).witness(wit.as_bytes().pack());
        }
        b.set_header_deps(headers).output(plain(payout)).output_data(Bytes::new().pack()).build()
    };
    let id = |t: &TransactionView| t.proposal_short_id();
    let amount = 30_000 * 100_000_000u64 + 12_345;
    let mut grid: Vec<(u64, u64, u64)> = vec![];
    for d in 3..=5u64 {
        for w1 in d + 3..=d + 5 {
            for w2 in w1 + 3..=w1 + 5 {
                grid.push((d, w1, w2));
            }
        }
    }
    let pick: Vec<(u64, u64, u64)> = if ctx.tier.is_thorough() { grid.clone() } else { vec![(3, 6, 9), (3, 8, 11), (4, 7, 12), (5, 10, 13), (4, 9, 14), (5, 8, 11)] };
    let mut n_chains = 0u64;
    for (ci, (d, w1, w2)) in pick.iter().copied().enumerate() {
        if ctx.out_of_time() {
            report.cap_hit = Some(format!("NervosDAO family: wall budget after {n_chains} chains"));
            return Ok(());
        }
        let label = json!({"family": "nervos-dao", "deposit_at": d, "withdraw_request_at": w1, "withdraw_at": w2});
        let fee2 = if ci % 2 == 0 { 0u64 } else { 1_000_007 };
        let dep = deposit(ci % 4, amount + ci as u64, 500_003);
        let amount = amount + ci as u64;
        let mut chain = vec![cons.genesis_block().clone()];
        let mut parent = cons.genesis_hash();
        let mut p1: Option<TransactionView> = None;
        let mut p2: Option<(TransactionView, TransactionView)> = None; // (honest, over-claiming)
        let end = w2 + 7;
        let mut ok = true;
        for n in 1..=end {
            let mut spec = BlockSpec { miner: (n % 5) as u8 + 1, ts_offset: 20 + ci as u64, ..Default::default() };
            if n == d - 2 {
                spec.proposals.push(id(&dep));
            }
            if n == d {
                spec.txs.push(dep.clone());
            }
            if n == d + 1 {
                p1 = Some(phase1(&[(&dep, amount, &chain[d as usize])], 4 + ci % 4, 700_001));
            }
            if n == w1 - 2 {
                spec.proposals.push(id(p1.as_ref().unwrap()));
            }
            if n == w1 {
                spec.txs.push(p1.clone().unwrap());
            }
            if n == w1 + 1 {
                let max = worth(amount, &chain[d as usize], &chain[w1 as usize]);
                let t = |payout: u64| phase2(p1.as_ref().unwrap(), &[(&chain[d as usize], &chain[w1 as usize])], payout);
                p2 = Some((t(max - fee2), t(max + 1)));
            }
            if n == w2 - 2 {
                let (h, o) = p2.as_ref().unwrap();
                spec.proposals.push(id(h));
                spec.proposals.push(id(o));
            }
            if n == w2 {
                let (h, o) = p2.clone().unwrap();
                // the over-claiming withdrawal must be refused
                let mut bad = spec.clone();
                bad.txs.push(o);
                let cand = forge.build_on(&parent, &bad)?;
                forge.known.remove(&cand.hash());
                report.evaluations += 1;
                report.transitions += 1;
                match forge.node().process(&cand) {
                    Err(_) => {
                        report.nontrivial.insert(fp(&("dao-overclaim", d, w1, w2)));
                    }
                    Ok(_) => {
                        report.violation("dao/withdrawal-overclaim-accepted", format!("block {w2} withdraws a deposit of {amount} shannons made in block {d} (withdrawal requested in block {w1}) and pays out one shannon more than occupied + counted * AR_withdraw / AR_deposit; it was accepted"), label.clone());
                        return Ok(());
                    }
                }
                spec.txs.push(h);
                let honest = forge.build_on(&parent, &spec)?;
                report.evaluations += 1;
                match forge.node().process(&honest) {
                    Ok(true) => {}
                    other => {
                        forge.known.remove(&honest.hash());
                        report.violation("dao/withdrawal-refused", format!("block {w2} withdraws a deposit of {amount} shannons made in block {d} (withdrawal requested in block {w1}) paying out occupied + counted * AR_withdraw / AR_deposit - {fee2}; answered {:?}", other.map_err(|e| e.to_string())), label.clone());
                        ok = false;
                        break;
                    }
                }
                parent = honest.hash();
                chain.push(honest);
                continue;
            }
            let b = forge.build_on(&parent, &spec)?;
            parent = b.hash();
            chain.push(b);
        }
        if ok {
            forge.goto(&parent)?;
            replay(&cons, &chain, "nervos-dao", &label, report);
            report.transitions += end;
            report.outcomes.insert(fp(&("dao", d, w1, w2)));
        }
        n_chains += 1;
    }
    // joint chain: two deposits of different sizes and ages, one withdrawal request for both, one
    // withdrawal with two inputs (a witness and a deposit header each), a third deposit left in place
    {
        let label = json!({"family": "nervos-dao", "chain": "joint"});
        let (a1, a2, a3) = (20_000 * 100_000_000u64 + 1, 41_000 * 100_000_000u64 + 77, 10_000 * 100_000_000u64);
        let d1 = deposit(0, a1, 400_001);
        let d2 = deposit(1, a2, 300_001);
        let d3 = deposit(2, a3, 0);
        let mut chain = vec![cons.genesis_block().clone()];
        let mut parent = cons.genesis_hash();
        let mut p1: Option<TransactionView> = None;
        let mut p2: Option<(TransactionView, TransactionView)> = None;
        let mut ok = true;
        for n in 1..=20u64 {
            let mut spec = BlockSpec { miner: (n % 5) as u8 + 1, ts_offset: 40, ..Default::default() };
            match n {
                2 => spec.proposals = vec![id(&d1), id(&d2), id(&d3)],
                4 => spec.txs = vec![d1.clone()],
                6 => spec.txs = vec![d2.clone(), d3.clone()],
                7 => {
                    p1 = Some(phase1(&[(&d1, a1, &chain[4]), (&d2, a2, &chain[6])], 5, 900_001));
                    spec.proposals = vec![id(p1.as_ref().unwrap())];
                }
                9 => spec.txs = vec![p1.clone().unwrap()],
                10 => {
                    let max = worth(a1, &chain[4], &chain[9]) + worth(a2, &chain[6], &chain[9]);
                    let t = |payout: u64| phase2(p1.as_ref().unwrap(), &[(&chain[4], &chain[9]), (&chain[6], &chain[9])], payout);
                    p2 = Some((t(max - 2_000_003), t(max + 1)));
                    let (h, o) = p2.as_ref().unwrap();
                    spec.proposals = vec![id(h), id(o)];
                }
                13 => {
                    let (h, o) = p2.clone().unwrap();
                    let mut bad = spec.clone();
                    bad.txs.push(o);
                    let cand = forge.build_on(&parent, &bad)?;
                    forge.known.remove(&cand.hash());
                    report.evaluations += 1;
                    if forge.node().process(&cand).is_ok() {
                        report.violation("dao/withdrawal-overclaim-accepted", "joint withdrawal of two deposits paying out one shannon more than the sum of their maximum withdraws was accepted".to_string(), label.clone());
                        return Ok(());
                    }
                    spec.txs.push(h);
                    let honest = forge.build_on(&parent, &spec)?;
                    match forge.node().process(&honest) {
                        Ok(true) => {}
                        other => {
                            forge.known.remove(&honest.hash());
                            report.violation("dao/withdrawal-refused", format!("joint withdrawal of two deposits paying out the sum of their maximum withdraws minus a fee: answered {:?}", other.map_err(|e| e.to_string())), label.clone());
                            ok = false;
                            break;
                        }
                    }
                    parent = honest.hash();
                    chain.push(honest);
                    continue;
                }
                _ => {}
            }
            let b = forge.build_on(&parent, &spec)?;
            parent = b.hash();
            chain.push(b);
        }
        if ok {
            forge.goto(&parent)?;
            replay(&cons, &chain, "nervos-dao-joint", &label, report);
            report.transitions += 20;
            report.outcomes.insert(fp(&"dao-joint"));
            n_chains += 1;
        }
    }
    report.count("nervos_dao_chains", n_chains);
    Ok(())
}

/// The first epoch change also changes the epoch length although difficulty is permanent: a genesis
/// epoch of 6 blocks followed by epochs of 10 (production dev chains: 1000 then 1800).  Primary and
/// secondary epoch rewards leave different remainders over 6 and over 10 blocks; fees are paid across
/// both boundaries.  The replay takes each block's position from its header and the schedule from
/// the consensus parameters only.
fn short_genesis_family(ctx: &Ctx, report: &mut Report) -> Result<(), String> {
    let mut w = WorldOpts::default();
    w.primary_epoch_reward = Some(PRIMARY);
    w.epoch_length = 10;
    w.genesis_epoch_length = Some(6);
    let cons = consensus(&w);
    set_time(time_for_height(100));
    let mut forge = Forge::new(&ctx.scratch.join("c06-short-genesis-forge"), &cons)?;
    let g = genesis_cells(&cons);
    let t1 = fee_tx(&cons, &g, 0, 1_000_003, 1);
    let t2 = fee_tx(&cons, &g, 1, 2_500_007, 2);
    let t3 = fee_tx(&cons, &g, 2, 777_777, 1);
    let id = |t: &TransactionView| t.proposal_short_id();
    let mut chain = vec![cons.genesis_block().clone()];
    let mut parent = cons.genesis_hash();
    let mut lens = std::collections::BTreeSet::new();
    for n in 1..=30u64 {
        let mut spec = BlockSpec { miner: (n % 5) as u8 + 1, ts_offset: 7, ..Default::default() };
        match n {
            2 => spec.proposals = vec![id(&t1)],
            5 => spec.txs = vec![t1.clone()],
            4 => spec.proposals = vec![id(&t2)],
            6 => spec.txs = vec![t2.clone()],
            13 => spec.proposals = vec![id(&t3)],
            16 => spec.txs = vec![t3.clone()],
            _ => {}
        }
        let b = forge.build_on(&parent, &spec)?;
        lens.insert(b.epoch().length());
        parent = b.hash();
        chain.push(b);
    }
    forge.goto(&parent)?;
    if lens.len() < 2 {
        return Err(format!("the world did not produce epochs of two different lengths: {lens:?}"));
    }
    replay_with(&cons, &chain, "short-genesis-epoch", &json!({"chain": "short-genesis-epoch", "epoch_lengths": lens}), report, PRIMARY);
    report.transitions += 30;
    report.outcomes.insert(fp(&"short-genesis"));
    Ok(())
}
