//! C19 — chain-root commitments, proofs and filter hashes match the chain they describe.
//!
//! roots:   for every block of every fork of the universes (flat world with a script-bearing
//!          two-branch universe; dynamic-difficulty world where the shorter branch is heavier)
//!          the root committed in the extension equals an in-memory MMR over the header digests
//!          of its ancestors; after every delivery (reorgs included) the store-backed MMR of the
//!          snapshot gives that root for every main-chain height, and for every tip x every
//!          position set of size <= 3 the generated proof verifies against the committed root and
//!          fails against the root the sibling fork commits at the same height.
//! filters: the real BlockFilter builder runs one pass after every delivery / every k-th delivery
//!          / with a reorg injected at every gate of a pass; once it has caught up every
//!          main-chain block's filter matches every lock and type script of its outputs and of
//!          its spent inputs, and filter hashes chain from the parent's.
use crate::core::*;
use crate::forge::*;
use crate::node::*;
use crate::props::c18;
use crate::world::*;
use ckb_block_filter::filter::BlockFilter;
use ckb_chain_spec::consensus::Consensus;
use ckb_merkle_mountain_range::{MMR, leaf_index_to_mmr_size, util::MemStore};
use ckb_store::ChainStore;
use ckb_types::{
    core::BlockView,
    packed::{self, Byte32, OutPoint},
    prelude::*,
    utilities::merkle_mountain_range::MergeHeaderDigest,
};
use serde_json::{Value, json};
use std::collections::HashMap;
use std::sync::{Arc, Mutex};

type RefMmr<'a> = MMR<packed::HeaderDigest, MergeHeaderDigest, &'a MemStore<packed::HeaderDigest>>;

/// root digest of the in-memory MMR over chain[0..=upto]
fn ref_root(chain: &[BlockView], upto: usize) -> Result<packed::HeaderDigest, String> {
    let store = MemStore::default();
    let mut mmr = RefMmr::new(0, &store);
    for b in &chain[..=upto] {
        mmr.push(b.digest()).map_err(|e| e.to_string())?;
    }
    mmr.get_root().map_err(|e| e.to_string())
}

fn chain_of(tip: &BlockView, by_hash: &HashMap<Byte32, BlockView>) -> Vec<BlockView> {
    let mut v = vec![tip.clone()];
    while v.last().unwrap().number() > 0 {
        let p = by_hash[&v.last().unwrap().parent_hash()].clone();
        v.push(p);
    }
    v.reverse();
    v
}

fn committed_root(b: &BlockView) -> Option<Vec<u8>> {
    b.extension().map(|e| e.raw_data()[..32].to_vec())
}

fn subsets_upto3(n: usize) -> Vec<Vec<u64>> {
    let mut out = vec![];
    for a in 0..n {
        out.push(vec![a as u64]);
        for b in a + 1..n {
            out.push(vec![a as u64, b as u64]);
            for c in b + 1..n {
                out.push(vec![a as u64, b as u64, c as u64]);
            }
        }
    }
    out
}

fn roots_family(ctx: &Ctx, tag: &str, cons: &Consensus, a: &[BlockView], b: &[BlockView], order: Option<Vec<BlockView>>, report: &mut Report) -> Result<(), String> {
    let mut by_hash: HashMap<Byte32, BlockView> = HashMap::new();
    by_hash.insert(cons.genesis_hash(), cons.genesis_block().clone());
    for x in a.iter().chain(b.iter()) {
        by_hash.insert(x.hash(), x.clone());
    }
    let label = json!({"family": "roots", "universe": tag});
    // (1) every block on every fork commits the reference root of its ancestors
    for x in a.iter().chain(b.iter()) {
        let chain = chain_of(x, &by_hash);
        let n = chain.len() - 1;
        let want = ref_root(&chain, n - 1)?.calc_mmr_hash();
        report.evaluations += 1;
        match committed_root(x) {
            Some(got) if got == want.as_slice() => {}
            other => report.violation("root/committed-differs", format!("{tag}: block {} {} commits {:?}, the MMR over its {} ancestors has root hash {}", x.number(), x.hash(), other.map(|v| v.iter().map(|b| format!("{b:02x}")).collect::<String>()), n, want), label.clone()),
        }
    }
    // (2) deliveries: A first, then B (the reorg), then nothing; after every delivery the snapshot's MMR
    let dir = ctx.scratch.join(format!("c19-roots-{tag}"));
    let _ = std::fs::remove_dir_all(&dir);
    let node = Node::boot(&dir, &NodeOpts::new(cons.clone()))?;
    node.wait_startup()?;
    let order: Vec<BlockView> = order.unwrap_or_else(|| a.iter().chain(b.iter()).cloned().collect());
    let mut reorgs = 0;
    let mut prev_tip = cons.genesis_hash();
    // readers that still hold a snapshot from before later deliveries (the block assembler, a
    // light-client request in progress, RPC): each held snapshot must keep answering for ITS chain,
    // and its reads must not disturb what newer snapshots answer
    let mut held: Vec<(std::sync::Arc<ckb_snapshot::Snapshot>, Vec<BlockView>)> = vec![];
    for blk in order.iter() {
        if let Err(e) = node.process(blk) {
            report.violation("root/valid-block-refused", format!("{tag}: block {} {} (verified as a tip by the forge) is refused: {e}", blk.number(), blk.hash()), label.clone());
            break;
        }
        let main = node.main_chain();
        let tip = main.last().unwrap().clone();
        if tip.parent_hash() != prev_tip && tip.hash() != prev_tip {
            reorgs += 1;
        }
        prev_tip = tip.hash();
        report.transitions += 1;
        // (a) every held snapshot is read first (roots at every height of its own chain) ...
        for (hs, hmain) in &held {
            let ht = hs.tip_number();
            for n in 0..ht {
                let got = hs.chain_root_mmr(n).get_root().map_err(|e| e.to_string())?;
                let want = ref_root(hmain, n as usize)?;
                report.evaluations += 1;
                if got.as_slice() != want.as_slice() {
                    report.violation("root/held-snapshot-differs", format!("{tag}: a snapshot taken at tip {ht} ({}) and read after the tip moved to {}: chain_root_mmr({n}).get_root() differs from the MMR over ITS chain's blocks 0..={n}", hs.tip_hash(), tip.number()), label.clone());
                }
            }
        }
        // (b) ... then the current one
        let snap = node.shared.snapshot();
        held.push((std::sync::Arc::clone(&snap), main.clone()));
        if held.len() > 4 {
            held.remove(0);
        }
        let t = tip.number();
        // store-backed root for every height
        for n in 0..t {
            let got = snap.chain_root_mmr(n).get_root().map_err(|e| e.to_string())?;
            let want = ref_root(&main, n as usize)?;
            report.evaluations += 1;
            if got.as_slice() != want.as_slice() {
                report.violation("root/store-mmr-differs", format!("{tag}: tip {t}: chain_root_mmr({n}).get_root() differs from the in-memory MMR over main-chain blocks 0..={n}"), label.clone());
            }
        }
        if t < 2 {
            continue;
        }
        // proofs for the tip: leaves = ancestors 0..t-1, root = what the tip commits
        let leaves_n = t as usize; // positions 0..t-1
        let root = ref_root(&main, leaves_n - 1)?;
        let sets = if leaves_n <= 9 { subsets_upto3(leaves_n) } else { subsets_upto3(leaves_n).into_iter().filter(|s| s.iter().all(|x| *x < 3 || *x + 3 >= leaves_n as u64)).collect() };
        // the sibling fork's block at the same height (if any) commits another root
        let sibling = a.iter().chain(b.iter()).find(|x| x.number() == t && x.hash() != tip.hash());
        let sibling_root = match sibling {
            Some(s) => {
                let c = chain_of(s, &by_hash);
                Some(ref_root(&c, c.len() - 2)?)
            }
            None => None,
        };
        for set in sets {
            let mmr = snap.chain_root_mmr(t - 1);
            let positions: Vec<u64> = set.iter().map(|i| ckb_merkle_mountain_range::leaf_index_to_pos(*i)).collect();
            let proof = match mmr.gen_proof(positions.clone()) {
                Ok(p) => p,
                Err(e) => {
                    report.violation("proof/gen-failed", format!("{tag}: tip {t}, leaves {set:?}: {e}"), label.clone());
                    continue;
                }
            };
            let leaves: Vec<(u64, packed::HeaderDigest)> = set.iter().map(|i| (ckb_merkle_mountain_range::leaf_index_to_pos(*i), main[*i as usize].digest())).collect();
            report.evaluations += 1;
            match proof.verify(root.clone(), leaves.clone()) {
                Ok(true) => {
                    report.nontrivial.insert(fp(&(tag, t, &set)));
                }
                other => report.violation("proof/does-not-verify", format!("{tag}: tip {t}, leaves {set:?}: verify against the committed root = {other:?}"), label.clone()),
            }
            if let Some(sr) = &sibling_root {
                if sr.as_slice() != root.as_slice() && matches!(proof.verify(sr.clone(), leaves.clone()), Ok(true)) {
                    // a proof of leaves both forks share legitimately differs only through the root;
                    // it must not verify against a different root
                    report.violation("proof/verifies-against-other-fork", format!("{tag}: tip {t}, leaves {set:?}: the proof also verifies against the root committed by the sibling fork's block {t}"), label.clone());
                }
                // and a leaf of the other fork must not be provable
                let other_chain = chain_of(sibling.unwrap(), &by_hash);
                let foreign: Vec<(u64, packed::HeaderDigest)> = set.iter().map(|i| (ckb_merkle_mountain_range::leaf_index_to_pos(*i), other_chain[*i as usize].digest())).collect();
                if foreign.iter().zip(leaves.iter()).any(|(x, y)| x.1.as_slice() != y.1.as_slice()) && matches!(proof.verify(root.clone(), foreign), Ok(true)) {
                    report.violation("proof/foreign-leaf-verifies", format!("{tag}: tip {t}, leaves {set:?}: headers of the sibling fork verify against the main chain's root"), label.clone());
                }
            }
        }
        report.states.insert(fp(&(tag, tip.hash().as_slice().to_vec())));
    }
    if reorgs == 0 && report.violations.is_empty() && !tag.starts_with("interleaving-") {
        return Err(format!("roots universe {tag}: the delivery order contains no reorganisation"));
    }
    report.outcomes.insert(fp(&(tag, reorgs)));
    report.traces += 1;
    report.sample(json!({"family": "roots", "universe": tag, "a": a.len(), "b": b.len(), "reorgs": reorgs, "mmr_size_at_end": leaf_index_to_mmr_size(node.tip().number())}));
    node.shutdown();
    Ok(())
}

/// deliver a block the forge has verified as a tip; a refusal is a violation, not a harness problem
fn deliver(node: &Node, blk: &BlockView, step: &str, label: &Value, report: &mut Report) -> bool {
    match node.process(blk) {
        Ok(_) => true,
        Err(e) => {
            report.violation("root/valid-block-refused", format!("{step}: block {} {} (verified as a tip by the forge) is refused: {e}", blk.number(), blk.hash()), label.clone());
            false
        }
    }
}

/// script hashes a block's filter has to match: outputs and spent inputs (resolved by a plain map
/// over every block of the universe)
fn wanted_hashes(b: &BlockView, outputs: &HashMap<OutPoint, packed::CellOutput>) -> Vec<Byte32> {
    let mut v = vec![];
    let mut add = |o: &packed::CellOutput| {
        v.push(o.calc_lock_hash());
        if let Some(t) = o.type_().to_opt() {
            v.push(t.calc_script_hash());
        }
    };
    for (ti, tx) in b.transactions().iter().enumerate() {
        if ti > 0 {
            for i in tx.input_pts_iter() {
                if let Some(o) = outputs.get(&i) {
                    add(o);
                }
            }
        }
        for o in tx.outputs().into_iter() {
            add(&o);
        }
    }
    v
}

fn check_filters(node: &Node, outputs: &HashMap<OutPoint, packed::CellOutput>, step: &str, label: &Value, report: &mut Report) {
    use golomb_coded_set::{GCSFilterReader, M, P, SipHasher24Builder};
    let store = node.shared.store();
    let main = node.main_chain();
    let mut parent_hash = Byte32::zero();
    for b in &main {
        report.evaluations += 1;
        let (Some(filter), Some(fh)) = (store.get_block_filter(&b.hash()), store.get_block_filter_hash(&b.hash())) else {
            report.violation("filter/missing", format!("{step}: main-chain block {} has no filter although the builder has caught up", b.number()), label.clone());
            return;
        };
        let want_hash = ckb_types::utilities::calc_filter_hash(&parent_hash, &filter);
        if fh.as_slice() != want_hash {
            report.violation("filter/hash-chain-broken", format!("{step}: filter hash of block {} is not blake2b(parent filter hash, hash(filter))", b.number()), label.clone());
        }
        parent_hash = fh;
        let reader = GCSFilterReader::new(SipHasher24Builder::new(0, 0), M, P);
        for h in wanted_hashes(b, outputs) {
            let mut cur = std::io::Cursor::new(filter.raw_data().to_vec());
            let hit = reader.match_any(&mut cur, &mut vec![h.as_slice()].into_iter()).unwrap_or(false);
            if !hit {
                report.violation("filter/script-not-matched", format!("{step}: the filter of main-chain block {} does not match script hash {h} of one of its outputs or spent inputs", b.number()), label.clone());
            } else if b.transactions().len() > 1 {
                report.nontrivial.insert(fp(&(b.hash().as_slice().to_vec(), h.as_slice().to_vec())));
            }
        }
    }
}

fn filters_family(ctx: &Ctx, report: &mut Report) -> Result<(), String> {
    let cons = consensus(&WorldOpts::default());
    set_time(time_for_height(40));
    let mut forge = Forge::new(&ctx.scratch.join("c19-forge-f"), &cons)?;
    let u = c18::build(&mut forge, &cons)?;
    let mut outputs: HashMap<OutPoint, packed::CellOutput> = HashMap::new();
    for b in std::iter::once(cons.genesis_block()).chain(u.a.iter()).chain(u.b.iter()) {
        for tx in b.transactions() {
            for (i, o) in tx.outputs().into_iter().enumerate() {
                outputs.insert(OutPoint::new(tx.hash(), i as u32), o);
            }
        }
    }
    let mut case_no = 0u64;
    for lead in 1..=4usize {
        let mut order: Vec<(String, BlockView)> = vec![];
        for n in 0..lead {
            order.push((format!("a{}", n + 1), u.a[n].clone()));
        }
        for n in 0..(lead + 1).min(u.b.len()) {
            order.push((format!("b{}", n + 1), u.b[n].clone()));
        }
        for n in lead..u.a.len() {
            order.push((format!("a{}", n + 1), u.a[n].clone()));
        }
        // (i)/(ii): the builder runs after every k-th delivery (k = 1: no lag) and at the end
        for lag in 1..=4usize {
            case_no += 1;
            if !ctx.mine(case_no) {
                continue;
            }
            let dir = ctx.scratch.join(format!("c19-filter-{lead}-{lag}"));
            let _ = std::fs::remove_dir_all(&dir);
            let node = Node::boot(&dir, &NodeOpts::new(cons.clone()))?;
            node.wait_startup()?;
            let builder = BlockFilter::new(node.shared.clone());
            let label = json!({"family": "filters", "first_lead": lead, "builder_every": lag});
            let mut trace = vec![];
            for (k, (name, blk)) in order.iter().enumerate() {
                if !deliver(&node, blk, &format!("after {}", trace.join(" ")), &label, report) {
                    break;
                }
                trace.push(name.clone());
                report.transitions += 1;
                if (k + 1) % lag == 0 || k + 1 == order.len() {
                    builder.verif_build_once();
                    check_filters(&node, &outputs, &format!("after {} (builder pass)", trace.join(" ")), &label, report);
                    report.states.insert(fp(&(lead, lag, k)));
                }
            }
            report.traces += 1;
            node.shutdown();
        }
    }
    // (iii): a pass is running while the chain reorganises.  A' = A + 2 empty blocks, B' = B + 2
    // empty blocks.  A'[..d] is delivered without any builder pass; the pass starts; at the gate
    // before block g the first d+1 blocks of B' are processed (B overtakes, A'[..d] is detached
    // while the pass still iterates the old main chain); the pass ends; the rest of A' arrives (A
    // overtakes again) and a final pass lets the builder catch up.
    let mut a2 = u.a.clone();
    let mut b2 = u.b.clone();
    for _ in 0..2 {
        let pa = a2.last().unwrap().hash();
        a2.push(forge.build_on(&pa, &BlockSpec { miner: 1, ..Default::default() })?);
        let pb = b2.last().unwrap().hash();
        b2.push(forge.build_on(&pb, &BlockSpec { miner: 2, ts_offset: 1, ..Default::default() })?);
    }
    for d in 1..=6usize {
        for g in 0..=d as u64 {
            case_no += 1;
            if !ctx.mine(case_no) {
                continue;
            }
            if ctx.out_of_time() {
                report.cap_hit = Some("filters family: wall budget".into());
                return Ok(());
            }
            let dir = ctx.scratch.join(format!("c19-gate-{d}-{g}"));
            let _ = std::fs::remove_dir_all(&dir);
            let node = Arc::new(Node::boot(&dir, &NodeOpts::new(cons.clone()))?);
            node.wait_startup()?;
            let builder = BlockFilter::new(node.shared.clone());
            let label = json!({"family": "filters-gate", "a_blocks_before_the_pass": d, "b_blocks_arriving_during_the_pass": d + 1, "at_gate_before_block": g});
            let mut ok = true;
            for blk in a2.iter().take(d) {
                ok = ok && deliver(&node, blk, "gate family, A before the pass", &label, report);
            }
            let pending: Vec<BlockView> = b2.iter().take(d + 1).cloned().collect();
            let fired = Arc::new(Mutex::new(false));
            {
                let node2 = Arc::clone(&node);
                let fired2 = Arc::clone(&fired);
                ckb_block_filter::filter::verif::set_gate(Some(Box::new(move |n| {
                    let mut f = fired2.lock().unwrap();
                    if n == g && !*f {
                        *f = true;
                        for blk in &pending {
                            let _ = node2.process(blk);
                        }
                    }
                })));
            }
            builder.verif_build_once();
            ckb_block_filter::filter::verif::set_gate(None);
            let did_fire = *fired.lock().unwrap();
            report.transitions += 1;
            if ok && !did_fire {
                return Err(format!("gate before block {g} never reached in a pass over {d} blocks"));
            }
            if ok && node.tip().hash() != b2[d].hash() {
                report.violation("root/valid-block-refused", format!("gate family: b1..b{} did not become the main chain", d + 1), label.clone());
                ok = false;
            }
            // A' overtakes again; the builder catches up
            for blk in a2.iter().skip(d) {
                ok = ok && deliver(&node, blk, "gate family, rest of A", &label, report);
            }
            if ok && node.tip().hash() != a2.last().unwrap().hash() {
                return Err("A' did not overtake again".into());
            }
            if ok {
                builder.verif_build_once();
            }
            let step = format!("a1..a{d} delivered, builder pass started, b1..b{} processed at the gate before block {g} of that pass (reorg), pass finished, a{}..a8 delivered (reorg back), final pass", d + 1, d + 1);
            if ok {
                check_filters(&node, &outputs, &step, &label, report);
            }
            report.states.insert(fp(&("gate", d, g)));
            report.outcomes.insert(fp(&("gate", d)));
            report.traces += 1;
            drop(builder);
            match Arc::try_unwrap(node) {
                Ok(n) => n.shutdown(),
                Err(_) => return Err("node still referenced by the gate".into()),
            }
        }
    }
    Ok(())
}

pub fn meta(_tier: Tier) -> Meta {
    Meta {
        id: "C19",
        level: "model_checking",
        rule: "roots: two universes (flat world: script-bearing branches of 6 and 5 blocks from genesis; dynamic-difficulty world: common block, branch A of 6 fast blocks and branch B of 4 slow ones where B is heavier) - every block of every fork must commit the hash of the root of an in-memory MMR over its ancestors' header digests; blocks are delivered to a real node (thorough: in every interleaving of the two flat branches, 462 orders; always: A then B, B then A, and A-partly / B / rest of A so that the second reorg re-attaches verified blocks) and after every delivery the store-backed MMR root for every height equals the in-memory one, and for the tip every leaf set of size <= 3 (all sets up to 9 leaves, boundary sets beyond) gets a proof that verifies against the committed root, fails against the root committed by the sibling fork at the same height, and does not verify the sibling fork's headers. filters: the real BlockFilter builder on a real node over every first lead 1..4 of the script-bearing universe (two reorganisations): one pass after every k-th delivery (k = 1..4) and, with both branches extended by two empty blocks, for every d = 1..6 and every gate g = 0..d: a1..a_d delivered without a pass, a pass started, b1..b_(d+1) processed at the gate before block g of that pass (the reorg happens while the pass iterates the old main chain), the pass finished, the rest of A delivered (reorg back) and a final pass; after the builder has caught up every main-chain block has a filter that matches every lock / type script hash of its outputs and spent inputs (resolved by a plain map) and filter_hash = blake2b(parent filter hash, hash(filter)) from zero.",
        assumptions: &["the light-client protocol handlers (GetLastStateProof / GetBlocksProof) are not driven; the claim stops at Snapshot::chain_root_mmr they call", "GCS filters have false positives by construction: only 'every required script matches' is judged"],
        bounds: json!({"proof_leaf_sets": "<= 3 leaves", "builder_lags": [1, 2, 3, 4], "gate_positions": "every block number of the pass"}),
    }
}

pub fn run(ctx: &Ctx) -> Report {
    let mut report = Report::new();
    if ctx.replay.is_some() {
        report.outcomes.insert(0);
        report.outcomes.insert(1);
    }
    let mut go = || -> Result<(), String> {
        if ctx.mine(0) {
            let cons = consensus(&WorldOpts::default());
            set_time(time_for_height(40));
            let mut forge = Forge::new(&ctx.scratch.join("c19-forge-r"), &cons)?;
            let u = c18::build(&mut forge, &cons)?;
            roots_family(ctx, "flat", &cons, &u.a[..4], &u.b, None, &mut report)?;
            // B first as well: the reorg goes the other way
            roots_family(ctx, "flat-b-first", &cons, &u.b[..4], &u.a, None, &mut report)?;
            // there and back: a1..a3, b1..b4 (reorg), a4..a6 (reorg back onto already verified blocks)
            let back: Vec<BlockView> = u.a[..3].iter().chain(u.b[..4].iter()).chain(u.a[3..].iter()).cloned().collect();
            roots_family(ctx, "flat-there-and-back", &cons, &u.a, &u.b[..4], Some(back), &mut report)?;
        }
        // thorough: every interleaving of the two flat branches
        if ctx.tier.is_thorough() {
            let cons = consensus(&WorldOpts::default());
            set_time(time_for_height(40));
            let mut forge = Forge::new(&ctx.scratch.join("c19-forge-i"), &cons)?;
            let u = c18::build(&mut forge, &cons)?;
            for (k, o) in crate::props::c01::orders(u.a.len(), u.b.len()).into_iter().enumerate() {
                if !ctx.mine(100 + k as u64) {
                    continue;
                }
                if ctx.out_of_time() {
                    report.cap_hit = Some("roots interleavings: wall budget".into());
                    break;
                }
                let (mut ia, mut ib) = (0, 0);
                let mut order = vec![];
                for take_a in o {
                    if take_a {
                        order.push(u.a[ia].clone());
                        ia += 1;
                    } else {
                        order.push(u.b[ib].clone());
                        ib += 1;
                    }
                }
                roots_family(ctx, &format!("interleaving-{k}"), &cons, &u.a, &u.b, Some(order), &mut report)?;
            }
        }
        if ctx.mine(1) || ctx.shards == 1 {
            let cons = crate::props::c01::dyn_world();
            // A: fast blocks (difficulty doubles from block 4), B: slow blocks (difficulty halves).
            // B is delivered first up to height 7, then A: it overtakes although it is shorter.
            let (a, b) = crate::props::c01::dyn_branches(ctx, &cons, 5, 6)?;
            let order: Vec<BlockView> = std::iter::once(a[0].clone()).chain(b.iter().cloned()).chain(a[1..].iter().cloned()).collect();
            roots_family(ctx, "dyn-shorter-heavier", &cons, &a, &b, Some(order), &mut report)?;
        }
        filters_family(ctx, &mut report)
    };
    if let Err(e) = go() {
        report.machinery_errors.push(e);
    }
    report
}
