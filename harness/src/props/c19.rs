//! C19 — chain-root commitments, proofs and filter hashes match the chain they describe.
//!
//! roots:   for every block of every fork of the universes (flat world with a script-bearing
//!          two-branch universe; dynamic-difficulty world where the shorter branch is heavier)
//!          the root committed in the extension equals an in-memory MMR over the header digests
//!          of its ancestors; after every delivery (reorgs included) the store-backed MMR of the
//!          snapshot gives that root for every main-chain height, and for every tip x every
//!          position set of size <= 3 the generated proof verifies against the committed root and
//!          fails against the root the sibling fork commits at the same height.
//! filters: the real BlockFilter builder runs one pass after every delivery / every k-th delivery
//!          / with a reorg injected at every gate of a pass; once it has caught up every
//!          main-chain block's filter matches every lock and type script of its outputs and of
//!          its spent inputs, and filter hashes chain from the parent's.
use crate::core::*;
use crate::forge::*;
use crate::node::*;
use crate::props::c18;
use crate::world::*;
use ckb_block_filter::filter::BlockFilter;
use ckb_chain_spec::consensus::Consensus;
use ckb_merkle_mountain_range::{MMR, leaf_index_to_mmr_size, util::MemStore};
use ckb_store::ChainStore;
use ckb_types::{
    core::BlockView,
    packed::{self, Byte32, OutPoint},
    prelude::*,
    utilities::merkle_mountain_range::MergeHeaderDigest,
};
use serde_json::{Value, json};
use std::collections::HashMap;
use std::sync::{Arc, Mutex};

type RefMmr<'a> = MMR<packed::HeaderDigest, MergeHeaderDigest, &'a MemStore<packed::HeaderDigest>>;

/// root digest of the in-memory MMR over chain[0..=upto]
fn ref_root(chain: &[BlockView], upto: usize) -> Result<packed::HeaderDigest, String> {
    let store = MemStore::default();
    let mut mmr = RefMmr::new(0, &store);
    for b in &chain[..=upto] {
        mmr.push(b.digest()).map_err(|e| e.to_string())?;
    }
    mmr.get_root().map_err(|e| e.to_string())
}

fn chain_of(tip: &BlockView, by_hash: &HashMap<Byte32, BlockView>) -> Vec<BlockView> {
    let mut v = vec![tip.clone()];
    while v.last().unwrap().number() > 0 {
        let p = by_hash[&v.last().unwrap().parent_hash()].clone();
        v.push(p);
    }
    v.reverse();
    v
}

fn committed_root(b: &BlockView) -> Option<Vec<u8>> {
    b.extension().map(|e| e.raw_data()[..32].to_vec())
}

fn subsets_upto3(n: usize) -> Vec<Vec<u64>> {
    let mut out = vec![];
    for a in 0..n {
        out.push(vec![a as u64]);
        for b in a + 1..n {
            out.push(vec![a as u64, b as u64]);
            for c in b + 1..n {
                out.push(vec![a as u64, b as u64, c as u64]);
            }
        }
    }
    out
}

fn roots_family(ctx: &Ctx, tag: &str, cons: &Consensus, a: &[BlockView], b: &[BlockView], order: Option<Vec<BlockView>>, report: &mut Report) -> Result<(), String> {
    let mut by_hash: HashMap<Byte32, BlockView> = HashMap::new();
    by_hash.insert(cons.genesis_hash(), cons.genesis_block().clone());
    for x in a.iter().chain(b.iter()) {
        by_hash.insert(x.hash(), x.clone());
    }
    let label = json!({"family": "roots", "universe": tag});
    // (1) every block on every fork commits the reference root of its ancestors
    for x in a.iter().chain(b.iter()) {
        let chain = chain_of(x, &by_hash);
        let n = chain.len() - 1;
        let want = ref_root(&chain, n - 1)?.calc_mmr_hash();
        report.evaluations += 1;
        match committed_root(x) {
            Some(got) if got == want.as_slice() => {}
            other => report.violation("root/committed-differs", format!("{tag}: block {} {} commits {:?}, the MMR over its {} ancestors has root hash {}", x.number(), x.hash(), other.map(|v| v.iter().map(|b| format!("{b:02x}")).collect::<String>()), n, want), label.clone()),
        }
    }
    // (2) deliveries: A first, then B (the reorg), then nothing; after every delivery the snapshot's MMR
    let dir = ctx.scratch.join(format!("c19-roots-{tag}"));
    let _ = std::fs::remove_dir_all(&dir);
    let node = Node::boot(&dir, &NodeOpts::new(cons.clone()))?;
    node.wait_startup()?;
    let order: Vec<BlockView> = order.unwrap_or_else(|| a.iter().chain(b.iter()).cloned().collect());
    let mut reorgs = 0;
    let mut prev_tip = cons.genesis_hash();
    // readers that still hold a snapshot from before later deliveries (the block assembler, a
    // light-client request in progress, RPC): each held snapshot must keep answering for ITS chain,
    // and its reads must not disturb what newer snapshots answer
    let mut held: Vec<(std::sync::Arc<ckb_snapshot::Snapshot>, Vec<BlockView>)> = vec![];
    for blk in order.iter() {
        if let Err(e) = node.process(blk) {
            report.violation("root/valid-block-refused", format!("{tag}: block {} {} (verified as a tip by the forge) is refused: {e}", blk.number(), blk.hash()), label.clone());
            break;
        }
        let main = node.main_chain();
        let tip = main.last().unwrap().clone();
        if tip.parent_hash() != prev_tip && tip.hash() != prev_tip {
            reorgs += 1;
        }
        prev_tip = tip.hash();
        report.transitions += 1;
        // (a) every held snapshot is read first (roots at every height of its own chain) ...
        for (hs, hmain) in &held {
            let ht = hs.tip_number();
            for n in 0..ht {
                let got = hs.chain_root_mmr(n).get_root().map_err(|e| e.to_string())?;
                let want = ref_root(hmain, n as usize)?;
                report.evaluations += 1;
                if got.as_slice() != want.as_slice() {
                    report.violation("root/held-snapshot-differs", format!("{tag}: a snapshot taken at tip {ht} ({}) and read after the tip moved to {}: chain_root_mmr({n}).get_root() differs from the MMR over ITS chain's blocks 0..={n}", hs.tip_hash(), tip.number()), label.clone());
                }
            }
        }
        // (b) ... then the current one
        let snap = node.shared.snapshot();
        held.push((std::sync::Arc::clone(&snap), main.clone()));
        if held.len() > 4 {
            held.remove(0);
        }
        let t = tip.number();
        // store-backed root for every height
        for n in 0..t {
            let got = snap.chain_root_mmr(n).get_root().map_err(|e| e.to_string())?;
            let want = ref_root(&main, n as usize)?;
            report.evaluations += 1;
            if got.as_slice() != want.as_slice() {
                report.violation("root/store-mmr-differs", format!("{tag}: tip {t}: chain_root_mmr({n}).get_root() differs from the in-memory MMR over main-chain blocks 0..={n}"), label.clone());
            }
        }
        if t < 2 {
            continue;
        }
        // proofs for the tip: leaves = ancestors 0..t-1, root = what the tip commits
        let leaves_n = t as usize; // positions 0..t-1
        let root = ref_root(&main, leaves_n - 1)?;
        let sets = if leaves_n <= 9 { subsets_upto3(leaves_n) } else { subsets_upto3(leaves_n).into_iter().filter(|s| s.iter().all(|x| *x < 3 || *x + 3 >= leaves_n as u64)).collect() };
        // the sibling fork's block at the same height (if any) commits another root
        let sibling = a.iter().chain(b.iter()).find(|x| x.number() == t && x.hash() != tip.hash());
        let sibling_root = match sibling {
            Some(s) => {
                let c = chain_of(s, &by_hash);
                Some(ref_root(&c, c.len() - 2)?)
            }
            None => None,
        };
        for set in sets {
            let mmr = snap.chain_root_mmr(t - 1);
            let positions: Vec<u64> = set.iter().map(|i| ckb_merkle_mountain_range::leaf_index_to_pos(*i)).collect();
            let proof = match mmr.gen_proof(positions.clone()) {
                Ok(p) => p,
                Err(e) => {
                    report.violation("proof/gen-failed", format!("{tag}: tip {t}, leaves {set:?}: {e}"), label.clone());
                    continue;
                }
            };
            let leaves: Vec<(u64, packed::HeaderDigest)> = set.iter().map(|i| (ckb_merkle_mountain_range::leaf_index_to_pos(*i), main[*i as usize].digest())).collect();
            report.evaluations += 1;
            match proof.verify(root.clone(), leaves.clone()) {
                Ok(true) => {
                    report.nontrivial.insert(fp(&(tag, t, &set)));
                }
                other => report.violation("proof/does-not-verify", format!("{tag}: tip {t}, leaves {set:?}: verify against the committed root = {other:?}"), label.clone()),
            }
            if let Some(sr) = &sibling_root {
                if sr.as_slice() != root.as_slice() && matches!(proof.verify(sr.clone(), leaves.clone()), Ok(true)) {
                    // a proof of leaves both forks share legitimately differs only through the root;
                    // it must not verify against a different root
                    report.violation("proof/verifies-against-other-fork", format!("{tag}: tip {t}, leaves {set:?}: the proof also verifies against the root committed by the sibling fork's block {t}"), label.clone());
                }
                // and a leaf of the other fork must not be provable
                let other_chain = chain_of(sibling.unwrap(), &by_hash);
                let foreign: Vec<(u64, packed::HeaderDigest)> = set.iter().map(|i| (ckb_merkle_mountain_range::leaf_index_to_pos(*i), other_chain[*i as usize].digest())).collect();
                if foreign.iter().zip(leaves.iter()).any(|(x, y)| x.1.as_slice() != y.1.as_slice()) && matches!(proof.verify(root.clone(), foreign), Ok(true)) {
                    report.violation("proof/foreign-leaf-verifies", format!("{tag}: tip {t}, leaves {set:?}: headers of the sibling fork verify against the main chain's root"), label.clone());
                }
            }
        }
        report.states.insert(fp(&(tag, tip.hash().as_slice().to_vec())));
    }
    if reorgs == 0 && report.violations.is_empty() && !tag.starts_with("interleaving-") {
        return Err(format!("roots universe {tag}: the delivery order contains no reorganisation"));
    }
    report.outcomes.insert(fp(&(tag, reorgs)));
    report.traces += 1;
    report.sample(json!({"family": "roots", "universe": tag, "a": a.len(), "b": b.len(), "reorgs": reorgs, "mmr_size_at_end": leaf_index_to_mmr_size(node.tip().number())}));
    node.shutdown();
    Ok(())
}

/// deliver a block the forge has verified as a tip; a refusal is a violation, not a harness problem
fn deliver(node: &Node, blk: &BlockView, step: &str, label: &Value, report: &mut Report) -> bool {
    match node.process(blk) {
        Ok(_) => true,
        Err(e) => {
            report.violation("root/valid-block-refused", format!("{step}: block {} {} (verified as a tip by the forge) is refused: {e}", blk.number(), blk.hash()), label.clone());
            false
        }
    }
}

/// script hashes a block's filter has to match: outputs and spent inputs (resolved by a plain map
/// over every block of the universe)
fn wanted_hashes(b: &BlockView, outputs: &HashMap<OutPoint, packed::CellOutput>) -> Vec<Byte32> {
    let mut v = vec![];
    let mut add = |o: &packed::CellOutput| {
        v.push(o.calc_lock_hash());
        if let Some(t) = o.type_().to_opt() {
            v.push(t.calc_script_hash());
        }
    };
    for (ti, tx) in b.transactions().iter().enumerate() {
        if ti > 0 {
            for i in tx.input_pts_iter() {
                if let Some(o) = outputs.get(&i) {
                    add(o);
                }
            }
        }
        for o in tx.outputs().into_iter() {
            add(&o);
        }
    }
    v
}

fn check_filters(node: &Node, outputs: &HashMap<OutPoint, packed::CellOutput>, step: &str, label: &Value, report: &mut Report) {
    use golomb_coded_set::{GCSFilterReader, M, P, SipHasher24Builder};
    let store = node.shared.store();
    let main = node.main_chain();
    let mut parent_hash = Byte32::zero();
    for b in &main {
        report.evaluations += 1;
        let (Some(filter), Some(fh)) = (store.get_block_filter(&b.hash()), store.get_block_filter_hash(&b.hash())) else {
            report.violation("filter/missing", format!("{step}: main-chain block {} has no filter although the builder has caught up", b.number()), label.clone());
            return;
        };
        let want_hash = ckb_types::utilities::calc_filter_hash(&parent_hash, &filter);
        if fh.as_slice() != want_hash {
            report.violation("filter/hash-chain-broken", format!("{step}: filter hash of block {} is not blake2b(parent filter hash, hash(filter))", b.number()), label.clone());
        }
        parent_hash = fh;
        let reader = GCSFilterReader::new(SipHasher24Builder::new(0, 0), M, P);
        for h in wanted_hashes(b, outputs) {
            let mut cur = std::io::Cursor::new(filter.raw_data().to_vec());
            let hit = reader.match_any(&mut cur, &mut vec![h.as_slice()].into_iter()).unwrap_or(false);
            if !hit {
                report.violation("filter/script-not-matched", format!("{step}: the filter of main-chain block {} does not match script hash {h} of one of its outputs or spent inputs", b.number()), label.clone());
            } else if b.transactions().len() > 1 {
                report.nontrivial.insert(fp(&(b.hash().as_slice().to_vec(), h.as_slice().to_vec())));
            }
        }
    }
}

fn filters_family(ctx: &Ctx, report: &mut Report) -> Result<(), String> {
    let cons = consensus(&WorldOpts::default());
    set_time(time_for_height(40));
    let mut forge = Forge::new(&ctx.scratch.join("c19-forge-f"), &cons)?;
    let u = c18::build(&mut forge, &cons)?;
    let mut outputs: HashMap<OutPoint, packed::CellOutput> = HashMap::new();
    for b in std::iter::once(cons.genesis_block()).chain(u.a.iter()).chain(u.b.iter()) {
        for tx in b.transactions() {
            for (i, o) in tx.outputs().into_iter().enumerate() {
                outputs.insert(OutPoint::new(tx.hash(), i as u32), o);
            }
        }
    }
    let mut case_no = 0u64;
    for lead in 1..=4usize {
        let mut order: Vec<(String, BlockView)> = vec![];
        for n in 0..lead {
            order.push((format!("a{}", n + 1), u.a[n].clone()));
        }
        for n in 0..(lead + 1).min(u.b.len()) {
            order.push((format!("b{}", n + 1), u.b[n].clone()));
        }
        for n in lead..u.a.len() {
            order.push((format!("a{}", n + 1), u.a[n].clone()));
        }
        // (i)/(ii): the builder runs after every k-th delivery (k = 1: no lag) and at the end
        for lag in 1..=4usize {
            case_no += 1;
            if !ctx.mine(case_no) {
                continue;
            }
            let dir = ctx.scratch.join(format!("c19-filter-{lead}-{lag}"));
            let _ = std::fs::remove_dir_all(&dir);
            let node = Node::boot(&dir, &NodeOpts::new(cons.clone()))?;
            node.wait_startup()?;
            let builder = BlockFilter::new(node.shared.clone());
            let label = json!({"family": "filters", "first_lead": lead, "builder_every": lag});
            let mut trace = vec![];
            for (k, (name, blk)) in order.iter().enumerate() {
                if !deliver(&node, blk, &format!("after {}", trace.join(" ")), &label, report) {
                    break;
                }
                trace.push(name.clone());
                report.transitions += 1;
                if (k + 1) % lag == 0 || k + 1 == order.len() {
                    builder.verif_build_once();
                    check_filters(&node, &outputs, &format!("after {} (builder pass)", trace.join(" ")), &label, report);
                    report.states.insert(fp(&(lead, lag, k)));
                }
            }
            report.traces += 1;
            node.shutdown();
        }
    }
    // (iii): a pass is running while the chain reorganises.  A' = A + 2 empty blocks, B' = B + 2
    // empty blocks.  A'[..d] is delivered without any builder pass; the pass starts; at the gate
    // before block g the first d+1 blocks of B' are processed (B overtakes, A'[..d] is detached
    // while the pass still iterates the old main chain); the pass ends; the rest of A' arrives (A
    // overtakes again) and a final pass lets the builder catch up.
    let mut a2 = u.a.clone();
    let mut b2 = u.b.clone();
    for _ in 0..2 {
        let pa = a2.last().unwrap().hash();
        a2.push(forge.build_on(&pa, &BlockSpec { miner: 1, ..Default::default() })?);
        let pb = b2.last().unwrap().hash();
        b2.push(forge.build_on(&pb, &BlockSpec { miner: 2, ts_offset: 1, ..Default::default() })?);
    }
    for d in 1..=6usize {
        for g in 0..=d as u64 {
            case_no += 1;
            if !ctx.mine(case_no) {
                continue;
            }
            if ctx.out_of_time() {
                report.cap_hit = Some("filters family: wall budget".into());
                return Ok(());
            }
            let dir = ctx.scratch.join(format!("c19-gate-{d}-{g}"));
            let _ = std::fs::remove_dir_all(&dir);
            let node = Arc::new(Node::boot(&dir, &NodeOpts::new(cons.clone()))?);
            node.wait_startup()?;
            let builder = BlockFilter::new(node.shared.clone());
            let label = json!({"family": "filters-gate", "a_blocks_before_the_pass": d, "b_blocks_arriving_during_the_pass": d + 1, "at_gate_before_block": g});
            let mut ok = true;
            for blk in a2.iter().take(d) {
                ok = ok && deliver(&node, blk, "gate family, A before the pass", &label, report);
            }
            let pending: Vec<BlockView> = b2.iter().take(d + 1).cloned().collect();
            let fired = Arc::new(Mutex::new(false));
            {
                let node2 = Arc::clone(&node);
                let fired2 = Arc::clone(&fired);
                ckb_block_filter::filter::verif::set_gate(Some(Box::new(move |n| {
                    let mut f = fired2.lock().unwrap();
                    if n == g && !*f {
                        *f = true;
                        for blk in &pending {
                            let _ = node2.process(blk);
                        }
                    }
                })));
            }
            builder.verif_build_once();
            ckb_block_filter::filter::verif::set_gate(None);
            let did_fire = *fired.lock().unwrap();
            report.transitions += 1;
            if ok && !did_fire {
                return Err(format!("gate before block {g} never reached in a pass over {d} blocks"));
            }
            if ok && node.tip().hash() != b2[d].hash() {
                report.violation("root/valid-block-refused", format!("gate family: b1..b{} did not become the main chain", d + 1), label.clone());
                ok = false;
            }
            // A' overtakes again; the builder catches up
            for blk in a2.iter().skip(d) {
                ok = ok && deliver(&node, blk, "gate family, rest of A", &label, report);
            }
            if ok && node.tip().hash() != a2.last().unwrap().hash() {
                return Err("A' did not overtake again".into());
            }
            if ok {
                builder.verif_build_once();
            }
            let step = format!("a1..a{d} delivered, builder pass started, b1..b{} processed at the gate before block {g} of that pass (reorg), pass finished, a{}..a8 delivered (reorg back), final pass", d + 1, d + 1);
            if ok {
                check_filters(&node, &outputs, &step, &label, report);
            }
            report.states.insert(fp(&("gate", d, g)));
            report.outcomes.insert(fp(&("gate", d)));
            report.traces += 1;
            drop(builder);
            match Arc::try_unwrap(node) {
                Ok(n) => n.shutdown(),
                Err(_) => return Err("node still referenced by the gate".into()),
            }
        }
    }
    Ok(())
}


// ---------------------------------------------------------------------------------------
// light-client sessions: the production handlers that SERVE roots and proofs

/// One request to `LightClientProtocol::received`; Ok(reply) or Err(()) when the handler panicked
fn lc_ask(node: &Node, proto: &mut ckb_light_client_protocol_server::LightClientProtocol, content: impl Into<packed::LightClientMessageUnion>) -> Result<Option<packed::LightClientMessage>, ()> {
    use ckb_network::CKBProtocolHandler;
    let msg = packed::LightClientMessage::new_builder().set(content).build();
    let nc = Arc::new(crate::props::c16::MockNc { sent: Default::default(), banned: Default::default() });
    let nc2: Arc<dyn ckb_network::CKBProtocolContext + Sync> = nc.clone();
    let handle = node.shared.async_handle().clone();
    let res = std::panic::catch_unwind(std::panic::AssertUnwindSafe(|| handle.block_on(proto.received(nc2, 1usize.into(), msg.as_bytes()))));
    if res.is_err() {
        return Err(());
    }
    let sent = nc.sent.lock().unwrap();
    Ok(sent.last().and_then(|(_, d)| packed::LightClientMessage::from_compatible_slice(d).ok()))
}

struct LcView<'a> {
    tag: &'a str,
    main: &'a [BlockView],
    by_hash: &'a HashMap<Byte32, BlockView>,
    all: Vec<&'a BlockView>,
}

impl<'a> LcView<'a> {
    /// the last header of a reply must be a verifiable header of `want` whose parent chain root is the
    /// reference root over want's ancestors; returns that root
    fn check_last(&self, vh: &packed::VerifiableHeader, want: &BlockView, what: &str, label: &Value, report: &mut Report) -> Option<packed::HeaderDigest> {
        report.evaluations += 1;
        if vh.header().as_slice() != want.data().header().as_slice() {
            report.violation("light-client/last-header", format!("{}: {what}: the reply's last header is block {} {}, expected block {} {}", self.tag, vh.header().into_view().number(), vh.header().into_view().hash(), want.number(), want.hash()), label.clone());
            return None;
        }
        let v: ckb_types::utilities::merkle_mountain_range::VerifiableHeader = vh.clone().into();
        if !v.is_valid(0) {
            report.violation("light-client/last-header-not-verifiable", format!("{}: {what}: uncles hash / extension / parent chain root of the reply's last header do not match what the header commits to", self.tag), label.clone());
            return None;
        }
        let n = want.number() as usize;
        if n == 0 {
            return Some(Default::default());
        }
        let chain = chain_of(want, self.by_hash);
        let root = ref_root(&chain, n - 1).ok()?;
        if vh.parent_chain_root().as_slice() != root.as_slice() {
            report.violation("light-client/parent-chain-root", format!("{}: {what}: the parent chain root served with block {} is not the MMR root over its {} ancestors", self.tag, want.number(), n), label.clone());
            return None;
        }
        Some(root)
    }

    /// the served proof proves `headers` (ancestors of `last` on its own chain) against `root`, and
    /// against no other fork's root
    fn check_proof(&self, last: &BlockView, root: &packed::HeaderDigest, proof: packed::HeaderDigestVec, headers: &[ckb_types::core::HeaderView], what: &str, label: &Value, report: &mut Report) {
        use ckb_merkle_mountain_range::{MerkleProof, leaf_index_to_mmr_size, leaf_index_to_pos};
        report.evaluations += 1;
        let chain = chain_of(last, self.by_hash);
        let l = last.number();
        for h in headers {
            if h.number() >= l || chain[h.number() as usize].hash() != h.hash() {
                report.violation("light-client/proved-header-not-an-ancestor", format!("{}: {what}: header {} {} is served as proved but is not an ancestor of the last block {} {}", self.tag, h.number(), h.hash(), l, last.hash()), label.clone());
                return;
            }
        }
        if headers.is_empty() {
            return;
        }
        let items: Vec<packed::HeaderDigest> = proof.into_iter().collect();
        let mk = || MerkleProof::<packed::HeaderDigest, MergeHeaderDigest>::new(leaf_index_to_mmr_size(l - 1), items.clone());
        let leaves: Vec<(u64, packed::HeaderDigest)> = headers.iter().map(|h| (leaf_index_to_pos(h.number()), h.digest())).collect();
        match mk().verify(root.clone(), leaves.clone()) {
            Ok(true) => {
                report.nontrivial.insert(fp(&(self.tag, last.hash().as_slice().to_vec(), headers.iter().map(|h| h.number()).collect::<Vec<_>>())));
            }
            other => {
                report.violation("light-client/proof-does-not-verify", format!("{}: {what}: the served proof for headers {:?} under last block {} does not verify against the committed root: {other:?}", self.tag, headers.iter().map(|h| h.number()).collect::<Vec<_>>(), l), label.clone());
                return;
            }
        }
        // no other fork: a block of the same height on another fork commits another root
        for s in self.all.iter().filter(|x| x.number() == l && x.hash() != last.hash()) {
            let c = chain_of(s, self.by_hash);
            if let Ok(sr) = ref_root(&c, c.len() - 2) {
                if sr.as_slice() != root.as_slice() && matches!(mk().verify(sr, leaves.clone()), Ok(true)) {
                    report.violation("light-client/proof-verifies-against-other-fork", format!("{}: {what}: the served proof also verifies against the root committed by the sibling block {}", self.tag, s.hash()), label.clone());
                }
            }
        }
    }
}

/// The handlers of the light-client protocol server (`LightClientProtocol::received` with a recording
/// context) are asked, after every delivery of a history with two reorganisations, for
/// - GetBlocksProof: every last block (every main-chain block incl. genesis, a side-branch block, an
///   unknown hash) x block-hash lists (every single main-chain block, neighbouring pairs, a
///   side-branch block, an unknown hash, mixtures),
/// - GetLastStateProof: every last block x every start number (with the main chain's hash at that
///   number, or a side-branch hash: the client was on another fork) x last_n in {0, 1, 3, 100} x
///   difficulty boundaries at and between the total difficulties of the chain x sample lists,
/// - GetTransactionsProof: every last block x every transaction of the universe (main chain, side
///   branch only, unknown).
/// A handler must not panic.  Whatever it replies must be sound: the last header is the verifiable
/// header of the requested block (or of the tip when the request names a block off the main chain)
/// with the reference root over its ancestors; every header served as proved is an ancestor of that
/// block; the proof verifies against the committed root and against no sibling fork's root; a
/// transaction served as proved is in the block named, under its transactions root.
fn lc_family(ctx: &Ctx, report: &mut Report, variant: usize) -> Result<(), String> {
    use ckb_light_client_protocol_server::LightClientProtocol;
    let cons = consensus(&WorldOpts::default());
    set_time(time_for_height(40));
    let mut forge = Forge::new(&ctx.scratch.join(format!("c19-forge-lc-{variant}")), &cons)?;
    let u = c18::build(&mut forge, &cons)?;
    let mut by_hash: HashMap<Byte32, BlockView> = HashMap::new();
    by_hash.insert(cons.genesis_hash(), cons.genesis_block().clone());
    for x in u.a.iter().chain(u.b.iter()) {
        by_hash.insert(x.hash(), x.clone());
    }
    let dir = ctx.scratch.join(format!("c19-lc-{variant}"));
    let _ = std::fs::remove_dir_all(&dir);
    let node = Node::boot(&dir, &NodeOpts::new(cons.clone()))?;
    node.wait_startup()?;
    let mut proto = LightClientProtocol::new(node.shared.clone());
    // variant 0: there and back (a1..a3, b1..b4, a4..); thorough adds: B first then A overtakes and B
    // again; a late fork (a1..a5, then all of B, then a6)
    let order: Vec<BlockView> = match variant {
        0 => u.a[..3].iter().chain(u.b[..4].iter()).chain(u.a[3..].iter()).cloned().collect(),
        1 => u.b[..2].iter().chain(u.a[..3].iter()).chain(u.b[2..].iter()).chain(u.a[3..].iter()).cloned().collect(),
        _ => u.a[..5].iter().chain(u.b.iter()).chain(u.a[5..].iter()).cloned().collect(),
    };
    let unknown = Byte32::new([0x5A; 32]);
    let label = json!({"family": "light-client"});
    let mut asked = 0u64;
    let mut replies = 0u64;
    let thorough = ctx.tier.is_thorough();
    for (step, blk) in order.iter().enumerate() {
        if !deliver(&node, blk, "light-client family", &label, report) {
            break;
        }
        report.transitions += 1;
        // quick: the request grid after the first reorganisation, after the second and at the end
        if !thorough && ![5usize, 6, 7, order.len() - 1].contains(&step) {
            continue;
        }
        if ctx.out_of_time() {
            report.cap_hit = Some("light-client family: wall budget".into());
            break;
        }
        let main = node.main_chain();
        let tip = main.last().unwrap().clone();
        let side: Vec<&BlockView> = u.a.iter().chain(u.b.iter()).filter(|x| main.get(x.number() as usize).map(|m| m.hash() != x.hash()).unwrap_or(true) && by_hash.contains_key(&x.hash()) && node.shared.store().get_block_header(&x.hash()).is_some()).collect();
        let view = LcView { tag: "light-client", main: &main, by_hash: &by_hash, all: u.a.iter().chain(u.b.iter()).collect() };
        let lasts: Vec<Byte32> = main.iter().map(|b| b.hash()).chain(side.first().map(|b| b.hash())).chain(std::iter::once(unknown.clone())).collect();
        let on_main = |h: &Byte32| main.iter().find(|b| &b.hash() == h);
        // ------------------------------------------------------------ GetBlocksProof
        let mut lists: Vec<Vec<Byte32>> = vec![];
        for (i, b) in main.iter().enumerate() {
            lists.push(vec![b.hash()]);
            if i + 1 < main.len() {
                lists.push(vec![b.hash(), main[i + 1].hash()]);
            }
        }
        if let Some(s) = side.first() {
            lists.push(vec![s.hash()]);
            lists.push(vec![main[1].hash(), s.hash()]);
        }
        lists.push(vec![unknown.clone()]);
        lists.push(vec![main[0].hash(), unknown.clone(), main[1].hash()]);
        for last in &lasts {
            for list in &lists {
                let what = format!("after delivery {step}: GetBlocksProof(last = {}, blocks = {:?})", on_main(last).map(|b| format!("main#{}", b.number())).unwrap_or_else(|| last.to_string()), list.iter().map(|h| on_main(h).map(|b| format!("main#{}", b.number())).unwrap_or_else(|| "off-main".into())).collect::<Vec<_>>());
                let req = packed::GetBlocksProof::new_builder().last_hash(last.clone()).block_hashes(list.clone().pack()).build();
                asked += 1;
                let reply = match lc_ask(&node, &mut proto, req) {
                    Err(()) => {
                        report.violation("light-client/handler-panic", format!("{what}: LightClientProtocol::received panicked"), label.clone());
                        continue;
                    }
                    Ok(None) => continue,
                    Ok(Some(r)) => r,
                };
                replies += 1;
                match reply.to_enum() {
                    // (the V1 reply travels as a SendBlocksProof with two extra fields)
                    packed::LightClientMessageUnion::SendBlocksProof(r0) if r0.has_extra_fields() => {
                        let Ok(r) = packed::SendBlocksProofV1::from_compatible_slice(r0.as_slice()) else {
                            report.violation("light-client/unexpected-reply", format!("{what}: the reply has extra fields but is no SendBlocksProofV1"), label.clone());
                            continue;
                        };
                        let Some(lb) = on_main(last) else {
                            report.violation("light-client/proof-for-a-block-off-the-main-chain", format!("{what}: a proof is served although the last hash is not on the main chain"), label.clone());
                            continue;
                        };
                        let Some(root) = view.check_last(&r.last_header(), lb, &what, &label, report) else { continue };
                        let headers: Vec<ckb_types::core::HeaderView> = r.headers().into_iter().map(|h| h.into_view()).collect();
                        // proved = the requested hashes on the main chain, missing = the others
                        let want_found: Vec<Byte32> = list.iter().filter(|h| on_main(h).is_some()).cloned().collect();
                        let want_missing: Vec<Byte32> = list.iter().filter(|h| on_main(h).is_none()).cloned().collect();
                        if headers.iter().map(|h| h.hash()).collect::<Vec<_>>() != want_found || r.missing_block_hashes().into_iter().collect::<Vec<_>>() != want_missing {
                            report.violation("light-client/found-missing-split", format!("{what}: proved headers {:?}, missing {} hashes; on the main chain are {} of the requested", headers.iter().map(|h| h.number()).collect::<Vec<_>>(), r.missing_block_hashes().len(), want_found.len()), label.clone());
                        }
                        for (k, h) in headers.iter().enumerate() {
                            let b = &by_hash[&h.hash()];
                            if r.blocks_uncles_hash().get(k).map(|x| x.as_slice().to_vec()) != Some(b.calc_uncles_hash().as_slice().to_vec()) || r.blocks_extension().get(k).and_then(|e| e.to_opt()).map(|e| e.raw_data()) != b.extension().map(|e| e.raw_data()) {
                                report.violation("light-client/uncles-hash-or-extension", format!("{what}: uncles hash / extension served for block {} are not the block's", h.number()), label.clone());
                            }
                        }
                        view.check_proof(lb, &root, r.proof(), &headers, &what, &label, report);
                    }
                    packed::LightClientMessageUnion::SendBlocksProof(r) => {
                        // the tip state: only for a last hash off the main chain
                        if on_main(last).is_some() {
                            report.violation("light-client/tip-state-for-a-main-chain-block", format!("{what}: answered with the tip state"), label.clone());
                        }
                        view.check_last(&r.last_header(), &tip, &what, &label, report);
                        if !r.headers().is_empty() || !r.proof().is_empty() {
                            report.violation("light-client/tip-state-with-proof", format!("{what}: the tip state carries headers or a proof"), label.clone());
                        }
                    }
                    other => report.violation("light-client/unexpected-reply", format!("{what}: answered with {}", other.item_name()), label.clone()),
                }
            }
        }
        // ------------------------------------------------------------ GetLastStateProof
        let td: Vec<ckb_types::U256> = main.iter().map(|b| node.shared.store().get_block_ext(&b.hash()).map(|e| e.total_difficulty).unwrap_or_default()).collect();
        let one = ckb_types::U256::from(1u64);
        for last in &lasts {
            let l = on_main(last).map(|b| b.number() as usize).unwrap_or(main.len() - 1);
            // (start numbers above the last block and huge counts are what a hostile or confused client sends)
            let start_numbers: Vec<u64> = (0..=l as u64).chain([l as u64 + 1, l as u64 + 7, u64::MAX]).collect();
            for s64 in start_numbers {
                let s = (s64.min(l as u64)) as usize;
                let mut starts = vec![main[s].hash()];
                if let Some(x) = side.iter().find(|x| x.number() as usize == s) {
                    starts.push(x.hash());
                }
                for start_hash in starts {
                    for last_n in [0u64, 1, 3, 100, 1 << 62, u64::MAX] {
                        // huge counts are combined with start 0 and with the out-of-range starts only
                        if last_n > 100 && s64 != 0 && s64 <= l as u64 {
                            continue;
                        }
                        if s64 > l as u64 && last_n == 3 {
                            continue;
                        }
                        // boundaries: the total difficulty of every second block from the start on, one above the
                        // last block's, and one in between two blocks
                        let mut bounds: Vec<ckb_types::U256> = (s..=l).step_by(2).map(|k| td[k].clone()).collect();
                        bounds.push(td[l].clone() + one.clone());
                        bounds.push(td[s].clone() + one.clone());
                        for boundary in bounds {
                            let mut samples: Vec<Vec<ckb_types::U256>> = vec![vec![]];
                            if s + 2 <= l {
                                samples.push(vec![td[s].clone() + one.clone()]);
                                samples.push(vec![td[s].clone(), td[s + 1].clone() + one.clone()]);
                            }
                            for diffs in samples {
                                let what = format!("after delivery {step}: GetLastStateProof(last = {}, start = #{s64}{}, last_n = {last_n}, boundary = {boundary:#x}, samples = {})", on_main(last).map(|b| format!("main#{}", b.number())).unwrap_or_else(|| "off-main".into()), if start_hash == main[s].hash() { "" } else { " (side-branch hash)" }, diffs.len());
                                let req = packed::GetLastStateProof::new_builder()
                                    .last_hash(last.clone())
                                    .start_hash(start_hash.clone())
                                    .start_number(s64)
                                    .last_n_blocks(last_n)
                                    .difficulty_boundary(Pack::pack(&boundary))
                                    .difficulties(diffs.iter().map(|d| Pack::pack(d)).collect::<Vec<packed::Uint256>>().pack())
                                    .build();
                                asked += 1;
                                let reply = match lc_ask(&node, &mut proto, req) {
                                    Err(()) => {
                                        report.violation("light-client/handler-panic", format!("{what}: LightClientProtocol::received panicked"), label.clone());
                                        continue;
                                    }
                                    Ok(None) => continue,
                                    Ok(Some(r)) => r,
                                };
                                replies += 1;
                                let packed::LightClientMessageUnion::SendLastStateProof(r) = reply.to_enum() else {
                                    report.violation("light-client/unexpected-reply", format!("{what}: answered with another message"), label.clone());
                                    continue;
                                };
                                let Some(lb) = on_main(last) else {
                                    view.check_last(&r.last_header(), &tip, &what, &label, report);
                                    if !r.headers().is_empty() || !r.proof().is_empty() {
                                        report.violation("light-client/tip-state-with-proof", format!("{what}: the tip state carries headers or a proof"), label.clone());
                                    }
                                    continue;
                                };
                                let Some(root) = view.check_last(&r.last_header(), lb, &what, &label, report) else { continue };
                                let mut headers = vec![];
                                let mut sound = true;
                                for vh in r.headers().into_iter() {
                                    let h = vh.header().into_view();
                                    match by_hash.get(&h.hash()) {
                                        Some(b) => {
                                            if view.check_last(&vh, b, &format!("{what}: sampled header {}", h.number()), &label, report).is_none() {
                                                sound = false;
                                            }
                                        }
                                        None => {
                                            report.violation("light-client/unknown-header-served", format!("{what}: a header that is no block of the universe is served"), label.clone());
                                            sound = false;
                                        }
                                    }
                                    headers.push(h);
                                }
                                if sound {
                                    view.check_proof(lb, &root, r.proof(), &headers, &what, &label, report);
                                }
                            }
                        }
                    }
                }
            }
        }
        // ------------------------------------------------------------ GetTransactionsProof
        let mut txs: Vec<(Byte32, Option<usize>)> = vec![];
        for b in u.a.iter().chain(u.b.iter()) {
            for t in b.transactions().iter().skip(1) {
                let at = main.iter().position(|m| m.transactions().iter().any(|x| x.hash() == t.hash()));
                if !txs.iter().any(|x| x.0 == t.hash()) {
                    txs.push((t.hash(), at));
                }
            }
        }
        txs.push((unknown.clone(), None));
        let mut tx_lists: Vec<Vec<Byte32>> = txs.iter().map(|t| vec![t.0.clone()]).collect();
        tx_lists.push(txs.iter().map(|t| t.0.clone()).collect());
        for last in &lasts {
            for list in &tx_lists {
                let what = format!("after delivery {step}: GetTransactionsProof(last = {}, {} transactions)", on_main(last).map(|b| format!("main#{}", b.number())).unwrap_or_else(|| "off-main".into()), list.len());
                let req = packed::GetTransactionsProof::new_builder().last_hash(last.clone()).tx_hashes(list.clone().pack()).build();
                asked += 1;
                let reply = match lc_ask(&node, &mut proto, req) {
                    Err(()) => {
                        report.violation("light-client/handler-panic", format!("{what}: LightClientProtocol::received panicked"), label.clone());
                        continue;
                    }
                    Ok(None) => continue,
                    Ok(Some(r)) => r,
                };
                replies += 1;
                match reply.to_enum() {
                    packed::LightClientMessageUnion::SendTransactionsProof(r0) if r0.has_extra_fields() => {
                        let Ok(r) = packed::SendTransactionsProofV1::from_compatible_slice(r0.as_slice()) else {
                            report.violation("light-client/unexpected-reply", format!("{what}: the reply has extra fields but is no SendTransactionsProofV1"), label.clone());
                            continue;
                        };
                        let Some(lb) = on_main(last) else {
                            report.violation("light-client/proof-for-a-block-off-the-main-chain", format!("{what}: a proof is served although the last hash is not on the main chain"), label.clone());
                            continue;
                        };
                        let Some(root) = view.check_last(&r.last_header(), lb, &what, &label, report) else { continue };
                        let mut headers = vec![];
                        let mut served: Vec<Byte32> = vec![];
                        for fb in r.filtered_blocks().into_iter() {
                            let h = fb.header().into_view();
                            headers.push(h.clone());
                            let Some(b) = main.iter().find(|m| m.hash() == h.hash()) else {
                                report.violation("light-client/transaction-block-off-the-main-chain", format!("{what}: a transaction is proved inside block {} {}, which is not on the main chain", h.number(), h.hash()), label.clone());
                                continue;
                            };
                            // the merkle proof binds the served transactions to the block's transactions root
                            let leaves: Vec<Byte32> = fb.transactions().into_iter().map(|t| t.calc_tx_hash()).collect();
                            served.extend(leaves.iter().cloned());
                            let indices: Vec<u32> = fb.proof().indices().into_iter().map(|i| i.into()).collect();
                            let lemmas: Vec<Byte32> = fb.proof().lemmas().into_iter().collect();
                            let proof = ckb_types::utilities::MerkleProof::new(indices, lemmas);
                            let ok = proof.root(&leaves).map(|raw| ckb_types::utilities::merkle_root(&[raw, fb.witnesses_root()]) == b.transactions_root()).unwrap_or(false);
                            report.evaluations += 1;
                            if !ok || leaves.iter().any(|t| !b.transactions().iter().any(|x| &x.hash() == t)) {
                                report.violation("light-client/transaction-proof", format!("{what}: the merkle proof of the transactions served for block {} does not lead to its transactions root", h.number()), label.clone());
                            }
                        }
                        let want_found: std::collections::BTreeSet<Vec<u8>> = list.iter().filter(|t| txs.iter().any(|x| &x.0 == *t && x.1.is_some())).map(|t| t.as_slice().to_vec()).collect();
                        let got_found: std::collections::BTreeSet<Vec<u8>> = served.iter().map(|t| t.as_slice().to_vec()).collect();
                        let got_missing: std::collections::BTreeSet<Vec<u8>> = r.missing_tx_hashes().into_iter().map(|t| t.as_slice().to_vec()).collect();
                        let want_missing: std::collections::BTreeSet<Vec<u8>> = list.iter().filter(|t| !want_found.contains(t.as_slice())).map(|t| t.as_slice().to_vec()).collect();
                        if want_found != got_found || want_missing != got_missing {
                            report.violation("light-client/found-missing-split", format!("{what}: {} transactions proved, {} missing; {} of the requested are committed on the main chain", got_found.len(), got_missing.len(), want_found.len()), label.clone());
                        }
                        view.check_proof(lb, &root, r.proof(), &headers, &what, &label, report);
                    }
                    packed::LightClientMessageUnion::SendTransactionsProof(r) => {
                        if on_main(last).is_some() {
                            report.violation("light-client/tip-state-for-a-main-chain-block", format!("{what}: answered with the tip state"), label.clone());
                        }
                        view.check_last(&r.last_header(), &tip, &what, &label, report);
                    }
                    other => report.violation("light-client/unexpected-reply", format!("{what}: answered with {}", other.item_name()), label.clone()),
                }
            }
        }
        report.states.insert(fp(&("light-client", step)));
        let _ = view.main;
    }
    report.count("light_client_requests", asked);
    report.count("light_client_replies_judged", replies);
    report.outcomes.insert(fp(&("light-client", replies > 0)));
    report.traces += 1;
    drop(proto);
    node.shutdown();
    Ok(())
}

/// A reorganisation lands while a light-client request is being served: between the handler's
/// look-up of the request in its snapshot and the construction of the proof (gate in `reply_proof`)
/// the other branch overtakes.  Whatever is then served must still be sound for the block the reply
/// names as last: its verifiable header with the root over ITS ancestors, proved headers that are
/// its ancestors, a proof that verifies against the root it commits.
fn lc_race_family(ctx: &Ctx, report: &mut Report) -> Result<(), String> {
    use ckb_light_client_protocol_server::LightClientProtocol;
    let cons = consensus(&WorldOpts::default());
    set_time(time_for_height(40));
    let mut forge = Forge::new(&ctx.scratch.join("c19-forge-lcr"), &cons)?;
    let u = c18::build(&mut forge, &cons)?;
    let mut by_hash: HashMap<Byte32, BlockView> = HashMap::new();
    by_hash.insert(cons.genesis_hash(), cons.genesis_block().clone());
    for x in u.a.iter().chain(u.b.iter()) {
        by_hash.insert(x.hash(), x.clone());
    }
    let all: Vec<&BlockView> = u.a.iter().chain(u.b.iter()).collect();
    for (name, first, second) in [("a-then-b", &u.a[..3], &u.b[..4]), ("b-then-a", &u.b[..3], &u.a[..4])] {
        for kind in 0..3u8 {
            let dir = ctx.scratch.join(format!("c19-lcr-{name}-{kind}"));
            let _ = std::fs::remove_dir_all(&dir);
            let node = Arc::new(Node::boot(&dir, &NodeOpts::new(cons.clone()))?);
            node.wait_startup()?;
            let kind_name = ["GetBlocksProof", "GetLastStateProof", "GetTransactionsProof"][kind as usize];
            let label = json!({"family": "light-client-race", "order": name, "request": kind_name});
            let mut ok = true;
            for b in first.iter() {
                ok = ok && deliver(&node, b, "light-client race family", &label, report);
            }
            if !ok {
                continue;
            }
            let last = first.last().unwrap().clone();
            let main: Vec<BlockView> = node.main_chain();
            let view = LcView { tag: "light-client-race", main: &main, by_hash: &by_hash, all: all.clone() };
            let mut proto = LightClientProtocol::new(node.shared.clone());
            let fired = Arc::new(Mutex::new(false));
            {
                let node2 = Arc::clone(&node);
                let fired2 = Arc::clone(&fired);
                let pending: Vec<BlockView> = second.to_vec();
                ckb_light_client_protocol_server::verif::set_gate(Some(Box::new(move || {
                    let mut f = fired2.lock().unwrap();
                    if !*f {
                        *f = true;
                        for blk in &pending {
                            let _ = node2.process(blk);
                        }
                    }
                })));
            }
            let what = format!("{name}: {} for the tip {} while the other branch overtakes between the handler's look-up and the construction of the proof", ["GetBlocksProof", "GetLastStateProof", "GetTransactionsProof"][kind as usize], last.number());
            let td_last = node.shared.store().get_block_ext(&last.hash()).map(|e| e.total_difficulty).unwrap_or_default();
            let tx = first.iter().flat_map(|b| b.transactions().into_iter().skip(1)).next();
            let reply = match kind {
                0 => lc_ask(&node, &mut proto, packed::GetBlocksProof::new_builder().last_hash(last.hash()).block_hashes(vec![first[0].hash()].pack()).build()),
                1 => lc_ask(&node, &mut proto, packed::GetLastStateProof::new_builder().last_hash(last.hash()).start_hash(cons.genesis_hash()).start_number(0u64).last_n_blocks(100u64).difficulty_boundary(Pack::pack(&(td_last + ckb_types::U256::from(1u64)))).build()),
                _ => match &tx {
                    Some(t) => lc_ask(&node, &mut proto, packed::GetTransactionsProof::new_builder().last_hash(last.hash()).tx_hashes(vec![t.hash()].pack()).build()),
                    None => Ok(None),
                },
            };
            ckb_light_client_protocol_server::verif::set_gate(None);
            report.transitions += 1;
            let did_fire = *fired.lock().unwrap();
            if !did_fire && !(kind == 2 && tx.is_none()) {
                return Err(format!("{what}: the gate was never reached"));
            }
            if node.tip().hash() != second.last().unwrap().hash() {
                report.violation("root/valid-block-refused", format!("{what}: the other branch did not become the main chain"), label.clone());
            }
            match reply {
                Err(()) => report.violation("light-client/handler-panic", format!("{what}: LightClientProtocol::received panicked"), label.clone()),
                Ok(None) => {
                    report.outcomes.insert(fp(&("lc-race", "no-reply")));
                }
                Ok(Some(r)) => {
                    report.outcomes.insert(fp(&("lc-race", "reply")));
                    let (vh, proof, headers): (packed::VerifiableHeader, packed::HeaderDigestVec, Vec<ckb_types::core::HeaderView>) = match r.to_enum() {
                        packed::LightClientMessageUnion::SendBlocksProof(r0) => (r0.last_header(), r0.proof(), r0.headers().into_iter().map(|h| h.into_view()).collect()),
                        packed::LightClientMessageUnion::SendLastStateProof(r0) => (r0.last_header(), r0.proof(), r0.headers().into_iter().map(|h| h.header().into_view()).collect()),
                        packed::LightClientMessageUnion::SendTransactionsProof(r0) => (r0.last_header(), r0.proof(), r0.filtered_blocks().into_iter().map(|f| f.header().into_view()).collect()),
                        _ => {
                            report.violation("light-client/unexpected-reply", format!("{what}: unexpected reply"), label.clone());
                            continue;
                        }
                    };
                    // the reply names its last block itself: the requested one, or the (new) tip
                    let named = vh.header().into_view().hash();
                    let Some(lb) = by_hash.get(&named) else {
                        report.violation("light-client/last-header", format!("{what}: the reply's last header is no block of the universe"), label.clone());
                        continue;
                    };
                    if let Some(root) = view.check_last(&vh, lb, &what, &label, report) {
                        view.check_proof(lb, &root, proof, &headers, &what, &label, report);
                    }
                }
            }
            report.states.insert(fp(&("lc-race", name, kind)));
            report.traces += 1;
            drop(proto);
            match Arc::try_unwrap(node) {
                Ok(n) => n.shutdown(),
                Err(_) => return Err("node still referenced by the gate".into()),
            }
        }
    }
    Ok(())
}

/// A node below an assume-valid target (initial download of production nodes: script execution is
/// skipped) must still bind every block to the chain it extends: a block whose extension commits to
/// another root (header rebuilt consistently), and a genuine header delivered with another
/// extension, are refused; the honest block is accepted afterwards and what the node then serves
/// for its tip commits to the reference root.
fn assume_valid_family(ctx: &Ctx, report: &mut Report) -> Result<(), String> {
    let cons = consensus(&WorldOpts::default());
    set_time(time_for_height(40));
    let mut forge = Forge::new(&ctx.scratch.join("c19-forge-av"), &cons)?;
    let u = c18::build(&mut forge, &cons)?;
    let dir = ctx.scratch.join("c19-assume-valid");
    let _ = std::fs::remove_dir_all(&dir);
    let mut opts = NodeOpts::new(cons.clone());
    opts.assume_valid = true;
    let node = Node::boot(&dir, &opts)?;
    node.wait_startup()?;
    if node.shared.assume_valid_targets().is_none() {
        return Err("the node is not in assume-valid mode".into());
    }
    let label = json!({"family": "assume-valid"});
    for k in 0..u.a.len() {
        let honest = &u.a[k];
        let ext = honest.extension().ok_or("block without extension")?.raw_data().to_vec();
        let mut wrong = ext.clone();
        wrong[7] ^= 0x40;
        // (a) another root, header rebuilt: consistent in itself, a different block
        let forged = honest.as_advanced_builder().extension(Some(ckb_types::bytes::Bytes::from(wrong.clone()).pack())).build();
        // (b) the genuine header with another extension
        let swapped = packed::BlockV1::new_builder().header(honest.data().header()).uncles(honest.data().uncles()).transactions(honest.data().transactions()).proposals(honest.data().proposals()).extension(ckb_types::bytes::Bytes::from(wrong).pack()).build().as_v0().into_view_without_reset_header();
        for (what, cand) in [("a block committing to another chain root (header rebuilt consistently)", forged), ("the genuine header delivered with another extension", swapped)] {
            report.evaluations += 1;
            report.transitions += 1;
            let tip_before = node.tip().hash();
            match node.process(&cand) {
                Err(_) => {
                    report.nontrivial.insert(fp(&("assume-valid", k, what)));
                }
                Ok(v) => report.violation("root/wrong-root-accepted-below-assume-valid-target", format!("block {} below an assume-valid target: {what} was answered Ok({v})", honest.number()), label.clone()),
            }
            if node.tip().hash() != tip_before {
                report.violation("root/wrong-root-accepted-below-assume-valid-target", format!("block {}: after {what} the tip moved", honest.number()), label.clone());
                node.shutdown();
                return Ok(());
            }
        }
        if !deliver(&node, honest, "assume-valid family", &label, report) {
            break;
        }
        let main = node.main_chain();
        let snap = node.shared.snapshot();
        let t = main.last().unwrap().number();
        if t >= 1 {
            let got = snap.chain_root_mmr(t - 1).get_root().map_err(|e| e.to_string())?;
            let want = ref_root(&main, t as usize - 1)?;
            let stored = snap.get_block(&snap.tip_hash()).and_then(|b| b.extension()).map(|e| e.raw_data()[..32].to_vec());
            report.evaluations += 1;
            if got.as_slice() != want.as_slice() || stored.as_deref() != Some(want.calc_mmr_hash().as_slice()) {
                report.violation("root/committed-differs", format!("assume-valid node, tip {t}: the stored tip does not commit to the MMR root over its ancestors"), label.clone());
            }
        }
    }
    report.outcomes.insert(fp(&"assume-valid"));
    report.traces += 1;
    node.shutdown();
    Ok(())
}

pub fn meta(_tier: Tier) -> Meta {
    Meta {
        id: "C19",
        level: "model_checking",
        rule: "roots: two universes (flat world: script-bearing branches of 6 and 5 blocks from genesis; dynamic-difficulty world: common block, branch A of 6 fast blocks and branch B of 4 slow ones where B is heavier) - every block of every fork must commit the hash of the root of an in-memory MMR over its ancestors' header digests; blocks are delivered to a real node (thorough: in every interleaving of the two flat branches, 462 orders; always: A then B, B then A, and A-partly / B / rest of A so that the second reorg re-attaches verified blocks) and after every delivery the store-backed MMR root for every height equals the in-memory one, and for the tip every leaf set of size <= 3 (all sets up to 9 leaves, boundary sets beyond) gets a proof that verifies against the committed root, fails against the root committed by the sibling fork at the same height, and does not verify the sibling fork's headers. filters: the real BlockFilter builder on a real node over every first lead 1..4 of the script-bearing universe (two reorganisations): one pass after every k-th delivery (k = 1..4) and, with both branches extended by two empty blocks, for every d = 1..6 and every gate g = 0..d: a1..a_d delivered without a pass, a pass started, b1..b_(d+1) processed at the gate before block g of that pass (the reorg happens while the pass iterates the old main chain), the pass finished, the rest of A delivered (reorg back) and a final pass; after the builder has caught up every main-chain block has a filter that matches every lock / type script hash of its outputs and spent inputs (resolved by a plain map) and filter_hash = blake2b(parent filter hash, hash(filter)) from zero. light-client sessions: the production handlers (LightClientProtocol::received with a recording context) are asked after deliveries of the there-and-back history (thorough: after every delivery) for GetBlocksProof (every last block incl. genesis, a side-branch block, an unknown hash x every single main-chain block, neighbouring pairs, side-branch / unknown hashes and mixtures), GetLastStateProof (every last block x every start number with the main chain's or a side branch's hash x last_n in {0,1,3,100} x difficulty boundaries at / between the chain's total difficulties x sample lists) and GetTransactionsProof (every last block x every transaction of the universe, unknown, all at once): no handler panics; every reply's last header is the verifiable header of the requested block (the tip for a block off the main chain) with the in-memory MMR root over its ancestors; every header served as proved is an ancestor of it; the proof verifies against that root and against no sibling fork's; served transactions hang under their block's transactions root; found / missing split exact. light-client race: for both orders of the two branches and each request kind, the other branch overtakes at a gate between the handler's look-up and the construction of the proof; the reply must still be sound for the block it names.",
        assumptions: &["light-client replies are judged for soundness (what is served verifies and belongs to the chain of the block the reply names), not for completeness of sampling (which blocks a GetLastStateProof must include)", "GCS filters have false positives by construction: only 'every required script matches' is judged"],
        bounds: json!({"proof_leaf_sets": "<= 3 leaves", "builder_lags": [1, 2, 3, 4], "gate_positions": "every block number of the pass"}),
    }
}

pub fn run(ctx: &Ctx) -> Report {
    let mut report = Report::new();
    if ctx.replay.is_some() {
        report.outcomes.insert(0);
        report.outcomes.insert(1);
    }
    let mut go = || -> Result<(), String> {
        if ctx.mine(0) {
            let cons = consensus(&WorldOpts::default());
            set_time(time_for_height(40));
            let mut forge = Forge::new(&ctx.scratch.join("c19-forge-r"), &cons)?;
            let u = c18::build(&mut forge, &cons)?;
            roots_family(ctx, "flat", &cons, &u.a[..4], &u.b, None, &mut report)?;
            // B first as well: the reorg goes the other way
            roots_family(ctx, "flat-b-first", &cons, &u.b[..4], &u.a, None, &mut report)?;
            // there and back: a1..a3, b1..b4 (reorg), a4..a6 (reorg back onto already verified blocks)
            let back: Vec<BlockView> = u.a[..3].iter().chain(u.b[..4].iter()).chain(u.a[3..].iter()).cloned().collect();
            roots_family(ctx, "flat-there-and-back", &cons, &u.a, &u.b[..4], Some(back), &mut report)?;
        }
        // thorough: every interleaving of the two flat branches
        if ctx.tier.is_thorough() {
            let cons = consensus(&WorldOpts::default());
            set_time(time_for_height(40));
            let mut forge = Forge::new(&ctx.scratch.join("c19-forge-i"), &cons)?;
            let u = c18::build(&mut forge, &cons)?;
            for (k, o) in crate::props::c01::orders(u.a.len(), u.b.len()).into_iter().enumerate() {
                if !ctx.mine(100 + k as u64) {
                    continue;
                }
                if ctx.out_of_time() {
                    report.cap_hit = Some("roots interleavings: wall budget".into());
                    break;
                }
                let (mut ia, mut ib) = (0, 0);
                let mut order = vec![];
                for take_a in o {
                    if take_a {
                        order.push(u.a[ia].clone());
                        ia += 1;
                    } else {
                        order.push(u.b[ib].clone());
                        ib += 1;
                    }
                }
                roots_family(ctx, &format!("interleaving-{k}"), &cons, &u.a, &u.b, Some(order), &mut report)?;
            }
        }
        if ctx.mine(1) || ctx.shards == 1 {
            let cons = crate::props::c01::dyn_world();
            // A: fast blocks (difficulty doubles from block 4), B: slow blocks (difficulty halves).
            // B is delivered first up to height 7, then A: it overtakes although it is shorter.
            let (a, b) = crate::props::c01::dyn_branches(ctx, &cons, 5, 6)?;
            let order: Vec<BlockView> = std::iter::once(a[0].clone()).chain(b.iter().cloned()).chain(a[1..].iter().cloned()).collect();
            roots_family(ctx, "dyn-shorter-heavier", &cons, &a, &b, Some(order), &mut report)?;
        }
        if ctx.mine(2) || ctx.shards == 1 {
            lc_family(ctx, &mut report, 0)?;
            lc_race_family(ctx, &mut report)?;
            assume_valid_family(ctx, &mut report)?;
        }
        if ctx.tier.is_thorough() {
            for variant in [1usize, 2] {
                if ctx.mine(2 + variant as u64) || ctx.shards == 1 {
                    lc_family(ctx, &mut report, variant)?;
                }
            }
        }
        filters_family(ctx, &mut report)
    };
    if let Err(e) = go() {
        report.machinery_errors.push(e);
    }
    report
}
