//! C15 — wire and storage encodings round-trip losslessly and hashes commit to content.
//!
//! Small-scope exhaustive value space (see zoo.rs) x identities:
//!  (1) molecule: from_slice / from_compatible_slice / builder rebuild reproduce value and bytes;
//!  (2) packed -> JSON -> string -> JSON -> packed is the identity, JSON numbers are canonical hex;
//!  (3) hash commitment laws for every single-field mutation of every transaction / block;
//!  (4) every single-byte and header-word mutation of an encoding that strict decoding accepts
//!      re-encodes (field-by-field rebuild) to exactly the mutated bytes.
use crate::core::*;
use crate::zoo;
use ckb_jsonrpc_types as json;
use ckb_types::{
    bytes::Bytes,
    core::{BlockView, TransactionView},
    packed,
    prelude::*,
};
use rayon::prelude::*;
use serde_json::json;

fn check_entity<E>(name: &str, v: &E, report: &mut Report)
where
    E: Entity,
{
    report.evaluations += 1;
    let bytes = v.as_slice().to_vec();
    let label = || json!({"family": "molecule", "type": name, "bytes": hex(&bytes)});
    // values embedding a block with an extension (BlockV1: one extra field) are by design only
    // decodable in compatible mode
    let extra_fields_possible = name.contains("Block") || name.starts_with("Sync/SendBlock");
    match E::from_slice(&bytes) {
        Ok(d) if d.as_slice() == bytes.as_slice() => {}
        Ok(_) => report.violation(format!("molecule/{name}/from_slice-differs"), "decode(encode(v)) has different bytes".to_string(), label()),
        Err(_) if extra_fields_possible => report.count("strict_rejections_of_values_with_extra_fields", 1),
        Err(e) => report.violation(format!("molecule/{name}/from_slice-rejects"), format!("strict decoding rejects an encoded value: {e}"), label()),
    }
    match E::from_compatible_slice(&bytes) {
        Ok(d) if d.as_slice() == bytes.as_slice() => {}
        _ => report.violation(format!("molecule/{name}/from_compatible_slice"), "compatible decoding of an encoded value differs or fails".to_string(), label()),
    }
    let rebuilt = v.clone().as_builder().build();
    // (a value carrying an extra field is rebuilt by the V0 builder without it: by design)
    let strict_ok = E::from_slice(&bytes).is_ok();
    if (strict_ok || !extra_fields_possible) && rebuilt.as_slice() != bytes.as_slice() {
        report.violation(format!("molecule/{name}/rebuild"), "field-by-field rebuild produces different bytes".to_string(), label());
    }
    report.outcomes.insert(fp(&(name, bytes.len() / 64)));
}

/// (4) mutations of an encoding: accepted mutants must be canonical
fn check_mutants<E>(name: &str, bytes: &[u8], report: &mut Report)
where
    E: Entity,
{
    if bytes.len() > 400 {
        return;
    }
    let mut try_one = |m: Vec<u8>, report: &mut Report| {
        report.evaluations += 1;
        let r = std::panic::catch_unwind(|| E::from_slice(&m).map(|e| (e.as_slice().to_vec(), e.as_builder().build().as_slice().to_vec())));
        match r {
            Err(_) => report.violation(format!("mutant/{name}/panic"), "strict decoding or rebuild of a mutated encoding panicked".to_string(), json!({"family": "mutant", "type": name, "bytes": hex(&m)})),
            Ok(Err(_)) => {
                report.count("mutants_rejected", 1);
            }
            Ok(Ok((same, rebuilt))) => {
                report.count("mutants_accepted", 1);
                report.nontrivial.insert(fp(&(name, &m)));
                if same != m || rebuilt != m {
                    report.violation(format!("mutant/{name}/non-canonical-accepted"), "strict decoding accepts a byte string that is not the canonical encoding of the value it decodes to".to_string(), json!({"family": "mutant", "type": name, "bytes": hex(&m), "rebuilt": hex(&rebuilt)}));
                }
            }
        }
    };
    for i in 0..bytes.len() {
        let b = bytes[i];
        for v in [0x00u8, 0x01, 0x7f, 0x80, 0xff, b.wrapping_sub(1), b.wrapping_add(1)] {
            if v != b {
                let mut m = bytes.to_vec();
                m[i] = v;
                try_one(m, report);
            }
        }
    }
    let len = bytes.len() as u32;
    for w in (0..bytes.len().saturating_sub(3)).step_by(4) {
        for v in [0u32, 1, len.wrapping_sub(1), len, len.wrapping_add(1), 0x7fff_ffff, 0xffff_ffff] {
            let mut m = bytes.to_vec();
            m[w..w + 4].copy_from_slice(&v.to_le_bytes());
            if m != bytes {
                try_one(m, report);
            }
        }
    }
    for cut in 0..bytes.len() {
        try_one(bytes[..cut].to_vec(), report);
    }
}

fn check_json<P, J>(name: &str, p: &P, report: &mut Report)
where
    P: Entity + From<J>,
    J: From<P> + serde::Serialize + serde::de::DeserializeOwned,
{
    report.evaluations += 1;
    let j: J = p.clone().into();
    let s = serde_json::to_string(&j).expect("serialize");
    let label = || json!({"family": "json", "type": name, "bytes": hex(p.as_slice()), "json": s});
    match serde_json::from_str::<J>(&s) {
        Err(e) => report.violation(format!("json/{name}/reparse"), format!("the JSON form does not parse back: {e}"), label()),
        Ok(j2) => {
            let p2: P = j2.into();
            if p2.as_slice() != p.as_slice() {
                report.violation(format!("json/{name}/roundtrip"), "packed -> JSON -> string -> JSON -> packed changed the value".to_string(), label());
            }
            // json -> packed -> json is the identity on the string form
            let j3: J = p2.into();
            if serde_json::to_string(&j3).unwrap() != s {
                report.violation(format!("json/{name}/json-roundtrip"), "JSON -> packed -> JSON changed the JSON".to_string(), label());
            }
        }
    }
    // canonical hex numbers: every "0x.." token has no leading zero (except "0x0") when it is a
    // quantity; byte strings have even length.  Checked on the serialized text.
    for tok in s.split('"').filter(|t| t.starts_with("0x")) {
        let digits = &tok[2..];
        if digits.is_empty() && tok != "0x" {
            report.violation(format!("json/{name}/hex"), format!("malformed hex token {tok}"), label());
        }
        if !digits.chars().all(|c| c.is_ascii_hexdigit() && !c.is_ascii_uppercase()) {
            report.violation(format!("json/{name}/hex"), format!("non-canonical hex token {tok}"), label());
        }
    }
}

fn h32(b: &packed::Byte32) -> String {
    format!("0x{}", hex(b.as_slice()))
}

/// JSON field *content* (a pair of conversions that swap two fields in both directions would
/// still round-trip): every field of the JSON object is compared with the packed field it names.
fn json_fields_header(h: &packed::Header, report: &mut Report) {
    let j: json::Header = h.clone().into();
    let v = serde_json::to_value(&j).unwrap();
    let raw = h.raw();
    let n: u128 = h.nonce().into();
    let want = [
        ("version", format!("{:#x}", Into::<u32>::into(raw.version()))),
        ("compact_target", format!("{:#x}", Into::<u32>::into(raw.compact_target()))),
        ("timestamp", format!("{:#x}", Into::<u64>::into(raw.timestamp()))),
        ("number", format!("{:#x}", Into::<u64>::into(raw.number()))),
        ("epoch", format!("{:#x}", Into::<u64>::into(raw.epoch()))),
        ("parent_hash", h32(&raw.parent_hash())),
        ("transactions_root", h32(&raw.transactions_root())),
        ("proposals_hash", h32(&raw.proposals_hash())),
        ("extra_hash", h32(&raw.extra_hash())),
        ("dao", h32(&raw.dao())),
        ("nonce", format!("{n:#x}")),
    ];
    report.evaluations += 1;
    for (k, w) in want {
        if v[k].as_str() != Some(w.as_str()) {
            report.violation(format!("json/Header/field-{k}"), format!("JSON field {k} = {}, packed field is {w}", v[k]), json!({"family": "json-field", "type": "Header", "bytes": hex(h.as_slice())}));
        }
    }
}

fn json_fields_tx(t: &packed::Transaction, report: &mut Report) {
    let j: json::Transaction = t.clone().into();
    let v = serde_json::to_value(&j).unwrap();
    let raw = t.raw();
    report.evaluations += 1;
    let mut bad = vec![];
    if v["version"].as_str() != Some(format!("{:#x}", Into::<u32>::into(raw.version())).as_str()) {
        bad.push("version".to_string());
    }
    for (i, d) in raw.cell_deps().into_iter().enumerate() {
        let idx: u32 = d.out_point().index().into();
        if v["cell_deps"][i]["out_point"]["tx_hash"].as_str() != Some(h32(&d.out_point().tx_hash()).as_str()) || v["cell_deps"][i]["out_point"]["index"].as_str() != Some(format!("{idx:#x}").as_str()) || v["cell_deps"][i]["dep_type"].as_str() != Some(if Into::<u8>::into(d.dep_type()) == 0 { "code" } else { "dep_group" }) {
            bad.push(format!("cell_deps[{i}]"));
        }
    }
    for (i, d) in raw.header_deps().into_iter().enumerate() {
        if v["header_deps"][i].as_str() != Some(h32(&d).as_str()) {
            bad.push(format!("header_deps[{i}]"));
        }
    }
    for (i, d) in raw.inputs().into_iter().enumerate() {
        let since: u64 = d.since().into();
        let idx: u32 = d.previous_output().index().into();
        if v["inputs"][i]["since"].as_str() != Some(format!("{since:#x}").as_str()) || v["inputs"][i]["previous_output"]["tx_hash"].as_str() != Some(h32(&d.previous_output().tx_hash()).as_str()) || v["inputs"][i]["previous_output"]["index"].as_str() != Some(format!("{idx:#x}").as_str()) {
            bad.push(format!("inputs[{i}]"));
        }
    }
    for (i, o) in raw.outputs().into_iter().enumerate() {
        let cap: u64 = o.capacity().into();
        let ht = match Into::<u8>::into(o.lock().hash_type()) {
            0 => "data",
            1 => "type",
            2 => "data1",
            _ => "data2",
        };
        if v["outputs"][i]["capacity"].as_str() != Some(format!("{cap:#x}").as_str())
            || v["outputs"][i]["lock"]["code_hash"].as_str() != Some(h32(&o.lock().code_hash()).as_str())
            || v["outputs"][i]["lock"]["hash_type"].as_str() != Some(ht)
            || v["outputs"][i]["lock"]["args"].as_str() != Some(format!("0x{}", hex(&o.lock().args().raw_data())).as_str())
            || v["outputs"][i]["type"].is_null() != o.type_().to_opt().is_none()
        {
            bad.push(format!("outputs[{i}]"));
        }
        if v["outputs_data"][i].as_str() != Some(format!("0x{}", hex(&raw.outputs_data().get(i).unwrap().raw_data())).as_str()) {
            bad.push(format!("outputs_data[{i}]"));
        }
    }
    for (i, w) in t.witnesses().into_iter().enumerate() {
        if v["witnesses"][i].as_str() != Some(format!("0x{}", hex(&w.raw_data())).as_str()) {
            bad.push(format!("witnesses[{i}]"));
        }
    }
    for k in ["cell_deps", "header_deps", "inputs", "outputs", "outputs_data", "witnesses"] {
        let n = match k {
            "cell_deps" => raw.cell_deps().len(),
            "header_deps" => raw.header_deps().len(),
            "inputs" => raw.inputs().len(),
            "outputs" => raw.outputs().len(),
            "outputs_data" => raw.outputs_data().len(),
            _ => t.witnesses().len(),
        };
        if v[k].as_array().map(|a| a.len()) != Some(n) {
            bad.push(format!("{k}.len"));
        }
    }
    if !bad.is_empty() {
        report.violation(format!("json/Transaction/field-{}", bad[0].split('[').next().unwrap()), format!("JSON fields {bad:?} do not carry the packed fields they name"), json!({"family": "json-field", "type": "Transaction", "bytes": hex(t.as_slice())}));
    }
}

fn tx_mutations(t: &TransactionView) -> Vec<(&'static str, bool, TransactionView)> {
    // (name, touches_only_witnesses, mutated)
    let mut out = vec![];
    let b = || t.as_advanced_builder();
    out.push(("version", false, b().version(t.version().wrapping_add(1)).build()));
    let extra_dep = zoo::cell_deps()[3].clone();
    out.push(("cell_deps+", false, b().cell_dep(extra_dep).build()));
    out.push(("header_deps+", false, b().header_dep(zoo::byte32s()[3].clone()).build()));
    out.push(("inputs+", false, b().input(zoo::cell_inputs()[2].clone()).build()));
    out.push(("outputs+", false, b().output(zoo::cell_outputs()[1].clone()).output_data(Bytes::from(vec![9u8])).build()));
    out.push(("witnesses+", true, b().witness(Bytes::from(vec![0xABu8, 0xCD])).build()));
    if t.cell_deps().len() >= 1 {
        let mut v: Vec<_> = t.cell_deps().into_iter().collect();
        v.pop();
        out.push(("cell_deps-", false, b().set_cell_deps(v).build()));
    }
    if t.cell_deps().len() >= 2 {
        let mut v: Vec<_> = t.cell_deps().into_iter().collect();
        v.swap(0, 1);
        if v[0].as_slice() != v[1].as_slice() {
            out.push(("cell_deps-swap", false, b().set_cell_deps(v).build()));
        }
        let mut v: Vec<_> = t.cell_deps().into_iter().collect();
        let flipped = if Into::<u8>::into(v[0].dep_type()) == 0 { ckb_types::core::DepType::DepGroup } else { ckb_types::core::DepType::Code };
        v[0] = v[0].clone().as_builder().dep_type(flipped).build();
        out.push(("cell_deps-dep_type", false, b().set_cell_deps(v).build()));
    }
    if t.inputs().len() >= 1 {
        let mut v: Vec<_> = t.inputs().into_iter().collect();
        let since: u64 = v[0].since().into();
        v[0] = v[0].clone().as_builder().since(since ^ 1).build();
        out.push(("inputs-since", false, b().set_inputs(v).build()));
    }
    if t.inputs().len() >= 2 {
        let mut v: Vec<_> = t.inputs().into_iter().collect();
        v.swap(0, 1);
        if v[0].as_slice() != v[1].as_slice() {
            out.push(("inputs-swap", false, b().set_inputs(v).build()));
        }
    }
    if t.outputs().len() >= 1 {
        let mut v: Vec<_> = t.outputs().into_iter().collect();
        let cap: u64 = v[0].capacity().into();
        v[0] = v[0].clone().as_builder().capacity(cap ^ 0x100).build();
        out.push(("outputs-capacity", false, b().set_outputs(v).build()));
        let mut d: Vec<packed::Bytes> = t.outputs_data().into_iter().collect();
        let mut raw = d[0].raw_data().to_vec();
        raw.push(0x5a);
        d[0] = Bytes::from(raw).pack();
        out.push(("outputs_data", false, b().set_outputs_data(d).build()));
        let mut v: Vec<_> = t.outputs().into_iter().collect();
        let lock = v[0].lock();
        let flipped = lock.clone().as_builder().args(Bytes::from(vec![0x77u8; 3])).build();
        if flipped.as_slice() != lock.as_slice() {
            v[0] = v[0].clone().as_builder().lock(flipped).build();
            out.push(("outputs-lock-args", false, b().set_outputs(v).build()));
        }
    }
    if t.witnesses().len() >= 1 {
        let mut w: Vec<packed::Bytes> = t.witnesses().into_iter().collect();
        let mut raw = w[0].raw_data().to_vec();
        raw.push(1);
        w[0] = Bytes::from(raw).pack();
        out.push(("witnesses-content", true, b().set_witnesses(w).build()));
    }
    if t.witnesses().len() >= 2 {
        let mut w: Vec<packed::Bytes> = t.witnesses().into_iter().collect();
        w.swap(0, 1);
        if w[0].as_slice() != w[1].as_slice() {
            out.push(("witnesses-swap", true, b().set_witnesses(w).build()));
        }
    }
    out
}

fn tx_laws(t: &TransactionView, report: &mut Report) {
    let label = |m: &str| json!({"family": "tx-hash", "tx": hex(t.data().as_slice()), "mutation": m});
    // cached hashes equal recomputation
    report.evaluations += 1;
    if t.hash() != t.data().calc_tx_hash() || t.witness_hash() != t.data().calc_witness_hash() {
        report.violation("hash/tx-view-cache", "TransactionView cached hashes differ from recomputation".to_string(), label("none"));
    }
    let rebuilt = t.as_advanced_builder().build();
    if rebuilt.hash() != t.hash() || rebuilt.witness_hash() != t.witness_hash() {
        report.violation("hash/tx-rebuild", "as_advanced_builder().build() changes the hashes".to_string(), label("none"));
    }
    for (name, witness_only, m) in tx_mutations(t) {
        report.evaluations += 1;
        if m.data().as_slice() == t.data().as_slice() {
            continue;
        }
        report.nontrivial.insert(fp(&(t.hash().as_slice(), name)));
        if witness_only {
            if m.hash() != t.hash() {
                report.violation("hash/tx-hash-covers-witness", format!("mutation {name} (witnesses only) changed the transaction hash"), label(name));
            }
        } else if m.hash() == t.hash() {
            report.violation("hash/tx-hash-misses-field", format!("mutation {name} did not change the transaction hash"), label(name));
        }
        if m.witness_hash() == t.witness_hash() {
            report.violation("hash/witness-hash-misses-field", format!("mutation {name} did not change the witness hash"), label(name));
        }
        report.outcomes.insert(fp(&(name, witness_only)));
    }
}

fn block_laws(b: &BlockView, report: &mut Report) {
    let label = |m: &str| json!({"family": "block-hash", "block": hex(b.data().as_slice()), "mutation": m});
    report.evaluations += 1;
    if b.hash() != b.data().header().calc_header_hash() || b.header().hash() != b.hash() {
        report.violation("hash/block-view-cache", "BlockView cached hash differs from recomputation".to_string(), label("none"));
    }
    if b.calc_transactions_root() != b.transactions_root() || b.data().as_reader().calc_proposals_hash() != b.proposals_hash() || b.calc_extra_hash().extra_hash() != b.extra_hash() {
        report.violation("hash/block-roots", "roots recorded by the builder differ from recomputation".to_string(), label("none"));
    }
    for (i, (tx, h)) in b.transactions().iter().zip(b.tx_hashes().iter()).enumerate() {
        if &tx.hash() != h {
            report.violation("hash/block-tx-hashes", format!("cached tx hash {i} differs"), label("none"));
        }
    }
    let rebuilt = b.as_advanced_builder().build();
    if rebuilt.hash() != b.hash() {
        report.violation("hash/block-rebuild", "as_advanced_builder().build() changes the block hash".to_string(), label("none"));
    }
    let txs: Vec<TransactionView> = b.transactions();
    let mut variants: Vec<(&str, &str, BlockView)> = vec![];
    // transactions
    if txs.len() >= 2 && txs[0].data().as_slice() != txs[1].data().as_slice() {
        let mut v = txs.clone();
        v.swap(0, 1);
        variants.push(("tx-swap", "transactions_root", b.as_advanced_builder().set_transactions(v).build()));
    }
    for (name, _w, m) in if txs.is_empty() { vec![] } else { tx_mutations(&txs[txs.len() - 1]) } {
        let mut v = txs.clone();
        let n = v.len();
        if m.data().as_slice() == v[n - 1].data().as_slice() {
            continue;
        }
        v[n - 1] = m;
        variants.push((name, "transactions_root", b.as_advanced_builder().set_transactions(v).build()));
    }
    if txs.is_empty() {
        variants.push(("tx-added-to-empty-body", "transactions_root", b.as_advanced_builder().transaction(crate::zoo::transactions()[7].clone()).build()));
    }
    // proposals
    variants.push(("proposal+", "proposals_hash", b.as_advanced_builder().proposal(packed::ProposalShortId::new([0x42; 10])).build()));
    if b.data().proposals().len() >= 1 {
        let mut v: Vec<_> = b.data().proposals().into_iter().collect();
        v.pop();
        variants.push(("proposal-", "proposals_hash", b.as_advanced_builder().set_proposals(v).build()));
    }
    // uncles / extension -> extra hash
    let extra_uncle = ckb_types::core::BlockBuilder::default().header(zoo::headers()[5].clone()).build().as_uncle();
    variants.push(("uncle+", "extra_hash", b.as_advanced_builder().uncle(extra_uncle).build()));
    if b.uncles().data().len() >= 1 {
        let mut v: Vec<_> = b.uncles().into_iter().collect();
        v.pop();
        variants.push(("uncle-", "extra_hash", b.as_advanced_builder().set_uncles(v).build()));
    }
    match b.extension() {
        Some(e) => {
            let mut raw = e.raw_data().to_vec();
            if raw.is_empty() {
                raw.push(0);
            } else {
                raw[0] ^= 1;
                // present-but-empty is a value of its own: neither the old content nor "absent"
                variants.push(("extension-emptied", "extra_hash", b.as_advanced_builder().extension(Some(Bytes::new().pack())).build()));
            }
            variants.push(("extension-content", "extra_hash", b.as_advanced_builder().extension(Some(Bytes::from(raw).pack())).build()));
            variants.push(("extension-removed", "extra_hash", b.as_advanced_builder().extension(None).build()));
        }
        None => {
            variants.push(("extension-added", "extra_hash", b.as_advanced_builder().extension(Some(Bytes::from(vec![1u8; 32]).pack())).build()));
            variants.push(("extension-added-empty", "extra_hash", b.as_advanced_builder().extension(Some(Bytes::new().pack())).build()));
        }
    }
    for (name, field, m) in variants {
        report.evaluations += 1;
        report.nontrivial.insert(fp(&(b.hash().as_slice(), name)));
        let changed = match field {
            "transactions_root" => m.transactions_root() != b.transactions_root(),
            "proposals_hash" => m.proposals_hash() != b.proposals_hash(),
            _ => m.extra_hash() != b.extra_hash(),
        };
        if !changed {
            report.violation(format!("hash/block-{field}-misses"), format!("mutation {name} did not change {field}"), label(name));
        }
        if m.hash() == b.hash() {
            report.violation("hash/block-hash-misses", format!("mutation {name} did not change the block hash"), label(name));
        }
        report.outcomes.insert(fp(&(name, field)));
    }
}

/// The hashes against their definitions, computed here from the serialized bytes with nothing but
/// blake2b-256 ("ckb-default-hash") - the view caches, the builders and the `calc_*` helpers are
/// otherwise only ever compared with each other.
fn hash_definitions(report: &mut Report) {
    let h = |parts: &[&[u8]]| -> [u8; 32] {
        let mut b = ckb_hash::new_blake2b();
        for p in parts {
            b.update(p);
        }
        let mut out = [0u8; 32];
        b.finalize(&mut out);
        out
    };
    // complete binary merkle tree over 32-byte leaves: nodes[i] = H(nodes[2i+1] || nodes[2i+2])
    let cbmt = |leaves: &[[u8; 32]]| -> [u8; 32] {
        if leaves.is_empty() {
            return [0u8; 32];
        }
        let n = leaves.len();
        let mut nodes = vec![[0u8; 32]; n - 1];
        nodes.extend_from_slice(leaves);
        for i in (0..n - 1).rev() {
            nodes[i] = h(&[&nodes[2 * i + 1], &nodes[2 * i + 2]]);
        }
        nodes[0]
    };
    let check = |what: &str, got: &[u8], want: &[u8; 32], label: serde_json::Value, report: &mut Report| {
        report.evaluations += 1;
        if got != want {
            report.violation(format!("hash-definition/{what}"), format!("{what}: the library gives {}, the definition gives {}", hex(got), hex(want)), label);
        } else {
            report.nontrivial.insert(fp(&(what, got)));
        }
    };
    // cell data: 32 zero bytes for empty data, blake2b of the data otherwise
    for data in [vec![], vec![0u8], vec![7u8; 3], vec![0u8; 32], (0..=255u8).collect::<Vec<u8>>(), vec![9u8; 4096]] {
        let want = if data.is_empty() { [0u8; 32] } else { h(&[&data]) };
        check("cell-data-hash", packed::CellOutput::calc_data_hash(&data).as_slice(), &want, json!({"family": "hash-definition", "data_len": data.len()}), report);
    }
    for s in zoo::scripts() {
        check("script-hash", s.calc_script_hash().as_slice(), &h(&[s.as_slice()]), json!({"family": "hash-definition", "script": hex(s.as_slice())}), report);
    }
    for t in zoo::transactions() {
        let label = json!({"family": "hash-definition", "tx": hex(t.data().as_slice())});
        check("tx-hash", t.hash().as_slice(), &h(&[t.data().raw().as_slice()]), label.clone(), report);
        check("tx-hash", t.data().calc_tx_hash().as_slice(), &h(&[t.data().raw().as_slice()]), label.clone(), report);
        check("witness-hash", t.witness_hash().as_slice(), &h(&[t.data().as_slice()]), label.clone(), report);
    }
    for hd in zoo::headers() {
        check("header-hash", hd.hash().as_slice(), &h(&[hd.data().as_slice()]), json!({"family": "hash-definition", "header": hex(hd.data().as_slice())}), report);
    }
    for b in zoo::blocks() {
        let label = json!({"family": "hash-definition", "block": hex(b.data().as_slice())});
        // proposals: zero for none, blake2b over the concatenated 10-byte ids otherwise
        let ids: Vec<u8> = b.data().proposals().into_iter().flat_map(|p| p.as_slice().to_vec()).collect();
        let want_p = if ids.is_empty() { [0u8; 32] } else { h(&[&ids]) };
        check("proposals-hash", b.data().as_reader().calc_proposals_hash().as_slice(), &want_p, label.clone(), report);
        // uncles: zero for none, blake2b over the concatenated uncle header hashes otherwise
        let uh: Vec<u8> = b.data().uncles().into_iter().flat_map(|u| h(&[u.header().as_slice()]).to_vec()).collect();
        let want_u = if uh.is_empty() { [0u8; 32] } else { h(&[&uh]) };
        check("uncles-hash", b.calc_uncles_hash().as_slice(), &want_u, label.clone(), report);
        // extra hash: the uncles hash without an extension, H(uncles hash || H(extension)) with one
        let want_e = match b.extension() {
            None => want_u,
            Some(e) => h(&[&want_u, &h(&[&e.raw_data()])]),
        };
        check("extra-hash", b.calc_extra_hash().extra_hash().as_slice(), &want_e, label.clone(), report);
        // transactions root: the root over (root of the tx hashes, root of the witness hashes)
        let th: Vec<[u8; 32]> = b.transactions().iter().map(|t| h(&[t.data().raw().as_slice()])).collect();
        let wh: Vec<[u8; 32]> = b.transactions().iter().map(|t| h(&[t.data().as_slice()])).collect();
        let want_r = cbmt(&[cbmt(&th), cbmt(&wh)]);
        check("transactions-root", b.calc_transactions_root().as_slice(), &want_r, label.clone(), report);
        check("witnesses-root", b.calc_witnesses_root().as_slice(), &cbmt(&wh), label.clone(), report);
    }
    report.outcomes.insert(fp(&"hash-definitions"));
}

pub fn meta(_tier: Tier) -> Meta {
    Meta {
        id: "C15",
        level: "exploration",
        rule: "value space: every combination of vector lengths 0..=2 for the five vectors of a transaction (243 shapes), blocks with 1..=3 txs x 0..=2 proposals x 0..=2 uncles x extension {absent,0B,1B,32B,96B}, all script hash types x arg sizes, option arms, numeric extremes rotating through every position; protocol messages: one per union arm (Sync 5, Relay 8, BlockFilter 6, LightClient 8) in small and large variants. Identities: molecule strict/compatible decode and field-by-field rebuild; packed->JSON->string->JSON->packed and JSON->packed->JSON; hash laws under EVERY single-field mutation from a fixed catalogue (18 tx mutations, 8+ block mutations); canonicality of every accepted single-byte (7 values per position), header-word (7 values per aligned word) and truncation mutant of every encoding <= 400 bytes. non-trivial = an accepted mutant / an applied mutation; distinct by (value, mutation).",
        assumptions: &["small-scope hypothesis: vectors longer than 2-3 elements and multi-field interactions are not enumerated"],
        bounds: json!({"vector_lengths": "0..=2", "mutant_encodings_max_bytes": 400}),
    }
}

pub fn run(_ctx: &Ctx) -> Report {
    let mut report = Report::new();
    if std::env::var("VERIF_PANICS").is_err() { std::panic::set_hook(Box::new(|_| {})); }
    // ---- (1) + (2) + (4) on leaf and composite packed types
    for s in zoo::scripts() {
        check_entity("Script", &s, &mut report);
        check_json::<packed::Script, json::Script>("Script", &s, &mut report);
        check_mutants::<packed::Script>("Script", s.as_slice(), &mut report);
    }
    for v in zoo::out_points() {
        check_entity("OutPoint", &v, &mut report);
        check_json::<packed::OutPoint, json::OutPoint>("OutPoint", &v, &mut report);
        check_mutants::<packed::OutPoint>("OutPoint", v.as_slice(), &mut report);
    }
    for v in zoo::cell_inputs() {
        check_entity("CellInput", &v, &mut report);
        check_json::<packed::CellInput, json::CellInput>("CellInput", &v, &mut report);
    }
    for v in zoo::cell_outputs() {
        check_entity("CellOutput", &v, &mut report);
        check_json::<packed::CellOutput, json::CellOutput>("CellOutput", &v, &mut report);
        check_mutants::<packed::CellOutput>("CellOutput", v.as_slice(), &mut report);
    }
    for v in zoo::cell_deps() {
        check_entity("CellDep", &v, &mut report);
        check_json::<packed::CellDep, json::CellDep>("CellDep", &v, &mut report);
        check_mutants::<packed::CellDep>("CellDep", v.as_slice(), &mut report);
    }
    let txs = zoo::transactions();
    let tx_reports: Vec<Report> = txs
        .par_iter()
        .map(|t| {
            let mut r = Report::new();
            check_entity("Transaction", &t.data(), &mut r);
            check_entity("RawTransaction", &t.data().raw(), &mut r);
            check_json::<packed::Transaction, json::Transaction>("Transaction", &t.data(), &mut r);
            json_fields_tx(&t.data(), &mut r);
            check_mutants::<packed::Transaction>("Transaction", t.data().as_slice(), &mut r);
            tx_laws(t, &mut r);
            // view conversion
            let jv: json::TransactionView = t.clone().into();
            let back: packed::Transaction = jv.inner.clone().into();
            if back.as_slice() != t.data().as_slice() || jv.hash != t.hash().into() {
                r.violation("json/TransactionView", "TransactionView JSON conversion lost data or hash".to_string(), json!({"family": "json", "type": "TransactionView", "bytes": hex(t.data().as_slice())}));
            }
            r
        })
        .collect();
    for r in tx_reports {
        report.merge(r);
    }
    for h in zoo::headers() {
        check_entity("Header", &h.data(), &mut report);
        check_entity("RawHeader", &h.data().raw(), &mut report);
        check_json::<packed::Header, json::Header>("Header", &h.data(), &mut report);
        json_fields_header(&h.data(), &mut report);
        check_mutants::<packed::Header>("Header", h.data().as_slice(), &mut report);
        let jv: json::HeaderView = h.clone().into();
        if jv.hash != h.hash().into() {
            report.violation("json/HeaderView", "HeaderView JSON hash differs".to_string(), json!({"family": "json", "type": "HeaderView"}));
        }
    }
    let blocks = zoo::blocks();
    let block_reports: Vec<Report> = blocks
        .par_iter()
        .map(|b| {
            let mut r = Report::new();
            check_entity("Block", &b.data(), &mut r);
            check_json::<packed::Block, json::Block>("Block", &b.data(), &mut r);
            for u in b.uncles().data().into_iter() {
                check_entity("UncleBlock", &u, &mut r);
                check_json::<packed::UncleBlock, json::UncleBlock>("UncleBlock", &u, &mut r);
            }
            check_mutants::<packed::Block>("Block", b.data().as_slice(), &mut r);
            block_laws(b, &mut r);
            // storage forms
            let hv: packed::HeaderView = b.header().into();
            check_entity("HeaderView(storage)", &hv, &mut r);
            let uv: packed::UncleBlockVecView = b.uncles().into();
            check_entity("UncleBlockVecView(storage)", &uv, &mut r);
            // compact block of it
            let cb = packed::CompactBlock::build_from_block(b, &Default::default());
            check_entity("CompactBlock", &cb, &mut r);
            r
        })
        .collect();
    for r in block_reports {
        report.merge(r);
    }
    // ---- protocol messages
    for (name, bytes) in zoo::messages() {
        let fam = name.split('/').next().unwrap().to_string();
        match fam.as_str() {
            "Sync" => {
                let m = packed::SyncMessage::from_compatible_slice(&bytes).expect("zoo message");
                check_entity(&name, &m, &mut report);
                check_mutants::<packed::SyncMessage>(&name, &bytes, &mut report);
            }
            "Relay" => {
                let m = packed::RelayMessage::from_compatible_slice(&bytes).expect("zoo message");
                check_entity(&name, &m, &mut report);
                check_mutants::<packed::RelayMessage>(&name, &bytes, &mut report);
            }
            "Filter" => {
                let m = packed::BlockFilterMessage::from_compatible_slice(&bytes).expect("zoo message");
                check_entity(&name, &m, &mut report);
                check_mutants::<packed::BlockFilterMessage>(&name, &bytes, &mut report);
            }
            _ => {
                let m = packed::LightClientMessage::from_compatible_slice(&bytes).expect("zoo message");
                check_entity(&name, &m, &mut report);
                check_mutants::<packed::LightClientMessage>(&name, &bytes, &mut report);
            }
        }
    }
    // ---- JSON integer forms
    for v in zoo::u64s() {
        let j = json::Uint64::from(v);
        let s = serde_json::to_string(&j).unwrap();
        report.evaluations += 1;
        if s != format!("\"{:#x}\"", v) || serde_json::from_str::<json::Uint64>(&s).map(|x| x.value()).ok() != Some(v) {
            report.violation("json/Uint64", format!("{v} serializes to {s}"), json!({"family": "json", "type": "Uint64", "value": v}));
        }
        for bad in [format!("\"0x0{:x}\"", v), format!("\"{}\"", v), format!("\"0X{:x}\"", v)] {
            if v != 0 && serde_json::from_str::<json::Uint64>(&bad).is_ok() && bad != s {
                report.violation("json/Uint64-noncanonical-accepted", format!("non-canonical quantity {bad} is accepted"), json!({"family": "json", "type": "Uint64", "text": bad}));
            }
        }
    }
    hash_definitions(&mut report);
    let _ = std::panic::take_hook();
    report.traces = report.evaluations;
    report.transitions = report.evaluations;
    report.states.insert(1);
    report.sample(json!({"transactions": txs.len(), "blocks": blocks.len(), "messages": zoo::messages().iter().map(|m| m.0.clone()).collect::<Vec<_>>()}));
    report
}
