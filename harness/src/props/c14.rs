//! C14 — caches never change a verdict or an answer.
//!
//! Three real nodes (chain + tx-pool) that differ ONLY in their caches receive the same history:
//!   N0  every store read cache and the transaction verification cache at capacity 0 (nothing is
//!       ever cached),
//!   N1  default capacities,
//!   N2  capacity 1 everywhere (constant eviction); every second boot without a header cache.
//! N1 and N2 are not restarted between histories (their caches stay warm with the previous
//! histories' transactions, headers, deleted and invalid blocks); a violation's replay file holds
//! the whole sequence since their last boot.
//!
//! The universe is built so that a cache hit could matter: W is locked by a script that exec's
//! its witness (one witness makes it succeed, the other fail; same transaction hash), S carries
//! an absolute-block-number `since`, T1/T2 are a parent/child pair, Ta/Tb conflict.  Two forged
//! branches commit them at chosen places, including places that make the block invalid (bad
//! witness variant, premature since).  Every verdict (submission, block), every recorded block
//! ext (fees, cycles, verified), every pool entry (cycles, fee) and a query battery over every
//! hash / out-point of the history must be identical on the three nodes; block verdicts must
//! also equal the verdict known by construction.  A second family does the same for cellbase
//! maturity: a transaction spending a cellbase is verified where it is mature (pool, branch A)
//! and then committed too early on a heavier branch B.
use crate::core::*;
use crate::forge::*;
use crate::node::*;
use crate::props::c11::Driver;
use crate::world::*;
use ckb_app_config::{StoreConfig, TxPoolConfig};
use ckb_chain_spec::consensus::Consensus;
use ckb_store::ChainStore;
use ckb_types::{
    bytes::Bytes,
    core::{BlockView, FeeRate, TransactionView, cell::CellProvider},
    packed::{self, Byte32, CellDep, CellInput, OutPoint, ProposalShortId},
    prelude::*,
};
use serde::{Deserialize, Serialize};
use serde_json::{Value, json};
use std::collections::BTreeMap;

pub const TXS: [&str; 7] = ["Wgood", "Wbad", "S", "T1", "T2", "Ta", "Tb"];
const NEVER: u8 = 255;
const SINCE_HEIGHT: u64 = 4;

/// where a transaction is committed on a branch: 0 nowhere, 3 / 4 = in that block
#[derive(Clone, Debug, Serialize, Deserialize, PartialEq, Eq, Hash)]
pub struct Case {
    /// W on A: 0 none, 1 good witness in a3, 2 bad witness in a3 ; same on B (b3)
    pub w: (u8, u8),
    /// S on A / B: 0 none, 3 committed in block 3 (premature: invalid), 4 committed in block 4
    pub s: (u8, u8),
    /// T1+T2 on A: 0 none, 1 both in a3, 2 T1 in a3 and T2 in a4 ; on B likewise
    pub t: (u8, u8),
    /// Ta on A (a3), Tb on B (b3)
    pub conflict: bool,
    /// submissions: (tx index, position = after that many blocks of the delivery order)
    pub submits: Vec<(usize, u8)>,
}

fn pool_config() -> TxPoolConfig {
    let mut c = TxPoolConfig::default();
    c.min_fee_rate = FeeRate::from_u64(1_000);
    c.min_rbf_rate = FeeRate::from_u64(1_000);
    c
}

fn store_config(size: Option<usize>) -> StoreConfig {
    let mut c = StoreConfig::default();
    if let Some(n) = size {
        c.header_cache_size = n;
        c.cell_data_cache_size = n;
        c.block_proposals_cache_size = n;
        c.block_tx_hashes_cache_size = n;
        c.block_uncles_cache_size = n;
        c.block_extensions_cache_size = n;
    }
    c
}

fn universe(cons: &Consensus) -> Vec<TransactionView> {
    let g = genesis_cells(cons);
    let (code, locked) = witness_lock_cells(cons);
    let w = |witness: Vec<u8>| -> TransactionView {
        simple_tx(cons, &[locked.clone()], 1, 2_000_000, 20).as_advanced_builder().cell_dep(CellDep::new_builder().out_point(code.0.clone()).build()).witness(Bytes::from(witness).pack()).build()
    };
    let good = std::fs::read("/repo/script/testdata/exec_callee").expect("testdata/exec_callee");
    let wgood = w(good);
    let wbad = w(vec![0u8; 64]);
    assert_eq!(wgood.hash(), wbad.hash());
    assert_ne!(wgood.witness_hash(), wbad.witness_hash());
    // S may be committed from block SINCE_HEIGHT on (absolute block number)
    let s0 = simple_tx(cons, &g[1..2], 1, 1_500_000, 21);
    let s = s0.as_advanced_builder().set_inputs(vec![CellInput::new(g[1].0.clone(), SINCE_HEIGHT)]).build();
    let t1 = simple_tx(cons, &g[2..3], 2, 1_000_000, 22);
    let t2 = simple_tx(cons, &[out(&t1, 0)], 1, 1_100_000, 23);
    let ta = simple_tx(cons, &g[3..4], 1, 1_200_000, 24);
    let tb = simple_tx(cons, &g[3..4], 1, 1_300_000, 25);
    vec![wgood, wbad, s, t1, t2, ta, tb]
}

/// delivery order: a1 a2 a3 a4 | b1 b2 b3 b4 b5 (blocks after an invalid one are not built)
fn order() -> Vec<(char, usize)> {
    let mut o: Vec<(char, usize)> = (1..=4).map(|n| ('a', n)).collect();
    o.extend((1..=5).map(|n| ('b', n)));
    o
}

struct Nodes {
    cons: Consensus,
    txs: Vec<TransactionView>,
    forge: Forge,
    n: Vec<Driver>,
    /// cases run since N1/N2 were booted
    since_boot: Vec<Case>,
    generation: u64,
}

fn boot_node(ctx: &Ctx, cons: &Consensus, idx: usize, generation: u64) -> Result<Driver, String> {
    let (store, txcache): (Option<usize>, Option<usize>) = match idx {
        0 => (Some(0), Some(0)),
        1 => (None, None),
        _ => (Some(1), Some(1)),
    };
    match txcache {
        Some(n) => unsafe { std::env::set_var("VERIF_TX_VERIFY_CACHE_SIZE", n.to_string()) },
        None => unsafe { std::env::remove_var("VERIF_TX_VERIFY_CACHE_SIZE") },
    }
    let dir = ctx.scratch.join(format!("c14-n{idx}-{generation}"));
    let _ = std::fs::remove_dir_all(&dir);
    let mut opts = NodeOpts::new(cons.clone()).with_pool();
    opts.assembler = false;
    opts.tx_pool_config = Some(pool_config());
    let mut sc = store_config(store);
    // the caches are independent of each other: every second boot of the capacity-1 node and of the
    // default node runs without a header cache (the part caches keep their capacity)
    if (idx == 2 && generation % 2 == 0) || (idx == 1 && generation % 2 == 1) {
        sc.header_cache_size = 0;
    }
    opts.store_config = Some(sc);
    let node = Node::boot(&dir, &opts)?;
    node.wait_startup()?;
    unsafe { std::env::remove_var("VERIF_TX_VERIFY_CACHE_SIZE") };
    let mut d = Driver::adopt(node, cons);
    d.clock = time_for_height(0);
    Ok(d)
}

fn err_class(e: &str) -> String {
    // the kind of error without hashes / numbers
    e.split(|c: char| !c.is_ascii_alphanumeric()).filter(|t| t.chars().next().map(|c| c.is_ascii_uppercase()).unwrap_or(false)).take(3).collect::<Vec<_>>().join("-")
}

fn hx(b: &[u8]) -> String {
    b.iter().map(|x| format!("{x:02x}")).collect()
}

fn opt<T: AsRef<[u8]>>(v: Option<T>) -> String {
    v.map(|x| hx(x.as_ref())).unwrap_or_else(|| "None".into())
}

/// the query battery: what RPC-level chain queries read, over every block / tx / out-point named
fn battery(node: &Node, blocks: &[(String, BlockView)], txs: &[TransactionView]) -> BTreeMap<String, String> {
    let mut m = BTreeMap::new();
    let snap = node.shared.snapshot();
    let store = node.shared.store();
    let tip = snap.tip_hash();
    m.insert("tip".into(), format!("{}", snap.tip_number()));
    m.insert("epoch".into(), hx(Into::<packed::EpochExt>::into(snap.epoch_ext()).as_slice()));
    for (name, b) in blocks {
        let h = b.hash();
        m.insert(format!("{name}/snap.get_block"), opt(snap.get_block(&h).map(|x| x.data().as_slice().to_vec())));
        m.insert(format!("{name}/store.get_block"), opt(store.get_block(&h).map(|x| x.data().as_slice().to_vec())));
        m.insert(format!("{name}/snap.get_block_header"), opt(snap.get_block_header(&h).map(|x| x.data().as_slice().to_vec())));
        m.insert(format!("{name}/store.get_block_header"), opt(store.get_block_header(&h).map(|x| x.data().as_slice().to_vec())));
        m.insert(format!("{name}/get_block_ext"), snap.get_block_ext(&h).map(|e| format!("{:#x}/{}/{:?}/{:?}/{:?}/{:?}", e.total_difficulty, e.total_uncles_count, e.verified, e.txs_fees, e.cycles, e.txs_sizes)).unwrap_or("None".into()));
        m.insert(format!("{name}/get_block_uncles"), opt(snap.get_block_uncles(&h).map(|x| x.data().as_slice().to_vec())));
        m.insert(format!("{name}/get_block_proposal_txs_ids"), opt(snap.get_block_proposal_txs_ids(&h).map(|x| x.as_slice().to_vec())));
        m.insert(format!("{name}/get_block_extension"), opt(snap.get_block_extension(&h).map(|x| x.as_slice().to_vec())));
        m.insert(format!("{name}/get_block_txs_hashes"), snap.get_block_txs_hashes(&h).iter().map(|t| hx(t.as_slice())).collect::<Vec<_>>().join(","));
        m.insert(format!("{name}/get_block_number"), format!("{:?}", snap.get_block_number(&h)));
        m.insert(format!("{name}/is_main_chain"), format!("{}", snap.is_main_chain(&h)));
        m.insert(format!("{name}/get_block_epoch"), opt(snap.get_block_epoch(&h).map(|e| Into::<packed::EpochExt>::into(&e).as_slice().to_vec())));
        m.insert(format!("{name}/get_ancestor_from_tip"), opt(snap.get_ancestor(&tip, b.number()).map(|x| x.hash().as_slice().to_vec())));
        m.insert(format!("n{}/get_block_hash", b.number()), opt(snap.get_block_hash(b.number()).map(|x| x.as_slice().to_vec())));
        for tx in b.transactions().iter() {
            for oi in 0..tx.outputs().len() {
                let op = OutPoint::new(tx.hash(), oi as u32);
                // the way get_live_cell answers: status first, data only through the status
                let st = snap.cell(&op, true);
                let txt = match st {
                    ckb_types::core::cell::CellStatus::Live(c) => format!("live/{}/{:?}/{}", hx(c.cell_output.as_slice()), c.transaction_info.as_ref().map(|i| (i.block_number, i.index)), c.mem_cell_data.as_ref().map(|d| hx(d)).unwrap_or_default()),
                    ckb_types::core::cell::CellStatus::Dead => "dead".into(),
                    ckb_types::core::cell::CellStatus::Unknown => "unknown".into(),
                };
                m.insert(format!("cell {}#{oi}", hx(&tx.hash().as_slice()[..4])), txt);
            }
        }
    }
    for (i, tx) in txs.iter().enumerate() {
        m.insert(format!("tx{}/get_transaction_with_info", i), snap.get_transaction_with_info(&tx.hash()).map(|(t, i)| format!("{}@{}/{}/{}", hx(t.data().as_slice()), hx(i.block_hash.as_slice()), i.block_number, i.index)).unwrap_or("None".into()));
    }
    m
}

/// raw store getters that bypass liveness (reported separately: see DESIGN.md C14)
fn raw_battery(node: &Node, blocks: &[(String, BlockView)]) -> BTreeMap<String, String> {
    let mut m = BTreeMap::new();
    let store = node.shared.store();
    for (_, b) in blocks {
        for tx in b.transactions().iter() {
            for oi in 0..tx.outputs().len() {
                let op = OutPoint::new(tx.hash(), oi as u32);
                m.insert(format!("raw get_cell_data {}#{oi}", hx(&tx.hash().as_slice()[..4])), store.get_cell_data(&op).map(|(d, h)| format!("{}/{}", hx(&d), hx(h.as_slice()))).unwrap_or("None".into()));
                m.insert(format!("raw get_cell_data_hash {}#{oi}", hx(&tx.hash().as_slice()[..4])), opt(store.get_cell_data_hash(&op).map(|h| h.as_slice().to_vec())));
            }
        }
    }
    m
}

impl Nodes {
    fn new(ctx: &Ctx) -> Result<Nodes, String> {
        let mut w = WorldOpts::default();
        w.witness_lock = true;
        let cons = consensus(&w);
        set_time(time_for_height(0));
        let forge = Forge::new(&ctx.scratch.join("c14-forge"), &cons)?;
        let txs = universe(&cons);
        let mut n = vec![];
        for i in 0..3 {
            n.push(boot_node(ctx, &cons, i, 0)?);
        }
        Ok(Nodes { cons, txs, forge, n, since_boot: vec![], generation: 0 })
    }

    /// The maturity world: the nodes under test require one epoch (4 blocks) of cellbase maturity;
    /// the forge runs with maturity 0, so it can also build a branch that commits a
    /// cellbase-spending transaction too early - and blocks on top of that block.
    fn new_maturity(ctx: &Ctx) -> Result<Nodes, String> {
        let mut strict = WorldOpts::default();
        strict.cellbase_maturity = ckb_types::core::EpochNumberWithFraction::new(1, 0, 1);
        let cons = consensus(&strict);
        let permissive = consensus(&WorldOpts::default());
        if cons.genesis_hash() != permissive.genesis_hash() {
            return Err("maturity must not change the genesis block".into());
        }
        set_time(time_for_height(0));
        let forge = Forge::new(&ctx.scratch.join("c14-forge-m"), &permissive)?;
        let mut n = vec![];
        for i in 0..3 {
            n.push(boot_node(ctx, &cons, i, 1000)?);
        }
        Ok(Nodes { cons, txs: vec![], forge, n, since_boot: vec![], generation: 1000 })
    }

    /// c1..c6 | a7..a10 (M, spending the cellbase of c6, committed in a10: mature) | b7..b11 (M
    /// committed in b9: immature, or b10: mature); the B branch is verified when b11 arrives.
    fn run_maturity_case(&mut self, m_on_a: bool, m_on_b: u64, submit_at: Option<usize>, report: &mut Report) -> Result<(), String> {
        let label = json!({"family": "maturity", "m_on_a": m_on_a, "m_on_b": m_on_b, "submit_at": submit_at});
        let mut clock = self.n.iter().map(|d| d.clock).max().unwrap();
        for d in self.n.iter_mut() {
            d.clock = clock;
            d.reset()?;
            clock = d.clock;
        }
        clock += 20 * BLOCK_INTERVAL_MS;
        for d in self.n.iter_mut() {
            d.clock = clock;
        }
        set_time(clock);
        let base = clock - 19 * BLOCK_INTERVAL_MS;
        self.forge.forget();
        let cons = self.cons.clone();
        let mut parent = cons.genesis_hash();
        let mut common = vec![];
        for n in 1..=6u64 {
            let b = self.forge.build_on(&parent, &BlockSpec { miner: 1, timestamp: Some(base + n * BLOCK_INTERVAL_MS), ..Default::default() })?;
            parent = b.hash();
            common.push(b);
        }
        let c6 = common.last().unwrap().clone();
        let cb = c6.transactions()[0].clone();
        if cb.outputs().is_empty() {
            return Err("block 6 has no cellbase output".into());
        }
        let m = simple_tx(&cons, &[out(&cb, 0)], 1, 1_000_000, 77);
        self.txs = vec![m.clone()];
        let mut a = vec![];
        let mut pa = c6.hash();
        for n in 7..=10u64 {
            let mut spec = BlockSpec { miner: 1, timestamp: Some(base + n * BLOCK_INTERVAL_MS), ..Default::default() };
            if n == 8 {
                spec.proposals = vec![m.proposal_short_id()];
            }
            if n == 10 && m_on_a {
                spec.txs = vec![m.clone()];
            }
            let b = self.forge.build_on(&pa, &spec)?;
            pa = b.hash();
            a.push(b);
        }
        let mut bb = vec![];
        let mut pb = c6.hash();
        for n in 7..=11u64 {
            let mut spec = BlockSpec { miner: 2, timestamp: Some(base + n * BLOCK_INTERVAL_MS + 1), ..Default::default() };
            if n == 7 {
                spec.proposals = vec![m.proposal_short_id()];
            }
            if n == m_on_b {
                spec.txs = vec![m.clone()];
            }
            let b = self.forge.build_on(&pb, &spec)?;
            pb = b.hash();
            bb.push(b);
        }
        let mut order: Vec<(String, BlockView)> = vec![];
        for (i, b) in common.iter().enumerate() {
            order.push((format!("c{}", i + 1), b.clone()));
        }
        for (i, b) in a.iter().enumerate() {
            order.push((format!("a{}", i + 7), b.clone()));
        }
        for (i, b) in bb.iter().enumerate() {
            order.push((format!("b{}", i + 7), b.clone()));
        }
        let all_blocks: Vec<(String, BlockView)> = std::iter::once(("G".to_string(), cons.genesis_block().clone())).chain(order.iter().cloned()).collect();
        let mut trace: Vec<String> = vec![];
        let b_invalid = m_on_b == 9;
        for (k, (name, blk)) in order.iter().enumerate() {
            if submit_at == Some(k) {
                let mut answers = vec![];
                for d in self.n.iter() {
                    let r = d.node.shared.tx_pool_controller().submit_local_tx(m.clone()).map_err(|e| e.to_string())?;
                    answers.push(match r {
                        Ok(_) => "accepted".to_string(),
                        Err(e) => format!("rejected {}", err_class(&e.to_string())),
                    });
                }
                trace.push(format!("submit M -> {}", answers[0]));
                if answers[1] != answers[0] || answers[2] != answers[0] {
                    report.violation("maturity/submit-verdict-differs", format!("after {}: caches off: {}, default caches: {}, capacity 1: {}", trace.join(", "), answers[0], answers[1], answers[2]), label.clone());
                }
            }
            let before_tip = self.n[0].node.tip().number();
            let mut answers = vec![];
            for d in self.n.iter() {
                let r = d.node.process(blk);
                d.node.wait_pool_synced()?;
                answers.push(match r {
                    Ok(b) => format!("Ok({b})"),
                    Err(e) => format!("Err {}", err_class(&e.to_string())),
                });
            }
            trace.push(format!("block {name} -> {}", answers[0]));
            report.transitions += 3;
            if answers[1] != answers[0] || answers[2] != answers[0] {
                report.violation("maturity/block-verdict-differs", format!("after {}: caches off: {}, default caches: {}, capacity 1: {}", trace.join(", "), answers[0], answers[1], answers[2]), label.clone());
            }
            // ground truth: the B branch is verified when it overtakes (b11); it is invalid iff M sits in b9
            if name == "b11" && blk.number() > before_tip {
                for (i, ans) in answers.iter().enumerate() {
                    if b_invalid == ans.starts_with("Ok") {
                        report.violation(if b_invalid { "maturity/immature-spend-accepted" } else { "maturity/valid-branch-refused" }, format!("after {}: node N{i} answered {ans}; the cellbase of block 6 matures at block 10 and M is committed in b{m_on_b}", trace.join(", ")), label.clone());
                    }
                }
                report.nontrivial.insert(fp(&("maturity", m_on_a, m_on_b, submit_at)));
            }
            self.compare(&all_blocks, &trace, &label, report, true, false)?;
        }
        report.traces += 1;
        report.evaluations += 1;
        report.states.insert(fp(&("maturity", m_on_a, m_on_b, submit_at)));
        Ok(())
    }

    fn maybe_reboot(&mut self, ctx: &Ctx, every: usize) -> Result<(), String> {
        if self.since_boot.len() < every {
            return Ok(());
        }
        self.generation += 1;
        let clock = self.n[0].clock;
        for i in 0..3 {
            let fresh = boot_node(ctx, &self.cons, i, self.generation)?;
            let old = std::mem::replace(&mut self.n[i], fresh);
            old.node.destroy();
            self.n[i].clock = clock;
        }
        self.since_boot.clear();
        Ok(())
    }

    fn run_case(&mut self, case: &Case, report: &mut Report) -> Result<(), String> {
        self.since_boot.push(case.clone());
        let label = json!({"sequence_since_boot": self.since_boot, "case": case});
        let t0 = std::time::Instant::now();
        // common clock, rewound chains, empty pools (caches are NOT touched)
        let mut clock = self.n.iter().map(|d| d.clock).max().unwrap();
        for d in self.n.iter_mut() {
            d.clock = clock;
            d.reset()?;
            clock = d.clock;
        }
        clock += 14 * BLOCK_INTERVAL_MS;
        for d in self.n.iter_mut() {
            d.clock = clock;
        }
        set_time(clock);
        let base = clock - 13 * BLOCK_INTERVAL_MS;
        report.count("ms_reset", t0.elapsed().as_millis() as u64);
        let t1 = std::time::Instant::now();
        self.forge.forget();
        let cons = self.cons.clone();
        let genesis = cons.genesis_hash();
        let tx = |i: usize| self.txs[i].clone();
        let id = |i: usize| -> ProposalShortId { self.txs[i].proposal_short_id() };
        // contents per branch and height; validity by construction
        let mut plan: BTreeMap<(char, usize), (Vec<ProposalShortId>, Vec<TransactionView>, bool)> = BTreeMap::new();
        for (br, wsel, ssel, tsel) in [('a', case.w.0, case.s.0, case.t.0), ('b', case.w.1, case.s.1, case.t.1)] {
            let mut proposals = vec![id(0), id(2), id(3), id(4)];
            proposals.push(if br == 'a' { id(5) } else { id(6) });
            plan.insert((br, 1), (proposals, vec![], true));
            let mut b3 = vec![];
            let mut b4 = vec![];
            let mut ok3 = true;
            match wsel {
                1 => b3.push(tx(0)),
                2 => {
                    b3.push(tx(1));
                    ok3 = false;
                }
                _ => {}
            }
            match ssel {
                3 => {
                    b3.push(tx(2));
                    ok3 = false;
                }
                4 => b4.push(tx(2)),
                _ => {}
            }
            match tsel {
                1 => {
                    b3.push(tx(3));
                    b3.push(tx(4));
                }
                2 => {
                    b3.push(tx(3));
                    b4.push(tx(4));
                }
                _ => {}
            }
            if case.conflict {
                b3.push(if br == 'a' { tx(5) } else { tx(6) });
            }
            plan.insert((br, 3), (vec![], b3, ok3));
            plan.insert((br, 4), (vec![], b4, true));
        }
        // forge what can be forged (nothing on top of an invalid block)
        let mut built: BTreeMap<(char, usize), (BlockView, bool)> = BTreeMap::new();
        for br in ['a', 'b'] {
            let mut parent = genesis.clone();
            let len = if br == 'a' { 4 } else { 5 };
            for n in 1..=len {
                let (proposals, txs, valid) = plan.get(&(br, n)).cloned().unwrap_or((vec![], vec![], true));
                let spec = BlockSpec { proposals, txs, miner: if br == 'a' { 1 } else { 2 }, timestamp: Some(base + n as u64 * BLOCK_INTERVAL_MS + if br == 'a' { 0 } else { 1 }), ..Default::default() };
                let blk = self.forge.build_on(&parent, &spec).map_err(|e| format!("forge {br}{n}: {e}"))?;
                parent = blk.hash();
                built.insert((br, n), (blk, valid));
                if !valid {
                    break;
                }
            }
        }
        report.count("ms_forge", t1.elapsed().as_millis() as u64);
        let t2 = std::time::Instant::now();
        // the battery asks about every block of the history at every moment - also before it has
        // arrived (a query for a hash the node does not know yet must not change anything later)
        let mut seen_blocks: Vec<(String, BlockView)> = vec![("G".into(), cons.genesis_block().clone())];
        for ((br, n), (blk, _)) in &built {
            seen_blocks.push((format!("{br}{n}"), blk.clone()));
        }
        let mut trace: Vec<String> = vec![];
        let ord = order();
        self.compare(&seen_blocks, &trace, &label, report, true, false)?;
        for k in 0..=ord.len() {
            for (ti, pos) in &case.submits {
                if *pos as usize != k {
                    continue;
                }
                let mut answers = vec![];
                for d in self.n.iter() {
                    let r = d.node.shared.tx_pool_controller().submit_local_tx(self.txs[*ti].clone()).map_err(|e| e.to_string())?;
                    answers.push(match r {
                        Ok(_) => "accepted".to_string(),
                        Err(e) => format!("rejected {}", err_class(&e.to_string())),
                    });
                }
                trace.push(format!("submit {} -> {}", TXS[*ti], answers[0]));
                report.transitions += 3;
                if answers[1] != answers[0] || answers[2] != answers[0] {
                    report.violation("submit-verdict-differs", format!("after {}: caches off: {}, default caches: {}, capacity 1: {}", trace.join(", "), answers[0], answers[1], answers[2]), label.clone());
                }
                self.compare(&seen_blocks, &trace, &label, report, false, false)?;
            }
            if k == ord.len() {
                break;
            }
            let (br, n) = ord[k];
            let Some((blk, valid)) = built.get(&(br, n)).cloned() else { continue };
            // a block is verified when it makes its branch the best one; a side block is stored unverified
            let verified_now = blk.number() > self.n[0].node.tip().number();
            // views taken before the block arrives (a reader may hold one for a while)
            let old_views: Vec<std::sync::Arc<ckb_snapshot::Snapshot>> = self.n.iter().map(|d| std::sync::Arc::clone(&d.node.shared.snapshot())).collect();
            let mut answers = vec![];
            for d in self.n.iter() {
                let r = d.node.process(&blk);
                d.node.wait_pool_synced()?;
                answers.push(match r {
                    Ok(b) => format!("Ok({b})"),
                    Err(e) => format!("Err {}", err_class(&e.to_string())),
                });
            }
            trace.push(format!("block {br}{n} -> {}", answers[0]));
            report.transitions += 3;
            if answers[1] != answers[0] || answers[2] != answers[0] {
                report.violation("block-verdict-differs", format!("after {}: caches off: {}, default caches: {}, capacity 1: {}", trace.join(", "), answers[0], answers[1], answers[2]), label.clone());
            }
            for (i, a) in answers.iter().enumerate() {
                if verified_now && valid != a.starts_with("Ok") {
                    report.violation(if valid { "valid-block-refused" } else { "invalid-block-accepted" }, format!("after {}: node N{i} answered {a} for a block that is {} by construction", trace.join(", "), if valid { "valid" } else { "invalid" }), label.clone());
                }
            }
            if !valid {
                report.nontrivial.insert(fp(&(case, k)));
            }
            // Per block: a reader looks at the header through the live store (a side block is visible
            // there only: no new view is published for it) and the fresh view, then a reader that still
            // holds the view from BEFORE the block asks for one part, and the live store is asked for
            // the same part at once (a capacity-1 cache forgets by the next question).  What the live
            // store answers must not depend on the caches.
            let mut imm: Vec<BTreeMap<String, String>> = vec![];
            for (d, v) in self.n.iter().zip(old_views.iter()) {
                let fresh = d.node.shared.snapshot();
                let live = d.node.shared.store();
                let mut m = BTreeMap::new();
                for (name, b) in &seen_blocks {
                    let h = b.hash();
                    let _ = live.get_block_header(&h);
                    let _ = fresh.get_block_header(&h);
                    let _ = v.get_block_extension(&h);
                    m.insert(format!("{name}/live.get_block_extension after a stale view asked"), opt(live.get_block_extension(&h).map(|x| x.as_slice().to_vec())));
                    let _ = v.get_block_uncles(&h);
                    m.insert(format!("{name}/live.get_block_uncles after a stale view asked"), opt(live.get_block_uncles(&h).map(|x| x.data().as_slice().to_vec())));
                    let _ = v.get_block_proposal_txs_ids(&h);
                    m.insert(format!("{name}/live.get_block_proposal_txs_ids after a stale view asked"), opt(live.get_block_proposal_txs_ids(&h).map(|x| x.as_slice().to_vec())));
                    let _ = v.get_block_txs_hashes(&h);
                    m.insert(format!("{name}/live.get_block_txs_hashes after a stale view asked"), live.get_block_txs_hashes(&h).iter().map(|t| hx(t.as_slice())).collect::<Vec<_>>().join(","));
                    let _ = v.get_block_header(&h);
                    m.insert(format!("{name}/live.get_block after a stale view asked"), opt(live.get_block(&h).map(|x| x.data().as_slice().to_vec())));
                }
                imm.push(m);
            }
            report.evaluations += imm[0].len() as u64 * 3;
            for (i, tag) in [(1usize, "default caches"), (2, "capacity 1")] {
                for (k, want) in &imm[0] {
                    let g = imm[i].get(k).cloned().unwrap_or_default();
                    if &g != want {
                        let what = k.split('/').last().unwrap_or(k).split(' ').next().unwrap_or("").to_string();
                        report.violation(format!("answer-differs/{what}"), format!("after {}: {k}: caches off -> {:.80}, {tag} -> {:.80}", trace.join(", "), want, g), label.clone());
                    }
                }
            }
            self.compare(&seen_blocks, &trace, &label, report, true, false)?;
            // the stale views are asked about every block (their answers must agree across the nodes
            // too), then the fresh views are asked again: a stale view must not leave anything behind
            // in a shared cache
            let stale: Vec<BTreeMap<String, String>> = old_views.iter().map(|v| {
                let mut m = BTreeMap::new();
                for (name, b) in &seen_blocks {
                    let h = b.hash();
                    m.insert(format!("{name}/stale.get_block_extension"), opt(v.get_block_extension(&h).map(|x| x.as_slice().to_vec())));
                    m.insert(format!("{name}/stale.get_block_header"), opt(v.get_block_header(&h).map(|x| x.data().as_slice().to_vec())));
                    m.insert(format!("{name}/stale.get_block"), opt(v.get_block(&h).map(|x| x.data().as_slice().to_vec())));
                    m.insert(format!("{name}/stale.get_block_uncles"), opt(v.get_block_uncles(&h).map(|x| x.data().as_slice().to_vec())));
                    m.insert(format!("{name}/stale.get_block_proposal_txs_ids"), opt(v.get_block_proposal_txs_ids(&h).map(|x| x.as_slice().to_vec())));
                    m.insert(format!("{name}/stale.get_block_txs_hashes"), v.get_block_txs_hashes(&h).iter().map(|t| hx(t.as_slice())).collect::<Vec<_>>().join(","));
                }
                m
            }).collect();
            // A stale view may or may not see a newer block's parts through the shared cache (the
            // statement does not promise snapshot isolation of the cache); what it must never do is
            // hand out a PARTIAL block: get_block answers None or the complete block.
            for (i, m) in stale.iter().enumerate() {
                for (name, b) in &seen_blocks {
                    let got = m.get(&format!("{name}/stale.get_block")).cloned().unwrap_or_default();
                    if got != "None" && got != hx(b.data().as_slice()) {
                        report.violation("stale-view-partial-block", format!("after {}: a view taken before block {name} arrived answers get_block with {} bytes that are not the block ({} bytes) on node N{i}", trace.join(", "), got.len() / 2, b.data().as_slice().len()), label.clone());
                    }
                }
            }
            self.compare(&seen_blocks, &trace, &label, report, true, false)?;
        }
        self.compare(&seen_blocks, &trace, &label, report, true, true)?;
        report.count("ms_events", t2.elapsed().as_millis() as u64);
        report.traces += 1;
        report.evaluations += 1;
        report.states.insert(fp(case));
        report.outcomes.insert(fp(&trace.iter().map(|t| t.split(" -> ").nth(1).unwrap_or("").to_string()).collect::<Vec<_>>()));
        if report.samples.len() < 2 && case.submits.len() >= 2 {
            report.sample(json!({"case": case, "trace": trace}));
        }
        Ok(())
    }

    fn compare(&self, blocks: &[(String, BlockView)], trace: &[String], label: &Value, report: &mut Report, queries: bool, raw: bool) -> Result<(), String> {
        let tc = std::time::Instant::now();
        let reference = if queries { battery(&self.n[0].node, blocks, &self.txs) } else { BTreeMap::new() };
        report.evaluations += reference.len() as u64;
        for (i, tag) in [(1usize, "default caches"), (2, "capacity 1")] {
            let got = if queries { battery(&self.n[i].node, blocks, &self.txs) } else { BTreeMap::new() };
            for (k, want) in &reference {
                let g = got.get(k).cloned().unwrap_or_default();
                if &g != want {
                    let what = k.split('/').last().unwrap_or(k).split(' ').next().unwrap_or("").to_string();
                    report.violation(format!("answer-differs/{what}"), format!("after {}: {k}: caches off -> {:.80}, {tag} -> {:.80}", trace.join(", "), want, g), label.clone());
                }
            }
            // pool entries: recorded cycles and fee
            let pool = |d: &Driver| -> Result<Vec<(String, u64, u64, u64)>, String> {
                let info = d.node.shared.tx_pool_controller().get_all_entry_info().map_err(|e| e.to_string())?;
                let mut v: Vec<(String, u64, u64, u64)> = info.pending.iter().chain(info.proposed.iter()).map(|(h, e)| (format!("{h}"), e.cycles, e.fee.as_u64(), e.size)).collect();
                v.sort();
                Ok(v)
            };
            let (p0, pi) = (pool(&self.n[0])?, pool(&self.n[i])?);
            if p0 != pi {
                report.violation("pool-entries-differ", format!("after {}: caches off -> {:?}, {tag} -> {:?}", trace.join(", "), p0, pi), label.clone());
            }
            // raw getters that ignore liveness: counted, not judged (no public query reaches them
            // for a dead cell)
            if !raw {
                continue;
            }
            let (r0, ri) = (raw_battery(&self.n[0].node, blocks), raw_battery(&self.n[i].node, blocks));
            let diff = r0.iter().filter(|(k, v)| ri.get(*k) != Some(v)).count();
            if diff > 0 {
                report.count("raw_getter_answers_differing_for_dead_cells", diff as u64);
            }
        }
        report.count("ms_compare", tc.elapsed().as_millis() as u64);
        Ok(())
    }
}

fn cases(tier: Tier) -> Vec<Case> {
    let mut out = vec![];
    let positions: Vec<u8> = if tier.is_thorough() { vec![NEVER, 0, 2, 3, 4, 7] } else { vec![NEVER, 0, 3] };
    // branch plans
    let mut plans: Vec<((u8, u8), (u8, u8), (u8, u8), bool)> = vec![];
    let ws: Vec<(u8, u8)> = if tier.is_thorough() { (0..3u8).flat_map(|a| (0..3u8).map(move |b| (a, b))).collect() } else { vec![(0, 0), (1, 0), (2, 0), (1, 2), (2, 1), (0, 2)] };
    let ss: Vec<(u8, u8)> = if tier.is_thorough() { vec![(0, 0), (4, 0), (3, 0), (0, 3), (4, 3), (0, 4), (4, 4)] } else { vec![(0, 0), (4, 0), (3, 0), (4, 3)] };
    let ts: Vec<(u8, u8)> = if tier.is_thorough() { vec![(0, 0), (1, 2), (2, 1)] } else { vec![(0, 0), (1, 2)] };
    for w in &ws {
        for s in &ss {
            for t in &ts {
                for conflict in [false, true] {
                    if !tier.is_thorough() && conflict && (*w, *s, *t) != ((1, 2), (4, 0), (1, 2)) {
                        continue;
                    }
                    plans.push((*w, *s, *t, conflict));
                }
            }
        }
    }
    for (w, s, t, conflict) in plans {
        // who is submitted: the variants that could warm a cache for this plan
        let mut cands: Vec<usize> = vec![];
        if w != (0, 0) {
            cands.extend([0, 1]);
        }
        if s != (0, 0) {
            cands.push(2);
        }
        if t != (0, 0) {
            cands.push(3);
        }
        let mut sets: Vec<Vec<(usize, u8)>> = vec![vec![]];
        for c in &cands {
            sets = sets.into_iter().flat_map(|p| positions.iter().map(move |x| { let mut q = p.clone(); if *x != NEVER { q.push((*c, *x)); } q })).collect();
        }
        sets.sort();
        sets.dedup();
        if !tier.is_thorough() {
            sets.retain(|x| x.len() <= 2);
        }
        for submits in sets {
            out.push(Case { w, s, t, conflict, submits });
        }
    }
    out.sort_by_key(|c| (c.submits.len(), c.w.0 + c.w.1 + c.s.0 + c.s.1));
    out
}

pub fn meta(tier: Tier) -> Meta {
    Meta {
        id: "C14",
        level: "model_checking",
        rule: "case = (placement of the witness-dependent tx W (good / bad witness, same tx hash) in a3 and b3, placement of the since-locked tx S in block 3 (premature) or 4 on each branch, parent/child pair in one or two blocks, conflicting Ta / Tb, submission position of each relevant tx incl. both witness variants) -> blocks a1..a4 | b1..b5 forged freshly, blocks after an invalid one not built; delivered with the submissions to three real nodes (chain + pool) differing only in caches: all store read caches and the tx verification cache at capacity 0 / default / 1; the default and capacity-1 nodes keep their caches across cases (rebooted every 25 cases). After EVERY event: identical submission verdicts, identical block verdicts and equal to the verdict by construction, identical pool entries (cycles, fee, size), after every block additionally a view taken BEFORE the block arrived is asked about every block and the fresh views are asked again; identical answers of a query battery (block, header, ext with fees/cycles/verified, uncles, proposals, extension, tx hashes, number, main-chain flag, epoch, ancestor, hash-by-number, transaction with info, cell status with data through the snapshot's CellProvider) over every block - including rejected ones and blocks that have not arrived yet -, transaction and out-point of the history. maturity family (strict nodes need one epoch of cellbase maturity; the forge, with maturity 0, can build on an immature spend): c1..c6 | a7..a10 | b7..b11 with M (spending the cellbase of block 6, mature from block 10) in a10 or not, in b9 (immature) / b10 / nowhere, submitted never or after c6 / a9 / a10; same comparisons, and the B branch must be refused at b11 iff M sits in b9. non-trivial = a case with an invalid block.",
        assumptions: &["raw ChainStore::get_cell_data / get_cell_data_hash on dead cells are counted, not judged (public queries reach cell data only through the liveness check)", "the hard-fork schedule is constant (all features active from genesis): VM version selection across a fork boundary with a warm cache is not exercised", "SYSTEM_CELL resolved-dep cache is process global and not varied"],
        bounds: json!({"positions": if tier.is_thorough() { json!(["never", 0, 2, 3, 4, 7]) } else { json!(["never", 0, 3]) }, "nodes": ["caches off", "default", "capacity 1"], "reboot_every": 25}),
    }
}

pub fn run(ctx: &Ctx) -> Report {
    let mut report = Report::new();
    let mut nodes = match Nodes::new(ctx) {
        Ok(n) => n,
        Err(e) => {
            report.machinery_errors.push(e);
            return report;
        }
    };
    if let Some(path) = &ctx.replay {
        let v: Value = load_replay_case(path);
        let seq: Vec<Case> = serde_json::from_value(v["sequence_since_boot"].clone()).expect("sequence");
        for c in &seq {
            if let Err(e) = nodes.run_case(c, &mut report) {
                report.machinery_errors.push(e);
                break;
            }
        }
        report.outcomes.insert(0);
        report.outcomes.insert(1);
        return report;
    }
    let all = cases(ctx.tier);
    report.count("cases_total", if ctx.shard == 0 { all.len() as u64 } else { 0 });
    // the last worker runs the maturity family only; the others share the main cases
    let main_workers = if ctx.shards > 1 { ctx.shards - 1 } else { 1 };
    let maturity_worker = ctx.shards == 1 || ctx.shard == ctx.shards - 1;
    for (i, case) in all.iter().enumerate() {
        if (ctx.shards > 1 && ctx.shard == ctx.shards - 1) || i % main_workers != ctx.shard % main_workers.max(1) {
            continue;
        }
        if ctx.out_of_time() {
            report.cap_hit = Some(format!("wall budget reached at case {i} of {}", all.len()));
            break;
        }
        if let Err(e) = nodes.maybe_reboot(ctx, 25) {
            report.machinery_errors.push(e);
            break;
        }
        if let Err(e) = nodes.run_case(case, &mut report) {
            report.machinery_errors.push(format!("{case:?}: {e}"));
            break;
        }
    }
    // the system-cell family (two child processes; first worker)
    if report.cap_hit.is_none() && report.machinery_errors.is_empty() && ctx.shard == 0 {
        if let Err(e) = system_cell_family(ctx, &mut report) {
            report.machinery_errors.push(format!("system-cell family: {e}"));
        }
    }
    // the maturity family (one worker)
    if report.cap_hit.is_none() && report.machinery_errors.is_empty() && maturity_worker {
        for d in nodes.n.drain(..) {
            d.node.destroy();
        }
        match Nodes::new_maturity(ctx) {
            Ok(mut mn) => {
                'outer: for m_on_a in [true, false] {
                    for m_on_b in [9u64, 10, 0] {
                        for submit_at in [None, Some(9usize), Some(10), Some(6)] {
                            if ctx.out_of_time() {
                                report.cap_hit = Some("maturity family: wall budget".into());
                                break 'outer;
                            }
                            if let Err(e) = mn.run_maturity_case(m_on_a, m_on_b, submit_at, &mut report) {
                                report.machinery_errors.push(format!("maturity case ({m_on_a}, {m_on_b}, {submit_at:?}): {e}"));
                                break 'outer;
                            }
                        }
                    }
                }
            }
            Err(e) => report.machinery_errors.push(e),
        }
    }
    report
}

// ---------------------------------------------------------------------------------------
// System-cell family.  `ckb run` resolves the genesis system cells (three code / data cells of
// genesis transaction 0, two dep groups of transaction 1) once and keeps them in a process-wide
// cache that answers for them without asking the cell provider.  Two child processes run the
// same node on the same world (genesis shaped the way the cache expects, every system cell
// unspendable): one calls `setup_system_cell_cache` exactly as `ckb run` does, the other never
// does.  Every system cell is referenced as a cell dep with each dep type - by a transaction
// judged by the pool (`test_accept_tx`) and by a block that commits it - and the two processes
// must give the same verdicts; the cache-less process must in addition give the verdicts known by
// construction (a code / data cell named as a dep group is refused, everything else accepted).

fn syscell_world() -> Consensus {
    let mut w = WorldOpts::default();
    w.system_cells = true;
    consensus(&w)
}

/// (name, out point, dep type, valid by construction)
fn syscell_candidates(cons: &Consensus) -> Vec<(String, TransactionView, bool)> {
    use ckb_types::core::DepType;
    let g = cons.genesis_block();
    let t0 = g.transactions()[0].hash();
    let t1 = g.transactions()[1].hash();
    let cells = genesis_cells(cons);
    let refs: Vec<(&str, packed::OutPoint, DepType, bool)> = vec![
        ("code2-as-code", packed::OutPoint::new(t0.clone(), 1), DepType::Code, true),
        ("code2-as-group", packed::OutPoint::new(t0.clone(), 1), DepType::DepGroup, false),
        ("data2-as-group", packed::OutPoint::new(t0.clone(), 2), DepType::DepGroup, false),
        ("data3-as-group", packed::OutPoint::new(t0.clone(), 3), DepType::DepGroup, false),
        ("group0-as-code", packed::OutPoint::new(t1.clone(), 0), DepType::Code, true),
        ("group0-as-group", packed::OutPoint::new(t1.clone(), 0), DepType::DepGroup, true),
        ("group1-as-code", packed::OutPoint::new(t1.clone(), 1), DepType::Code, true),
        ("group1-as-group", packed::OutPoint::new(t1.clone(), 1), DepType::DepGroup, true),
    ];
    refs.into_iter()
        .enumerate()
        .map(|(i, (name, op, dt, ok))| {
            let base = simple_tx(cons, &cells[i..i + 1], 1, 1_000_000, 200 + i as u8);
            let dep = packed::CellDep::new_builder().out_point(op).dep_type(dt).build();
            (name.to_string(), base.as_advanced_builder().cell_dep(dep).build(), ok)
        })
        .collect()
}

/// child: `ckbmc syscellrun <dir> <0|1>` prints one line `VERDICTS <json>`
pub fn syscellrun_main(args: &[String]) -> i32 {
    let dir = std::path::Path::new(&args[0]);
    let setup = args[1] == "1";
    let cons = syscell_world();
    set_time(time_for_height(20));
    let go = || -> Result<Value, String> {
        let mut opts = NodeOpts::new(cons.clone()).with_pool();
        opts.tx_pool_config = Some(pool_config());
        let node = Node::boot(dir, &opts)?;
        node.wait_startup()?;
        if setup {
            ckb_types::core::cell::setup_system_cell_cache(node.shared.consensus().genesis_block(), node.shared.snapshot().as_ref()).map_err(|_| "SYSTEM_CELL cache was already set".to_string())?;
        }
        let cands = syscell_candidates(&cons);
        let mut out = serde_json::Map::new();
        // pool path
        for (name, tx, _) in &cands {
            let r = node.shared.tx_pool_controller().test_accept_tx(tx.clone()).map_err(|e| e.to_string())?;
            out.insert(format!("pool/{name}"), json!(match r {
                Ok(c) => format!("accepted cycles={}", c.cycles),
                Err(e) => format!("rejected {}", err_class(&e.to_string())),
            }));
        }
        // block path: b1 proposes every id, b2 is empty, then one sibling b3 per candidate commits it
        // (assembled around a twin without the extra dep: inputs and outputs, hence DAO field and
        // fees, are the same)
        let ids: Vec<packed::ProposalShortId> = cands.iter().map(|c| c.1.proposal_short_id()).collect();
        let snap = std::sync::Arc::clone(&node.shared.snapshot());
        let b1 = crate::forge::assemble(&snap, &crate::forge::BlockSpec { miner: 1, proposals: ids, ..Default::default() })?;
        node.process(&b1).map_err(|e| format!("b1 refused: {e}"))?;
        let snap = std::sync::Arc::clone(&node.shared.snapshot());
        let b2 = crate::forge::assemble(&snap, &crate::forge::BlockSpec { miner: 1, ..Default::default() })?;
        node.process(&b2).map_err(|e| format!("b2 refused: {e}"))?;
        let snap = std::sync::Arc::clone(&node.shared.snapshot());
        let cells = genesis_cells(&cons);
        for (i, (name, tx, _)) in cands.iter().enumerate() {
            let twin = simple_tx(&cons, &cells[i..i + 1], 1, 1_000_000, 200 + i as u8);
            let b3 = crate::forge::assemble(&snap, &crate::forge::BlockSpec { miner: 2, txs: vec![twin], ts_offset: i as u64 + 1, ..Default::default() })?;
            let cellbase = b3.transactions()[0].clone();
            let b3 = b3.as_advanced_builder().set_transactions(vec![cellbase, tx.clone()]).build();
            let r = node.process(&b3);
            out.insert(format!("block/{name}"), json!(match r {
                Ok(v) => format!("accepted {v}"),
                Err(e) => format!("rejected {}", err_class(&e.to_string())),
            }));
            // back to b2 for the next sibling
            if node.tip().hash() != b2.hash() {
                node.chain().truncate(b2.hash()).map_err(|e| format!("truncate: {e}"))?;
            }
        }
        Ok(Value::Object(out))
    };
    match go() {
        Ok(v) => {
            println!("VERDICTS {v}");
            use std::io::Write;
            let _ = std::io::stdout().flush();
            unsafe extern "C" {
                fn _exit(code: i32) -> !;
            }
            unsafe { _exit(0) }
        }
        Err(e) => {
            eprintln!("syscellrun: {e}");
            3
        }
    }
}

fn system_cell_family(ctx: &Ctx, report: &mut Report) -> Result<(), String> {
    let exe = std::env::current_exe().map_err(|e| e.to_string())?;
    let mut outs: Vec<serde_json::Map<String, Value>> = vec![];
    for setup in ["0", "1"] {
        let dir = ctx.scratch.join(format!("syscell-{setup}"));
        let _ = std::fs::remove_dir_all(&dir);
        let out = std::process::Command::new(&exe).arg("syscellrun").arg(&dir).arg(setup).output().map_err(|e| e.to_string())?;
        let so = String::from_utf8_lossy(&out.stdout).to_string();
        let line = so.lines().find_map(|l| l.strip_prefix("VERDICTS ")).ok_or_else(|| format!("child (cache={setup}) gave no verdicts: exit {:?}: {}", out.status.code(), String::from_utf8_lossy(&out.stderr).lines().rev().take(5).collect::<Vec<_>>().join(" | ")))?;
        let v: Value = serde_json::from_str(line).map_err(|e| e.to_string())?;
        outs.push(v.as_object().cloned().ok_or("verdicts are not an object")?);
        let _ = std::fs::remove_dir_all(&dir);
    }
    let cons = syscell_world();
    let expect: BTreeMap<String, bool> = syscell_candidates(&cons).into_iter().map(|(n, _, ok)| (n, ok)).collect();
    let (cold, cached) = (&outs[0], &outs[1]);
    for (k, v0) in cold {
        let v1 = cached.get(k).cloned().unwrap_or(Value::Null);
        report.evaluations += 1;
        report.transitions += 2;
        let label = json!({"family": "system-cell-cache", "query": k});
        if *v0 != v1 {
            report.violation("system-cell-cache/verdict-differs", format!("{k}: the node that never set up the system-cell cache answers {v0}, the node that did (as `ckb run` does) answers {v1}"), label.clone());
        }
        let name = k.split('/').nth(1).unwrap_or("");
        let accepted = v0.as_str().map(|s| s.starts_with("accepted")).unwrap_or(false);
        if let Some(ok) = expect.get(name) {
            if *ok != accepted {
                report.violation("system-cell-cache/cold-verdict-unexpected", format!("{k}: the cache-less node answers {v0}, by construction the transaction is {}", if *ok { "valid" } else { "invalid" }), label.clone());
            }
        }
        report.outcomes.insert(fp(&("syscell", v0.to_string())));
        report.states.insert(fp(&("syscell", k)));
        report.nontrivial.insert(fp(&("syscell", k)));
    }
    report.traces += 2;
    report.count("system_cell_queries", cold.len() as u64);
    Ok(())
}
