//! C18 — the indexer's answers equal filtering the chain's live cells and transactions.
//!
//! A real node (chain only) and the real `IndexerService` on a secondary handle of the node's
//! database.  The indexer follows the node with the production sync loop (`try_loop_sync`, run
//! synchronously through a hook) across two reorganisations; after every delivery the whole
//! search-key grid is asked through the public `IndexerHandle` and compared with a plain filter
//! over the main chain.  A second family walks explicit append / rollback sequences and compares
//! the raw index store byte for byte (rollback restores exactly what was there).
use crate::core::*;
use crate::forge::*;
use crate::node::*;
use crate::world::*;
use ckb_app_config::{DBConfig, IndexerConfig};
use ckb_chain_spec::consensus::Consensus;
use ckb_indexer::IndexerService;
use ckb_indexer_sync::{PoolService, new_secondary_db};
use ckb_jsonrpc_types::{IndexerOrder, IndexerSearchKey, JsonBytes};
use ckb_types::{
    bytes::Bytes,
    core::{BlockView, Capacity, TransactionBuilder, TransactionView},
    packed::{self, CellInput, CellOutput, OutPoint, Script},
    prelude::*,
};
use serde_json::{Value, json};
use std::collections::BTreeMap;

fn hx(b: &[u8]) -> String {
    format!("0x{}", b.iter().map(|x| format!("{x:02x}")).collect::<String>())
}

fn script(args: &[u8]) -> Script {
    always_success_lock().as_builder().args(Bytes::from(args.to_vec()).pack()).build()
}

fn raw(s: &Script) -> Vec<u8> {
    let mut v = s.code_hash().as_slice().to_vec();
    v.push(Into::<u8>::into(s.hash_type()));
    v.extend_from_slice(&s.args().raw_data());
    v
}

fn script_json(s: &Script) -> Value {
    serde_json::to_value(ckb_jsonrpc_types::Script::from(s.clone())).unwrap()
}

/// (lock args, type args, data, capacity in CKB)
type OutSpec = (&'static [u8], Option<&'static [u8]>, &'static [u8], u64);

fn tx_with(cons: &Consensus, inputs: &[(OutPoint, u64)], outs: &[OutSpec], salt: u8) -> TransactionView {
    let total: u64 = inputs.iter().map(|i| i.1).sum();
    let mut b = TransactionBuilder::default().cell_dep(always_success_dep(cons));
    for (op, _) in inputs {
        b = b.input(CellInput::new(op.clone(), 0));
    }
    let fee = 1_000_000 + salt as u64;
    let fixed: u64 = outs.iter().skip(1).map(|o| o.3 * 100_000_000).sum();
    for (k, (lock, ty, data, cap)) in outs.iter().enumerate() {
        let cap = if k == 0 { total - fee - fixed } else { cap * 100_000_000 };
        let mut o = CellOutput::new_builder().capacity(Capacity::shannons(cap)).lock(script(lock));
        if let Some(t) = ty {
            o = o.type_(Some(script(t)).pack());
        }
        b = b.output(o.build()).output_data(Bytes::from(data.to_vec()).pack());
    }
    b.build()
}

pub struct Universe {
    pub a: Vec<BlockView>,
    pub b: Vec<BlockView>,
}

pub fn build(forge: &mut Forge, cons: &Consensus) -> Result<Universe, String> {
    let g = genesis_cells(cons);
    // branch A
    let x1 = tx_with(cons, &g[0..1], &[(b"ab", None, b"d1", 0), (b"abc", Some(b"ab"), b"hello", 1_000), (b"abd", None, b"", 2_000), (b"", Some(b"abc"), b"d", 3_000)], 1);
    // created and consumed in the same block
    let x2 = tx_with(cons, &[out(&x1, 0)], &[(b"ab", None, b"xyz", 0), (b"abc", None, b"d2", 500)], 2);
    // (a lock whose args extend "ab" by a zero byte: its index keys sort between the block-0 keys and
    // the later keys of "ab")
    let x3 = tx_with(cons, &[out(&x1, 1), g[1].clone()], &[(b"abc", Some(b"ab"), b"", 0), (b"ab", Some(b"abc"), b"dd", 700), (b"ab\x00", Some(b"ab\x00\x01"), b"z", 650)], 3);
    // (a TYPE script byte-identical to the LOCK of the genesis cells - empty args: the SQL indexer
    // keeps one script row for both roles, and a rollback of this block must not take the row
    // away from the cells that still use it as their lock)
    // (a lock whose args continue "ab" with 24 bytes of 0xff: in a descending prefix search its keys
    // lie behind every key a short fixed-length upper bound could name)
    let x4 = tx_with(cons, &[out(&x2, 1)], &[(b"abd", None, b"tail", 0), (b"ab", Some(b""), b"t1", 200), (b"ab\xff\xff\xff\xff\xff\xff\xff\xff\xff\xff\xff\xff\xff\xff\xff\xff\xff\xff\xff\xff\xff\xff\xff\xff", None, b"ff", 170)], 4);
    // branch B
    let y1 = tx_with(cons, &g[0..1], &[(b"abd", Some(b"ab"), b"d9", 0), (b"ab", None, b"", 4_000)], 11);
    let y2 = tx_with(cons, &g[2..3], &[(b"abc", None, b"dz", 0), (b"abc", Some(b"abc"), b"q", 900), (b"ab\x00", None, b"", 640), (b"abc", Some(b""), b"t0", 610)], 12);
    let y3 = tx_with(cons, &[out(&y1, 1), out(&y2, 0)], &[(b"", None, b"merged", 0)], 13);
    let ids = |txs: &[&TransactionView]| txs.iter().map(|t| t.proposal_short_id()).collect::<Vec<_>>();
    let genesis = cons.genesis_hash();
    let mut a = vec![];
    let mut parent = genesis.clone();
    for n in 1..=6u64 {
        let mut spec = BlockSpec { miner: 1, ..Default::default() };
        match n {
            1 => spec.proposals = ids(&[&x1, &x2, &x3, &x4]),
            3 => spec.txs = vec![x1.clone(), x2.clone()],
            4 => spec.txs = vec![x3.clone()],
            5 => spec.txs = vec![x4.clone()],
            _ => {}
        }
        let blk = forge.build_on(&parent, &spec)?;
        parent = blk.hash();
        a.push(blk);
    }
    let mut b = vec![];
    let mut parent = genesis;
    for n in 1..=5u64 {
        let mut spec = BlockSpec { miner: 2, ts_offset: 1, ..Default::default() };
        match n {
            1 => spec.proposals = ids(&[&y1, &y2, &y3]),
            3 => spec.txs = vec![y1.clone(), y2.clone()],
            5 => spec.txs = vec![y3.clone()],
            _ => {}
        }
        let blk = forge.build_on(&parent, &spec)?;
        parent = blk.hash();
        b.push(blk);
    }
    Ok(Universe { a, b })
}

/// plain replay of the main chain
#[derive(Clone, Debug)]
struct Cell {
    out_point: OutPoint,
    output: CellOutput,
    data: Vec<u8>,
    block: u64,
    tx_index: u32,
}

struct Reference {
    live: Vec<Cell>,
    /// (script raw, is_type, block, tx_index, io_index, io_type 0 in / 1 out, tx hash, the cell)
    history: Vec<(Vec<u8>, bool, u64, u32, u32, u8, packed::Byte32, Cell)>,
    tip: (u64, packed::Byte32),
}

fn reference(chain: &[BlockView]) -> Reference {
    let mut cells: BTreeMap<Vec<u8>, Cell> = BTreeMap::new();
    let mut history = vec![];
    for blk in chain {
        for (ti, tx) in blk.transactions().iter().enumerate() {
            if ti > 0 {
                for (ii, inp) in tx.input_pts_iter().enumerate() {
                    if let Some(c) = cells.remove(&inp.as_slice().to_vec()) {
                        history.push((raw(&c.output.lock()), false, blk.number(), ti as u32, ii as u32, 0u8, tx.hash(), c.clone()));
                        if let Some(t) = c.output.type_().to_opt() {
                            history.push((raw(&t), true, blk.number(), ti as u32, ii as u32, 0u8, tx.hash(), c.clone()));
                        }
                    }
                }
            }
            for (oi, (o, d)) in tx.outputs_with_data_iter().enumerate() {
                let c = Cell { out_point: OutPoint::new(tx.hash(), oi as u32), output: o.clone(), data: d.to_vec(), block: blk.number(), tx_index: ti as u32 };
                history.push((raw(&o.lock()), false, blk.number(), ti as u32, oi as u32, 1u8, tx.hash(), c.clone()));
                if let Some(t) = o.type_().to_opt() {
                    history.push((raw(&t), true, blk.number(), ti as u32, oi as u32, 1u8, tx.hash(), c.clone()));
                }
                cells.insert(c.out_point.as_slice().to_vec(), c);
            }
        }
    }
    let tipb = chain.last().unwrap();
    Reference { live: cells.into_values().collect(), history, tip: (tipb.number(), tipb.hash()) }
}

#[derive(Clone, Debug)]
struct Query {
    script: Script,
    is_type: bool,
    exact: bool,
    filter_script: Option<Script>,
    block_range: Option<(u64, u64)>,
    capacity_range: Option<(u64, u64)>,
    data_len_range: Option<(u64, u64)>,
    data_prefix: Option<Vec<u8>>,
    desc: bool,
}

impl Query {
    fn key(&self, group: bool) -> IndexerSearchKey {
        let mut filter = serde_json::Map::new();
        if let Some(s) = &self.filter_script {
            filter.insert("script".into(), script_json(s));
        }
        let r = |x: (u64, u64)| json!([format!("{:#x}", x.0), format!("{:#x}", x.1)]);
        if let Some(x) = self.block_range {
            filter.insert("block_range".into(), r(x));
        }
        if let Some(x) = self.capacity_range {
            filter.insert("output_capacity_range".into(), r(x));
        }
        if let Some(x) = self.data_len_range {
            filter.insert("output_data_len_range".into(), r(x));
        }
        if let Some(d) = &self.data_prefix {
            filter.insert("output_data".into(), json!(hx(d)));
        }
        let mut v = json!({"script": script_json(&self.script), "script_type": if self.is_type { "type" } else { "lock" }});
        if self.exact {
            v["script_search_mode"] = json!("exact");
        }
        if !filter.is_empty() {
            v["filter"] = Value::Object(filter);
        }
        if group {
            v["group_by_transaction"] = json!(true);
        }
        serde_json::from_value(v).expect("search key")
    }

    fn label(&self) -> Value {
        json!({"script_args": hx(&self.script.args().raw_data()), "script_type": if self.is_type { "type" } else { "lock" }, "mode": if self.exact { "exact" } else { "prefix" }, "filter_script_args": self.filter_script.as_ref().map(|s| hx(&s.args().raw_data())), "block_range": self.block_range, "capacity_range": self.capacity_range, "data_len_range": self.data_len_range, "data_prefix": self.data_prefix.as_ref().map(|d| hx(d)), "order": if self.desc { "desc" } else { "asc" }})
    }

    fn script_matches(&self, cell_script_raw: &[u8]) -> bool {
        let want = raw(&self.script);
        if self.exact { cell_script_raw == want.as_slice() } else { cell_script_raw.starts_with(&want) }
    }

    fn cell_matches(&self, c: &Cell, cells_filters: bool) -> Option<Vec<u8>> {
        let own = if self.is_type { c.output.type_().to_opt().map(|t| raw(&t))? } else { raw(&c.output.lock()) };
        if !self.script_matches(&own) {
            return None;
        }
        if let Some(f) = &self.filter_script {
            let other = if self.is_type { Some(raw(&c.output.lock())) } else { c.output.type_().to_opt().map(|t| raw(&t)) };
            match other {
                Some(o) if o.starts_with(&raw(f)) => {}
                _ => return None,
            }
        }
        if let Some((a, b)) = self.block_range {
            if c.block < a || c.block >= b {
                return None;
            }
        }
        if cells_filters {
            let cap: u64 = c.output.capacity().unpack();
            if let Some((a, b)) = self.capacity_range {
                if cap < a || cap >= b {
                    return None;
                }
            }
            if let Some((a, b)) = self.data_len_range {
                if (c.data.len() as u64) < a || (c.data.len() as u64) >= b {
                    return None;
                }
            }
            if let Some(p) = &self.data_prefix {
                if !c.data.starts_with(p) {
                    return None;
                }
            }
        }
        Some(own)
    }
}

fn grid(thorough: bool) -> Vec<Query> {
    let mut out = vec![];
    let scripts: Vec<&[u8]> = vec![b"", b"a", b"ab", b"ab\x00", b"abc", b"abd", b"zz"];
    let shannons = 100_000_000u64;
    for args in &scripts {
        for is_type in [false, true] {
            for exact in [false, true] {
                let base = Query { script: script(args), is_type, exact, filter_script: None, block_range: None, capacity_range: None, data_len_range: None, data_prefix: None, desc: false };
                let mut variants = vec![base.clone()];
                variants.push(Query { filter_script: Some(script(b"ab")), ..base.clone() });
                variants.push(Query { filter_script: Some(script(b"")), ..base.clone() });
                variants.push(Query { block_range: Some((0, 3)), ..base.clone() });
                variants.push(Query { block_range: Some((3, 4)), ..base.clone() });
                variants.push(Query { block_range: Some((4, u64::MAX)), ..base.clone() });
                variants.push(Query { block_range: Some((3, 3)), ..base.clone() });
                variants.push(Query { capacity_range: Some((0, 1_000 * shannons)), ..base.clone() });
                variants.push(Query { capacity_range: Some((1_000 * shannons, 1_000 * shannons + 1)), ..base.clone() });
                variants.push(Query { data_len_range: Some((0, 1)), ..base.clone() });
                variants.push(Query { data_len_range: Some((1, 4)), ..base.clone() });
                variants.push(Query { data_prefix: Some(b"d".to_vec()), ..base.clone() });
                if thorough {
                    variants.push(Query { filter_script: Some(script(b"abc")), block_range: Some((3, 6)), ..base.clone() });
                    variants.push(Query { data_prefix: Some(b"d".to_vec()), data_len_range: Some((2, 3)), ..base.clone() });
                    variants.push(Query { capacity_range: Some((500 * shannons, 3_000 * shannons)), block_range: Some((0, 4)), ..base.clone() });
                }
                for v in variants {
                    out.push(v.clone());
                    out.push(Query { desc: true, ..v });
                }
            }
        }
    }
    out
}

struct Rig {
    cons: Consensus,
    node: Node,
    svc: IndexerService,
    /// the SQL (sqlite) rich indexer on a secondary handle of its own
    rich: ckb_rich_indexer::RichIndexerService,
}

/// the two indexers behind one set of calls
enum Asker {
    Rocks(ckb_indexer::IndexerHandle),
    Rich(ckb_rich_indexer::AsyncRichIndexerHandle),
}

impl Asker {
    fn is_rich(&self) -> bool {
        matches!(self, Asker::Rich(_))
    }
    fn tip(&self) -> Result<Option<ckb_jsonrpc_types::IndexerTip>, String> {
        match self {
            Asker::Rocks(h) => h.get_indexer_tip().map_err(|e| format!("{e:?}")),
            Asker::Rich(h) => runtime().block_on(h.get_indexer_tip()).map_err(|e| format!("{e:?}")),
        }
    }
    fn cells(&self, key: IndexerSearchKey, order: IndexerOrder, limit: ckb_jsonrpc_types::Uint32, after: Option<JsonBytes>) -> Result<ckb_jsonrpc_types::IndexerPagination<ckb_jsonrpc_types::IndexerCell>, String> {
        match self {
            Asker::Rocks(h) => h.get_cells(key, order, limit, after).map_err(|e| format!("{e:?}")),
            Asker::Rich(h) => runtime().block_on(h.get_cells(key, order, limit, after)).map_err(|e| format!("{e:?}")),
        }
    }
    fn capacity(&self, key: IndexerSearchKey) -> Result<Option<ckb_jsonrpc_types::IndexerCellsCapacity>, String> {
        match self {
            Asker::Rocks(h) => h.get_cells_capacity(key).map_err(|e| format!("{e:?}")),
            Asker::Rich(h) => runtime().block_on(h.get_cells_capacity(key)).map_err(|e| format!("{e:?}")),
        }
    }
    fn txs(&self, key: IndexerSearchKey, order: IndexerOrder, limit: ckb_jsonrpc_types::Uint32, after: Option<JsonBytes>) -> Result<ckb_jsonrpc_types::IndexerPagination<ckb_jsonrpc_types::IndexerTx>, String> {
        match self {
            Asker::Rocks(h) => h.get_transactions(key, order, limit, after).map_err(|e| format!("{e:?}")),
            Asker::Rich(h) => runtime().block_on(h.get_transactions(key, order, limit, after)).map_err(|e| format!("{e:?}")),
        }
    }
}

fn boot(ctx: &Ctx, tag: &str) -> Result<Rig, String> {
    let cons = consensus(&WorldOpts::default());
    let dir = ctx.scratch.join(format!("c18-{tag}"));
    let _ = std::fs::remove_dir_all(&dir);
    set_time(time_for_height(40));
    let node = Node::boot(&dir, &NodeOpts::new(cons.clone()))?;
    node.wait_startup()?;
    let db_config = DBConfig { path: dir.join("db"), ..Default::default() };
    let mut ic = IndexerConfig::default();
    ic.store = dir.join("indexer/store");
    ic.secondary_path = dir.join("indexer/secondary");
    std::fs::create_dir_all(&ic.store).map_err(|e| e.to_string())?;
    std::fs::create_dir_all(&ic.secondary_path).map_err(|e| e.to_string())?;
    let handle = runtime();
    let secondary = new_secondary_db(&db_config, &(&ic).into());
    let pool_service = PoolService::new(false, handle.clone());
    let svc = IndexerService::new(secondary, pool_service, &ic, handle.clone());
    let mut rc = IndexerConfig::default();
    rc.store = dir.join("rich/store");
    rc.secondary_path = dir.join("rich/secondary");
    rc.rich_indexer.store = dir.join("rich/sqlite/sqlite.db");
    std::fs::create_dir_all(&rc.secondary_path).map_err(|e| e.to_string())?;
    std::fs::create_dir_all(dir.join("rich/sqlite")).map_err(|e| e.to_string())?;
    let secondary2 = new_secondary_db(&db_config, &(&rc).into());
    let rich = ckb_rich_indexer::RichIndexerService::new(secondary2, PoolService::new(false, handle.clone()), &rc, handle);
    Ok(Rig { cons, node, svc, rich })
}

fn cell_tuple(c: &Cell) -> (String, u32, u64, u32, String, String) {
    (hx(c.out_point.tx_hash().as_slice()), c.out_point.index().unpack(), c.block, c.tx_index, hx(c.output.as_slice()), hx(&c.data))
}

/// every query of the grid against the reference
fn ask_all(rig: &Rig, r: &Reference, queries: &[Query], step: &str, label: &Value, report: &mut Report) {
    ask_one(&Asker::Rocks(rig.svc.handle()), r, queries, step, label, report);
}

/// the rich indexer: the same questions; its result order is its own (insertion ids), so lists are
/// compared as sets (sorted) and page concatenation must still be exhaustive and duplicate-free
fn ask_rich(rig: &Rig, r: &Reference, queries: &[Query], step: &str, label: &Value, report: &mut Report) {
    ask_one(&Asker::Rich(rig.rich.async_handle()), r, queries, step, label, report);
}

fn ask_one(h: &Asker, r: &Reference, queries: &[Query], step: &str, label: &Value, report: &mut Report) {
    let rich = h.is_rich();
    let pfx = if rich { "rich/" } else { "" };
    // tip
    match h.tip() {
        Ok(Some(t)) => {
            let got: (u64, packed::Byte32) = (t.block_number.into(), t.block_hash.pack());
            if got != r.tip {
                report.violation(format!("{pfx}tip-differs"), format!("{step}: indexer tip {} / {}, main chain tip {} / {}", got.0, got.1, r.tip.0, r.tip.1), label.clone());
            }
        }
        other => report.violation(format!("{pfx}tip-missing"), format!("{step}: get_indexer_tip = {:?}", other.map(|x| x.map(|t| t.block_number))), label.clone()),
    }
    for q in queries {
        // the SQL indexer is an order of magnitude slower per query: it gets the part of the grid
        // that varies what its tables join on (script, role, mode, other-script filter, one block
        // range), ascending, plus descending for the plain key
        if rich && (q.capacity_range.is_some() || q.data_len_range.is_some() || q.data_prefix.is_some() || !(q.block_range.is_none() || q.block_range == Some((3, 4))) || (q.desc && (q.filter_script.is_some() || q.block_range.is_some())) || q.filter_script.as_ref().map(|f| f.args().raw_data().is_empty()).unwrap_or(false)) {
            continue;
        }
        let qlabel = json!({"history": label, "query": q.label(), "step": step, "indexer": if rich { "rich (sqlite)" } else { "rocksdb" }});
        // ---- get_cells
        let mut want: Vec<(Vec<u8>, Cell)> = r.live.iter().filter_map(|c| q.cell_matches(c, true).map(|own| {
            let mut k = own;
            k.extend_from_slice(&c.block.to_be_bytes());
            k.extend_from_slice(&c.tx_index.to_be_bytes());
            k.extend_from_slice(&Unpack::<u32>::unpack(&c.out_point.index()).to_be_bytes());
            (k, c.clone())
        })).collect();
        want.sort_by(|a, b| a.0.cmp(&b.0));
        if q.desc {
            want.reverse();
        }
        let want_cells: Vec<_> = want.iter().map(|(_, c)| cell_tuple(c)).collect();
        for limit in if rich { vec![1u32, 1000] } else { vec![1u32, 2, 1000] } {
            let mut got = vec![];
            let mut cursor: Option<JsonBytes> = None;
            let mut pages = 0;
            loop {
                let page = match h.cells(q.key(false), if q.desc { IndexerOrder::Desc } else { IndexerOrder::Asc }, limit.into(), cursor.clone()) {
                    Ok(p) => p,
                    Err(e) => {
                        report.violation(format!("{pfx}get_cells/error"), format!("{step}: {e:?}"), qlabel.clone());
                        break;
                    }
                };
                pages += 1;
                let n = page.objects.len();
                for c in page.objects {
                    let output: packed::CellOutput = c.output.into();
                    let op: packed::OutPoint = c.out_point.into();
                    got.push((hx(op.tx_hash().as_slice()), Unpack::<u32>::unpack(&op.index()), c.block_number.value(), c.tx_index.value(), hx(output.as_slice()), c.output_data.map(|d| hx(d.as_bytes())).unwrap_or_default()));
                }
                if n < limit as usize || pages > 200 {
                    break;
                }
                cursor = Some(page.last_cursor);
            }
            report.evaluations += 1;
            let (mut got, mut want_cells) = (got, want_cells.clone());
            if rich {
                got.sort();
                want_cells.sort();
            }
            if got != want_cells {
                report.violation(format!("{pfx}get_cells/{}", if got.len() != want_cells.len() { "different-set" } else { "different-order-or-content" }), format!("{step}: limit {limit}: indexer returned {} cells {:?}, the filter over the main chain's live cells gives {} {:?}", got.len(), got.iter().map(|c| format!("{}#{}", &c.0[..10], c.1)).collect::<Vec<_>>(), want_cells.len(), want_cells.iter().map(|c| format!("{}#{}", &c.0[..10], c.1)).collect::<Vec<_>>()), qlabel.clone());
            }
            if !want_cells.is_empty() {
                report.nontrivial.insert(fp(&(format!("{:?}", q.label()), limit)));
            }
        }
        // ---- get_cells_capacity
        match h.capacity(q.key(false)) {
            Ok(Some(c)) => {
                let want_cap: u64 = want.iter().map(|(_, c)| Unpack::<u64>::unpack(&c.output.capacity())).sum();
                let got_cap: u64 = c.capacity.value();
                if got_cap != want_cap {
                    report.violation(format!("{pfx}get_cells_capacity/different-sum"), format!("{step}: indexer {got_cap}, filter over live cells {want_cap}"), qlabel.clone());
                }
            }
            // (the rich indexer answers None where there is nothing to sum)
            Ok(None) if rich && want.is_empty() => {}
            Ok(None) => report.violation(format!("{pfx}get_cells_capacity/none"), format!("{step}: None"), qlabel.clone()),
            Err(e) => report.violation(format!("{pfx}get_cells_capacity/error"), format!("{step}: {e:?}"), qlabel.clone()),
        }
        report.evaluations += 1;
        // ---- get_transactions (the cell-content filters are not supported there)
        if q.capacity_range.is_some() || q.data_len_range.is_some() || q.data_prefix.is_some() {
            continue;
        }
        let mut wanth: Vec<(Vec<u8>, (String, u64, u32, u32, u8))> = r
            .history
            .iter()
            .filter(|(sraw, is_type, ..)| *is_type == q.is_type && q.script_matches(sraw))
            .filter(|(_, _, blk, _, _, _, _, cell)| {
                if let Some((a, b)) = q.block_range {
                    if *blk < a || *blk >= b {
                        return false;
                    }
                }
                // in get_transactions the other-script filter is an exact match (RPC doc: "filter cells
                // by type script", without "prefix"), unlike get_cells
                if let Some(f) = &q.filter_script {
                    let other = if q.is_type { Some(raw(&cell.output.lock())) } else { cell.output.type_().to_opt().map(|t| raw(&t)) };
                    // (the rich indexer documents a prefix match for this filter in both calls)
                    return matches!(other, Some(o) if if rich { o.starts_with(&raw(f)) } else { o == raw(f) });
                }
                true
            })
            .map(|(sraw, _, blk, ti, io, ty, txh, _)| {
                let mut k = sraw.clone();
                k.extend_from_slice(&blk.to_be_bytes());
                k.extend_from_slice(&ti.to_be_bytes());
                k.extend_from_slice(&io.to_be_bytes());
                k.push(*ty);
                (k, (hx(txh.as_slice()), *blk, *ti, *io, *ty))
            })
            .collect();
        wanth.sort_by(|a, b| a.0.cmp(&b.0));
        if q.desc {
            wanth.reverse();
        }
        let want_txs: Vec<_> = wanth.iter().map(|(_, t)| t.clone()).collect();
        for limit in if rich { vec![1u32, 1000] } else { vec![1u32, 3, 1000] } {
            let mut got = vec![];
            let mut cursor: Option<JsonBytes> = None;
            let mut pages = 0;
            loop {
                let page = match h.txs(q.key(false), if q.desc { IndexerOrder::Desc } else { IndexerOrder::Asc }, limit.into(), cursor.clone()) {
                    Ok(p) => p,
                    Err(e) => {
                        report.violation(format!("{pfx}get_transactions/error"), format!("{step}: {e:?}"), qlabel.clone());
                        break;
                    }
                };
                pages += 1;
                let n = page.objects.len();
                for t in page.objects {
                    let v = serde_json::to_value(&t).unwrap();
                    let num = |x: &Value| u64::from_str_radix(x.as_str().unwrap_or("0x0").trim_start_matches("0x"), 16).unwrap_or(0);
                    got.push((v["tx_hash"].as_str().unwrap_or("").to_string(), num(&v["block_number"]), num(&v["tx_index"]) as u32, num(&v["io_index"]) as u32, if v["io_type"] == "input" { 0u8 } else { 1u8 }));
                }
                if n < limit as usize || pages > 400 {
                    break;
                }
                cursor = Some(page.last_cursor);
            }
            report.evaluations += 1;
            let (mut got, mut want_txs) = (got, want_txs.clone());
            if rich {
                got.sort();
                want_txs.sort();
            }
            if got != want_txs {
                report.violation(format!("{pfx}get_transactions/{}", if got.len() != want_txs.len() { "different-set" } else { "different-order-or-content" }), format!("{step}: limit {limit}: indexer returned {} entries {:?}, the filter over the main chain's history gives {} {:?}", got.len(), got.iter().map(|t| format!("{}@{}:{}:{}{}", &t.0[..10], t.1, t.2, if t.4 == 0 { "in" } else { "out" }, t.3)).collect::<Vec<_>>(), want_txs.len(), want_txs.iter().map(|t| format!("{}@{}:{}:{}{}", &t.0[..10], t.1, t.2, if t.4 == 0 { "in" } else { "out" }, t.3)).collect::<Vec<_>>()), qlabel.clone());
            }
        }
        // grouped: the same entries merged per transaction
        let mut got_grouped: Vec<(String, Vec<(u8, u32)>)> = vec![];
        let mut cursor: Option<JsonBytes> = None;
        let mut pages = 0;
        loop {
            let page = match h.txs(q.key(true), if q.desc { IndexerOrder::Desc } else { IndexerOrder::Asc }, 2u32.into(), cursor.clone()) {
                Ok(p) => p,
                Err(e) => {
                    report.violation(format!("{pfx}get_transactions-grouped/error"), format!("{step}: {e:?}"), qlabel.clone());
                    break;
                }
            };
            pages += 1;
            let n = page.objects.len();
            for t in page.objects {
                let v = serde_json::to_value(&t).unwrap();
                let num = |x: &Value| u64::from_str_radix(x.as_str().unwrap_or("0x0").trim_start_matches("0x"), 16).unwrap_or(0);
                let cells: Vec<(u8, u32)> = v["cells"].as_array().map(|a| a.iter().map(|c| (if c[0] == "input" { 0u8 } else { 1u8 }, num(&c[1]) as u32)).collect()).unwrap_or_default();
                let h = v["tx_hash"].as_str().unwrap_or("").to_string();
                match got_grouped.last_mut() {
                    Some(last) if last.0 == h => last.1.extend(cells),
                    _ => got_grouped.push((h, cells)),
                }
            }
            if n < 2 || pages > 400 {
                break;
            }
            cursor = Some(page.last_cursor);
        }
        let mut want_grouped: Vec<(String, Vec<(u8, u32)>)> = vec![];
        for t in &want_txs {
            match want_grouped.last_mut() {
                Some(last) if last.0 == t.0 => last.1.push((t.4, t.3)),
                _ => want_grouped.push((t.0.clone(), vec![(t.4, t.3)])),
            }
        }
        report.evaluations += 1;
        if rich {
            // per transaction, the set of (io type, index) pairs; transactions as a set
            let norm = |v: Vec<(String, Vec<(u8, u32)>)>| -> Vec<(String, Vec<(u8, u32)>)> {
                let mut m: BTreeMap<String, Vec<(u8, u32)>> = BTreeMap::new();
                for (h, c) in v {
                    m.entry(h).or_default().extend(c);
                }
                m.into_iter().map(|(h, mut c)| { c.sort(); (h, c) }).collect()
            };
            got_grouped = norm(got_grouped);
            want_grouped = norm(want_grouped);
        }
        if got_grouped != want_grouped {
            report.violation(format!("{pfx}get_transactions-grouped/differs"), format!("{step}: indexer {:?}, reference {:?}", got_grouped.iter().map(|g| (&g.0[..10], &g.1)).collect::<Vec<_>>(), want_grouped.iter().map(|g| (&g.0[..10], &g.1)).collect::<Vec<_>>()), qlabel.clone());
        }
    }
}

fn follow_family(ctx: &Ctx, report: &mut Report) -> Result<(), String> {
    let cons = consensus(&WorldOpts::default());
    set_time(time_for_height(40));
    let mut forge = Forge::new(&ctx.scratch.join("c18-forge"), &cons)?;
    let u = build(&mut forge, &cons)?;
    let queries = grid(ctx.tier.is_thorough());
    // delivery orders: A leads with k blocks, B overtakes, A overtakes again
    let leads: Vec<usize> = vec![1, 2, 3, 4];
    // delivery orders: the four "first lead" orders; in the thorough tier every interleaving of the
    // two branches (each branch in its own order)
    let mut all_orders: Vec<(String, Vec<(String, &BlockView)>)> = vec![];
    for lead in leads.iter() {
        let mut order: Vec<(String, &BlockView)> = vec![];
        for n in 0..*lead {
            order.push((format!("a{}", n + 1), &u.a[n]));
        }
        for n in 0..(*lead + 1).min(u.b.len()) {
            order.push((format!("b{}", n + 1), &u.b[n]));
        }
        for n in *lead..u.a.len() {
            order.push((format!("a{}", n + 1), &u.a[n]));
        }
        all_orders.push((format!("lead-{lead}"), order));
    }
    if ctx.tier.is_thorough() {
        for (k, o) in crate::props::c01::orders(u.a.len(), u.b.len()).into_iter().enumerate() {
            let (mut ia, mut ib) = (0, 0);
            let mut order: Vec<(String, &BlockView)> = vec![];
            for take_a in o {
                if take_a {
                    order.push((format!("a{}", ia + 1), &u.a[ia]));
                    ia += 1;
                } else {
                    order.push((format!("b{}", ib + 1), &u.b[ib]));
                    ib += 1;
                }
            }
            all_orders.push((format!("interleaving-{k}"), order));
        }
    }
    for (li, (lead, order)) in all_orders.into_iter().enumerate() {
        if !ctx.mine(li as u64) {
            continue;
        }
        let rig = boot(ctx, &format!("follow-{lead}"))?;
        let label = json!({"family": "follow", "order": lead});
        let mut trace = vec![];
        // the indexer starts from nothing: first pass indexes genesis
        rig.svc.verif_sync_once();
        rig.rich.verif_sync_once();
        let r = reference(&rig.node.main_chain());
        ask_all(&rig, &r, &queries, "genesis", &label, report);
        ask_rich(&rig, &r, &queries, "genesis", &label, report);
        for (name, blk) in order {
            if ctx.out_of_time() {
                report.cap_hit = Some("follow family: wall budget".into());
                return Ok(());
            }
            rig.node.process(blk).map_err(|e| format!("{name}: {e}"))?;
            trace.push(name.clone());
            rig.svc.verif_sync_once();
            rig.rich.verif_sync_once();
            let main = rig.node.main_chain();
            let r = reference(&main);
            report.transitions += 1;
            let step = format!("after {}", trace.join(" "));
            ask_all(&rig, &r, &queries, &step, &label, report);
            ask_rich(&rig, &r, &queries, &step, &label, report);
            report.states.insert(fp(&(&lead, &trace)));
            report.outcomes.insert(fp(&(r.live.len(), r.history.len())));
        }
        report.traces += 1;
        report.sample(json!({"family": "follow", "order": lead, "deliveries": trace, "queries_per_step": queries.len(), "final_live_cells": reference(&rig.node.main_chain()).live.len()}));
        let _ = &rig.cons;
        rig.node.shutdown();
    }
    Ok(())
}

/// The rows answers are computed from.  `ConsumedOutPoint` rows (prefix 32) are the indexer's undo
/// log: rollback reads them and leaves them for the pruner; no query reads them.
fn answer_rows(d: Vec<(Vec<u8>, Vec<u8>)>) -> Vec<(Vec<u8>, Vec<u8>)> {
    d.into_iter().filter(|(k, _)| k.first() != Some(&32u8)).collect()
}

/// append / rollback walks on the raw store: rollback restores exactly what was there
fn inversion_family(ctx: &Ctx, report: &mut Report) -> Result<(), String> {
    let cons = consensus(&WorldOpts::default());
    set_time(time_for_height(40));
    let mut forge = Forge::new(&ctx.scratch.join("c18-forge-inv"), &cons)?;
    let u = build(&mut forge, &cons)?;
    let queries = grid(false);
    for (bi, (bname, branch)) in [("A", &u.a), ("B", &u.b)].iter().enumerate() {
        if !ctx.mine(10 + bi as u64) {
            continue;
        }
        for (keep, prune) in [(100u64, 1000u64), (2, 2)] {
            let rig = boot(ctx, &format!("inv-{bname}-{keep}"))?;
            let label = json!({"family": "inversion", "branch": bname, "keep_num": keep, "prune_interval": prune});
            let mut chain: Vec<BlockView> = vec![cons.genesis_block().clone()];
            rig.svc.verif_append(&chain[0], keep, prune)?;
            let mut dumps: Vec<Vec<(Vec<u8>, Vec<u8>)>> = vec![answer_rows(rig.svc.verif_dump())];
            for blk in branch.iter() {
                rig.svc.verif_append(blk, keep, prune)?;
                chain.push(blk.clone());
                dumps.push(answer_rows(rig.svc.verif_dump()));
                report.transitions += 1;
                // every rollback depth within the retention, then forward again
                let max_depth = (chain.len() - 1).min(keep as usize).min(4);
                for depth in 1..=max_depth {
                    for _ in 0..depth {
                        rig.svc.verif_rollback(keep, prune)?;
                    }
                    let at = chain.len() - 1 - depth;
                    let now = answer_rows(rig.svc.verif_dump());
                    report.evaluations += 1;
                    // pruning removes rows for good: only with the long retention is the raw image comparable
                    if keep >= 100 && now != dumps[at] {
                        let missing = dumps[at].iter().filter(|kv| !now.contains(kv)).count();
                        let extras: Vec<String> = now.iter().filter(|kv| !dumps[at].contains(kv)).map(|(k, v)| format!("{}={}", hx(k), hx(v))).collect();
                        let extra = format!("{} ({})", extras.len(), extras.join(" "));
                        report.violation("rollback/raw-image-differs", format!("branch {bname}: after appending up to block {} and rolling back {depth}, the index store differs from the one before block {} was appended: {missing} rows missing, {extra} rows extra", chain.len() - 1, at + 1), label.clone());
                    }
                    // answers are compared in any case
                    let r = reference(&chain[..=at]);
                    ask_all(&rig, &r, &queries, &format!("branch {bname}: appended to {}, rolled back {depth}", chain.len() - 1), &label, report);
                    for b in &chain[at + 1..] {
                        rig.svc.verif_append(b, keep, prune)?;
                    }
                    if keep >= 100 && answer_rows(rig.svc.verif_dump()) != *dumps.last().unwrap() {
                        report.violation("reappend/raw-image-differs", format!("branch {bname}: rolling back {depth} from block {} and appending the same blocks again does not give the same index store", chain.len() - 1), label.clone());
                    }
                    report.nontrivial.insert(fp(&(bname, keep, chain.len(), depth)));
                }
                report.states.insert(fp(&(bname, keep, chain.len())));
            }
            report.traces += 1;
            rig.node.shutdown();
        }
    }
    Ok(())
}

pub fn meta(tier: Tier) -> Meta {
    Meta {
        id: "C18",
        level: "model_checking",
        rule: "universe: two branches from genesis (6 and 5 blocks) whose transactions create cells under five lock-args (\"\", ab, ab+0x00, abc, abd) and three type-args (ab, ab+0x0001, abc) of one code hash, with data of length 0..6, a cell created and consumed in the same block, multi-input spends. follow family: a real node receives a1..a_k, b1..b_(k+1) (reorg), a_(k+1).. (reorg back) for every first lead k (thorough: additionally every interleaving of the two branches, 462 orders); after every delivery the real IndexerService (secondary DB of the node) runs one pass of the production sync loop, then EVERY query of the grid is asked through IndexerHandle: script args in {\"\", a, ab, ab+0x00, abc, abd, zz} x lock/type x prefix/exact x {no filter, other-script filter ab / empty, block ranges [0,3) [3,4) [4,max) [3,3), capacity ranges, data length ranges, data prefix} x asc/desc; get_cells with limit 1, 2, 1000 and cursor continuation to exhaustion, get_cells_capacity, get_transactions ungrouped with limit 1, 3, 1000 and grouped with limit 2; oracle = the same filter over a plain replay of the main chain (live cells / per-script input-output history), ordered by (script bytes, block, tx index, io index[, io type]); tip equal. inversion family: explicit append / rollback walks on each branch (every rollback depth <= 4 after every append, retention 100 and 2): raw store image (all rows queries read; the ConsumedOutPoint undo log excluded) after rollback = image before the append (long retention), re-append = same image, answers = reference in both.",
        assumptions: &["the RocksDB indexer only: the rich indexer (sqlite, async) is not driven", "script_search_mode partial is refused by this indexer (by design) and not part of the grid", "the tx-pool overlay (index_tx_pool) is off"],
        bounds: json!({"queries": grid(tier.is_thorough()).len(), "first_leads": [1, 2, 3, 4]}),
    }
}

pub fn run(ctx: &Ctx) -> Report {
    let mut report = Report::new();
    if ctx.replay.is_some() {
        report.outcomes.insert(0);
        report.outcomes.insert(1);
    }
    if let Err(e) = follow_family(ctx, &mut report) {
        report.machinery_errors.push(format!("follow family: {e}"));
    }
    if report.cap_hit.is_none() {
        if let Err(e) = inversion_family(ctx, &mut report) {
            report.machinery_errors.push(format!("inversion family: {e}"));
        }
    }
    report
}
