//! C01 — tip is the head of the heaviest fully valid chain, for any delivery order.
//!
//! Family A (this file): every labelled block tree with <= n blocks (all parent vectors), every
//! validity labelling from {all valid} + {block i invalid by kind k}, every arrival permutation,
//! three duplicate patterns; each executed on a fresh real node (production threads) through the
//! out-of-order delivery path, with explicit quiescence after every delivery.
use crate::core::*;
use crate::node::*;
use crate::universe::*;
use crate::world::*;
use ckb_store::ChainStore;
use ckb_types::{U256, core::BlockView, packed, prelude::*};
use serde::{Deserialize, Serialize};
use serde_json::{Value, json};
use std::collections::{BTreeMap, BTreeSet, HashMap};

#[derive(Clone, Debug, Serialize, Deserialize, PartialEq, Eq, Hash)]
pub struct Case {
    pub pv: Vec<usize>,
    /// (block index 1-based, kind) or None
    pub bad: Option<(usize, Invalid)>,
    pub perm: Vec<usize>,
    /// 0 none, 1 each block delivered twice in a row, 2 whole sequence delivered twice,
    /// 3 none, but the service thread is held at the gate inside `search_orphan_leader` (between
    /// its read of the leader's status and its read of the pending-verification set) until the
    /// verifier has finished with that leader
    pub dup: u8,
}

pub fn meta(tier: Tier) -> Meta {
    Meta {
        id: "C01",
        level: "model_checking",
        rule: "case = (parent vector of a labelled block tree over genesis, validity labelling, arrival permutation, duplicate pattern); every case of the stated bound is executed on a fresh real node via asynchronous_process_lonely_block with quiescence after every delivery; oracle = reference fork choice over the delivered set (max total difficulty among blocks all of whose ancestors are delivered and valid). state = (delivered set, tip, orphan-held set) fingerprint; a case is non-trivial iff its tree has a fork and during the run at least one block was held as an orphan or the tip left a previously adopted block (reorg), measured.",
        assumptions: &[
            "world W-flat: constant difficulty (every fork is an equal-work-per-block race), Dummy PoW",
            "ground truth validity by construction; every valid block was fully verified as a tip by a forge node, every invalid variant was refused by it",
            "production threads, OS scheduling; one interleaving is forced by a gate: service thread between the two reads of search_orphan_leader vs. the verifier finishing the leader",
        ],
        bounds: json!({
            "tree_blocks_all_labellings": if tier.is_thorough() { 4 } else { 3 },
            "tree_blocks_all_valid": if tier.is_thorough() { 5 } else { 4 },
            "invalid_kinds": ["Dao(contextual)", "TwoCellbases(non-contextual)", "Unproposed(contextual)"],
            "duplicate_patterns": 3,
            "family_M": "main chain a1 a2 against a fork whose first block M commits a transaction nobody proposed (contextually invalid, every other field consistent) and has two child branches x1 x2 and w1 w2 built ON TOP OF M's state (valid but for their ancestor): every parent-first arrival order (thorough: every permutation of the 7 blocks)",
            "orphan_subtree_family": "every tree of 5 (thorough 6) blocks hanging under one block, that block delivered last after every permutation of the others",
            "gate_pattern": "trees of up to 3 blocks, every labelling and permutation: the service thread is held inside search_orphan_leader (between its two reads) until the verifier has finished the leader",
            "family_D": "dynamic-difficulty world, branches A (fast, 4x per-block difficulty in epoch 1) and B (slow): every topological interleaving of (a_len, b_len) in the listed shapes, plus B delivered in reverse (held as orphans)",
            "family_D_shapes": if tier.is_thorough() { json!([[3,8],[3,9],[4,8],[2,6]]) } else { json!([[3,8]]) },
        }),
    }
}

fn cases(tier: Tier) -> Vec<Case> {
    let (n_lab, n_valid) = if tier.is_thorough() { (4, 5) } else { (3, 4) };
    let mut out = vec![];
    for n in 1..=n_valid {
        for pv in parent_vectors(n) {
            let mut labellings: Vec<Option<(usize, Invalid)>> = vec![None];
            if n <= n_lab {
                for i in 1..=n {
                    for k in INVALID_KINDS {
                        labellings.push(Some((i, k)));
                    }
                }
            }
            for bad in labellings {
                for perm in permutations(n) {
                    for dup in 0..4u8 {
                        // dup patterns only multiply the smaller trees (keeps the largest n affordable)
                        if dup > 0 && n == n_valid && n > n_lab {
                            continue;
                        }
                        // the gate pattern: trees of up to 3 blocks
                        if dup == 3 && n > 3 {
                            continue;
                        }
                        // quick: the two duplicate-delivery patterns for trees of up to 2 blocks only
                        // (thorough keeps them for every labelled tree)
                        if !tier.is_thorough() && (dup == 1 || dup == 2) && n > 2 {
                            continue;
                        }
                        out.push(Case { pv: pv.clone(), bad, perm: perm.clone(), dup });
                    }
                }
            }
        }
    }
    // orphan-subtree family: trees of n blocks whose root (block 1) is the only child of genesis
    // and arrives LAST, after every permutation of its descendants (all held as orphans under one
    // missing ancestor: the subtree is a tree, not a line)
    let n_sub = if tier.is_thorough() { 6 } else { 5 };
    for pv in parent_vectors(n_sub) {
        if pv[0] != 0 || pv[1..].iter().any(|p| *p == 0) {
            continue;
        }
        for perm in permutations(n_sub - 1) {
            // perm over blocks 2..n (indexes 1..n-1), then the root
            let mut order: Vec<usize> = perm.iter().map(|i| i + 1).collect();
            order.push(0);
            out.push(Case { pv: pv.clone(), bad: None, perm: order, dup: 0 });
        }
    }
    out
}

pub struct Materialised {
    /// blocks 1..=n as delivered (invalid variant / re-parented where needed)
    pub blocks: Vec<BlockView>,
    /// ground truth: block i (0-based) itself valid
    pub self_valid: Vec<bool>,
}

fn materialise(u: &mut TreeUniverse, case: &Case) -> Result<Materialised, String> {
    let keys = keys_of(&case.pv);
    let n = keys.len();
    let mut blocks: Vec<BlockView> = vec![];
    let mut self_valid = vec![true; n];
    // hash actually used for block i (may differ from the valid one below an invalid block)
    for i in 0..n {
        let parent = case.pv[i];
        let mut b = match case.bad {
            Some((bi, kind)) if bi == i + 1 => {
                self_valid[i] = false;
                u.invalid_block(&keys[i], kind)?
            }
            _ => u.valid[&keys[i]].clone(),
        };
        if parent > 0 {
            let ph = blocks[parent - 1].hash();
            if b.parent_hash() != ph {
                b = reparent(&b, &ph);
            }
        }
        blocks.push(b);
    }
    Ok(Materialised { blocks, self_valid })
}

pub struct RunOutcome {
    pub report: Report,
}

fn td(node: &Node) -> U256 {
    node.shared.snapshot().total_difficulty().clone()
}

fn run_case(ctx: &Ctx, u: &mut TreeUniverse, case: &Case, idx: u64) -> Result<Report, String> {
    let m = materialise(u, case)?;
    let mut seq: Vec<usize> = vec![];
    match case.dup {
        0 | 3 => seq.extend(case.perm.iter().cloned()),
        1 => {
            for &i in &case.perm {
                seq.push(i);
                seq.push(i);
            }
        }
        _ => {
            seq.extend(case.perm.iter().cloned());
            seq.extend(case.perm.iter().cloned());
        }
    }
    let cons = u.consensus.clone();
    if case.dup == 3 {
        GATE_ON.store(true, std::sync::atomic::Ordering::SeqCst);
    }
    let r = run_scenario(ctx, &cons, &m, &case.pv, &seq, case.dup == 1, "A", &json!({"family": "A", "case": case}), fp(case), idx);
    GATE_ON.store(false, std::sync::atomic::Ordering::SeqCst);
    ckb_chain::verif::set_gate(None);
    r
}

static GATE_ON: std::sync::atomic::AtomicBool = std::sync::atomic::AtomicBool::new(false);

/// Deliver `seq` (indexes into m.blocks) to a fresh node and judge every quiescent point.
#[allow(clippy::too_many_arguments)]
fn run_scenario(ctx: &Ctx, cons: &ckb_chain_spec::consensus::Consensus, m: &Materialised, pv: &[usize], seq: &[usize], burst2: bool, fam: &str, label: &Value, case_fp: u64, idx: u64) -> Result<Report, String> {
    let mut report = Report::new();
    let n = m.blocks.len();
    let genesis_hash = cons.genesis_hash();
    let dir = ctx.scratch.join("run");
    let _ = std::fs::remove_dir_all(&dir);
    set_time(time_for_height(12));
    let node = Node::boot(&dir, &NodeOpts::new(cons.clone()))?;
    node.wait_startup()?;
    let genesis_td = td(&node);
    if GATE_ON.load(std::sync::atomic::Ordering::SeqCst) {
        // the service thread waits here until the verifier is done with the leader (if the leader
        // is a stored block that has no verdict yet)
        let shared = node.shared.clone();
        ckb_chain::verif::set_gate(Some(Box::new(move |point, leader| {
            use ckb_store::ChainStore;
            if point != "search_orphan_leader:between-reads" {
                return;
            }
            let t = std::time::Instant::now();
            while t.elapsed() < std::time::Duration::from_millis(200) {
                let store = shared.store();
                let stored = store.get_block_header(leader).is_some();
                // the verifier is done with a block once its ext row exists (side-branch blocks get one
                // without a verdict)
                let verdict = store.get_block_ext(leader).is_some();
                let invalid = shared.get_block_status(leader) == ckb_shared::block_status::BlockStatus::BLOCK_INVALID;
                if !stored || verdict || invalid {
                    // give the verifier the few microseconds between its commit and its bookkeeping
                    std::thread::sleep(std::time::Duration::from_millis(2));
                    return;
                }
                std::thread::sleep(std::time::Duration::from_micros(200));
            }
        })));
    }

    // reference bookkeeping
    let by_hash: HashMap<packed::Byte32, usize> = m.blocks.iter().enumerate().map(|(i, b)| (b.hash(), i)).collect();
    let mut delivered: BTreeSet<usize> = BTreeSet::new();
    let mut prev_tip = genesis_hash.clone();
    let mut prev_td = genesis_td.clone();
    let mut saw_orphan = false;
    let mut saw_reorg = false;
    let mut adopted: Vec<packed::Byte32> = vec![];
    let viol = |report: &mut Report, kind: &str, msg: String, step: usize| {
        let mut l = label.clone();
        l["step"] = json!(step);
        report.violation(format!("{fam}/{kind}"), format!("{msg} (case #{idx}, step {step})"), l);
    };

    let mut step = 0usize;
    let mut k = 0usize;
    while k < seq.len() {
        // dup==1: the two copies are delivered back-to-back before quiescence
        let burst = if burst2 { 2 } else { 1 };
        for j in 0..burst {
            node.deliver(&m.blocks[seq[k + j]]);
            report.transitions += 1;
        }
        delivered.insert(seq[k]);
        k += burst;
        step += 1;
        if let Err(e) = node.quiesce() {
            // every delivery is answered or held as an orphan within milliseconds; a delivery that
            // is neither after 20 s means the chain service has stopped working (e.g. one of its
            // threads died): later blocks would never be adopted
            if e.starts_with("verified-block sentinel answered Err") {
                // the sentinel is block 1 of the stored main chain, delivered once more: the node
                // itself says that a block of its main chain failed verification
                viol(&mut report, "main-chain-block-answered-failed", format!("re-delivery of block 1 of the node's main chain is answered as a failed block: {e}"), step);
                return Ok(report);
            }
            if e.starts_with("no quiescence") {
                viol(&mut report, "delivery-never-answered", format!("a delivered block got no verdict and is not held as an orphan 20 s after delivery: {e}"), step);
                return Ok(report);
            }
            return Err(e);
        }

        // ---- reference fork choice over the delivered set
        let in_v = |i: usize, delivered: &BTreeSet<usize>| -> bool {
            let mut cur = i + 1; // 1-based
            loop {
                if cur == 0 {
                    return true;
                }
                if !delivered.contains(&(cur - 1)) || !m.self_valid[cur - 1] {
                    return false;
                }
                cur = pv[cur - 1];
            }
        };
        let depth_td = |i: usize| -> U256 {
            let mut acc = genesis_td.clone();
            let mut cur = i + 1;
            while cur != 0 {
                acc = acc + m.blocks[cur - 1].difficulty();
                cur = pv[cur - 1];
            }
            acc
        };
        let v: Vec<usize> = (0..n).filter(|i| in_v(*i, &delivered)).collect();
        let w_star = v.iter().map(|i| depth_td(*i)).max().unwrap_or_else(|| genesis_td.clone());

        let snap = node.shared.snapshot();
        let tip = snap.tip_hash();
        let tip_td = snap.total_difficulty().clone();
        // (1) tip in V (or genesis) with maximal work
        let tip_ok = tip == genesis_hash || by_hash.get(&tip).map(|i| v.contains(i)).unwrap_or(false);
        if !tip_ok {
            viol(&mut report, "tip-not-fully-valid", format!("tip {tip} is not in the fully valid delivered set"), step);
        }
        if tip_td != w_star {
            viol(&mut report, "tip-not-heaviest", format!("tip total difficulty {tip_td:#x} != max over fully valid chains {w_star:#x}"), step);
        }
        // (2) never leaves the tip for a chain that is not strictly heavier
        if tip != prev_tip {
            if tip_td <= prev_td {
                viol(&mut report, "switch-without-more-work", format!("tip changed {prev_tip} -> {tip} with total difficulty {prev_td:#x} -> {tip_td:#x}"), step);
            }
            // reorg = previous tip is not an ancestor of the new one
            let mut cur = tip.clone();
            let mut is_ext = false;
            while cur != genesis_hash {
                if cur == prev_tip {
                    is_ext = true;
                    break;
                }
                cur = match by_hash.get(&cur) {
                    Some(i) => m.blocks[*i].parent_hash(),
                    None => break,
                };
            }
            if prev_tip == genesis_hash {
                is_ext = true;
            }
            if !is_ext {
                saw_reorg = true;
            }
            adopted.push(tip.clone());
            prev_tip = tip.clone();
            prev_td = tip_td.clone();
        }
        // (3) verified flags
        {
            let mut cur = tip.clone();
            while cur != genesis_hash {
                match snap.get_block_ext(&cur) {
                    Some(ext) if ext.verified == Some(true) => {
                        // the accumulated difficulty recorded for a main-chain block is what later
                        // fork choices compare against
                        if let Some(i) = by_hash.get(&cur) {
                            let want = depth_td(*i);
                            if ext.total_difficulty != want {
                                viol(&mut report, "recorded-total-difficulty-wrong", format!("main-chain block #{} records total difficulty {:#x}, the chain up to it has {:#x}", i + 1, ext.total_difficulty, want), step);
                            }
                        }
                    }
                    other => viol(&mut report, "main-chain-block-not-verified", format!("main-chain block {cur} has ext {:?}", other.map(|e| e.verified)), step),
                }
                cur = snap.get_block_header(&cur).map(|h| h.parent_hash()).unwrap_or(genesis_hash.clone());
            }
            for (i, b) in m.blocks.iter().enumerate() {
                if !v.contains(&i) {
                    if let Some(ext) = node.shared.store().get_block_ext(&b.hash()) {
                        if ext.verified == Some(true) {
                            viol(&mut report, "invalid-block-marked-verified", format!("block #{} outside the fully valid set has verified=Some(true)", i + 1), step);
                        }
                    }
                }
            }
            let d = node.deliveries.lock().unwrap().clone();
            for e in &d {
                if let Some(Err(msg)) = &e.result {
                    let i = by_hash[&e.hash];
                    if v.contains(&i) {
                        viol(&mut report, "valid-block-reported-failed", format!("fully valid block #{} was answered Err({msg})", i + 1), step);
                    }
                }
            }
        }
        // (4) connected as soon as the missing ancestor arrives
        let mut orphans = BTreeSet::new();
        for &i in &delivered {
            let b = &m.blocks[i];
            if node.chain().get_orphan_block(node.shared.store(), &b.hash()).is_some() {
                orphans.insert(i);
                saw_orphan = true;
                let ph = b.parent_hash();
                let parent_is_orphan = node.chain().get_orphan_block(node.shared.store(), &ph).is_some();
                let parent_stored = ph == genesis_hash || node.shared.store().get_block_header(&ph).is_some();
                if parent_stored && !parent_is_orphan {
                    viol(&mut report, "orphan-not-connected", format!("block #{} is still held as an orphan although its parent is stored", i + 1), step);
                }
            }
        }
        for &i in &v {
            if node.shared.store().get_block(&m.blocks[i].hash()).is_none() {
                viol(&mut report, "valid-block-not-stored", format!("fully valid delivered block #{} is not in the store", i + 1), step);
            }
        }
        let tip_idx = by_hash.get(&tip).map(|i| *i as i64).unwrap_or(-1);
        report.states.insert(fp(&(case_fp, &delivered, tip_idx, &orphans)));
        report.outcomes.insert(fp(&(tip_idx, delivered.len(), orphans.len())));
    }
    report.traces += 1;
    report.evaluations += 1;
    let has_fork = {
        let mut cnt: BTreeMap<usize, usize> = BTreeMap::new();
        for p in pv {
            *cnt.entry(*p).or_insert(0) += 1;
        }
        cnt.values().any(|c| *c > 1)
    };
    if has_fork && (saw_orphan || saw_reorg) {
        report.nontrivial.insert(fp(&(case_fp, seq)));
    }
    if saw_reorg {
        report.count("runs_with_reorg", 1);
    }
    if saw_orphan {
        report.count("runs_with_orphan_held", 1);
    }
    if idx % 997 == 0 {
        report.sample(json!({"case": label, "sequence": seq, "adopted_tips": adopted.iter().map(|h| by_hash.get(h).map(|i| i + 1)).collect::<Vec<_>>() }));
    }
    node.shutdown();
    Ok(report)
}


// ---------------------------------------------------------------------------------------
// Family D: uneven per-block difficulty.  Dynamic-difficulty world with a 4-block genesis
// epoch; two branches fork inside epoch 0 with fast (A) and slow (B) timestamps, so that epoch 1
// gives A four times B's per-block difficulty: B can be several blocks *longer and lighter*.

#[derive(Clone, Debug, Serialize, Deserialize, PartialEq, Eq, Hash)]
pub struct DynCase {
    pub a_len: usize,
    pub b_len: usize,
    /// delivery order: true = next block of A, false = next block of B
    pub order: Vec<bool>,
    /// deliver branch B's blocks in reverse (children before parents: all held as orphans until
    /// the first one arrives)
    pub b_reversed: bool,
}

pub fn dyn_world() -> ckb_chain_spec::consensus::Consensus {
    let opts = WorldOpts {
        permanent_difficulty: false,
        genesis_compact_target: ckb_types::utilities::difficulty_to_compact(U256::from(1u64 << 24)),
        ..Default::default()
    };
    consensus(&opts)
}

struct DynUniverse {
    a: Vec<BlockView>,
    b: Vec<BlockView>,
}

fn build_dyn(ctx: &Ctx, cons: &ckb_chain_spec::consensus::Consensus, a_len: usize, b_len: usize) -> Result<DynUniverse, String> {
    use crate::forge::*;
    let mut forge = Forge::new(&ctx.scratch.join("forge-dyn"), cons)?;
    // common block 1, then A: heights 2.. with 1 s spacing, B: heights 2.. with 40 s spacing
    let b1 = forge.build_on(&cons.genesis_hash(), &BlockSpec { timestamp: Some(BASE_TIME + 8_000), miner: 1, ..Default::default() })?;
    let mut out = DynUniverse { a: vec![], b: vec![] };
    for (len, spacing, miner, is_a) in [(a_len, 1_000u64, 2u8, true), (b_len, 40_000u64, 3u8, false)] {
        let mut parent = b1.hash();
        let mut ts = BASE_TIME + 8_000;
        for _ in 0..len {
            ts += spacing;
            let b = forge.build_on(&parent, &BlockSpec { timestamp: Some(ts), miner, ..Default::default() })?;
            parent = b.hash();
            if is_a { out.a.push(b) } else { out.b.push(b) }
        }
        // full verification of the branch head as a tip
        forge.goto(&parent)?;
    }
    out.a.insert(0, b1);
    Ok(out)
}

/// (A incl. the common block 1, B) of the dynamic-difficulty universe
pub fn dyn_branches(ctx: &Ctx, cons: &ckb_chain_spec::consensus::Consensus, a_len: usize, b_len: usize) -> Result<(Vec<BlockView>, Vec<BlockView>), String> {
    let u = build_dyn(ctx, cons, a_len, b_len)?;
    Ok((u.a, u.b))
}

pub fn orders(na: usize, nb: usize) -> Vec<Vec<bool>> {
    fn rec(i: usize, j: usize, na: usize, nb: usize, cur: &mut Vec<bool>, out: &mut Vec<Vec<bool>>) {
        if i == na && j == nb {
            out.push(cur.clone());
            return;
        }
        if i < na {
            cur.push(true);
            rec(i + 1, j, na, nb, cur, out);
            cur.pop();
        }
        if j < nb {
            cur.push(false);
            rec(i, j + 1, na, nb, cur, out);
            cur.pop();
        }
    }
    let mut out = vec![];
    rec(0, 0, na, nb, &mut vec![], &mut out);
    out
}

fn dyn_cases(tier: Tier) -> Vec<DynCase> {
    // (a_len counts blocks after the common block 1)
    let shapes: &[(usize, usize)] = if tier.is_thorough() { &[(3, 8), (3, 9), (4, 8), (2, 6)] } else { &[(3, 8)] };
    let mut out = vec![];
    for &(a_len, b_len) in shapes {
        for order in orders(a_len, b_len) {
            for b_reversed in [false, true] {
                if b_reversed && !tier.is_thorough() && order.iter().take(a_len).any(|x| !*x) {
                    // quick: the reversed variant only for "all of A first"
                    continue;
                }
                out.push(DynCase { a_len, b_len, order: order.clone(), b_reversed });
            }
        }
    }
    out
}

fn run_dyn(ctx: &Ctx, report: &mut Report, only: Option<DynCase>) {
    let cons = dyn_world();
    let cases = match only {
        Some(c) => vec![c],
        None => dyn_cases(ctx.tier),
    };
    let mut built: std::collections::HashMap<(usize, usize), DynUniverse> = std::collections::HashMap::new();
    for (idx, case) in cases.iter().enumerate() {
        if !ctx.mine(idx as u64) {
            continue;
        }
        if ctx.out_of_time() {
            report.cap_hit = Some(format!("wall budget reached in family D at case {idx} of {}", cases.len()));
            return;
        }
        if !built.contains_key(&(case.a_len, case.b_len)) {
            match build_dyn(ctx, &cons, case.a_len, case.b_len) {
                Ok(u) => {
                    built.insert((case.a_len, case.b_len), u);
                }
                Err(e) => {
                    report.machinery_errors.push(format!("family D universe: {e}"));
                    return;
                }
            }
        }
        let u = &built[&(case.a_len, case.b_len)];
        // scenario: blocks = [b1, a.., b..]; parent vector 1-based
        let mut blocks = u.a.clone();
        let na = blocks.len();
        blocks.extend(u.b.iter().cloned());
        let mut pv = vec![0usize];
        for i in 1..na {
            pv.push(i);
        }
        for j in 0..u.b.len() {
            pv.push(if j == 0 { 1 } else { na + j });
        }
        let m = Materialised { self_valid: vec![true; blocks.len()], blocks };
        let mut seq = vec![0usize];
        let (mut i, mut j) = (1usize, 0usize);
        for &is_a in &case.order {
            if is_a {
                seq.push(i);
                i += 1;
            } else {
                let k = if case.b_reversed { u.b.len() - 1 - j } else { j };
                seq.push(na + k);
                j += 1;
            }
        }
        let difficulties: Vec<String> = m.blocks.iter().map(|b| format!("{:#x}", b.difficulty())).collect();
        let label = json!({"family": "D", "case": case, "per_block_difficulty": difficulties});
        match run_scenario(ctx, &cons, &m, &pv, &seq, false, "D", &label, fp(case), idx as u64 * 997) {
            Ok(r) => report.merge(r),
            Err(e) => {
                report.machinery_errors.push(format!("family D case #{idx} {case:?}: {e}"));
                return;
            }
        }
        report.count("family_D_runs", 1);
    }
}

fn needed_keys(cases: &[Case]) -> BTreeSet<Key> {
    let mut s = BTreeSet::new();
    for c in cases {
        for k in keys_of(&c.pv) {
            s.insert(k);
        }
    }
    s
}

pub fn run(ctx: &Ctx) -> Report {
    let mut report = Report::new();
    let cons = consensus(&WorldOpts::default());
    set_time(time_for_height(12));
    let mut u = match TreeUniverse::new(&ctx.scratch.join("forge"), &cons) {
        Ok(u) => u,
        Err(e) => {
            report.machinery_errors.push(format!("forge boot: {e}"));
            return report;
        }
    };
    if let Some(path) = &ctx.replay {
        let v: Value = load_replay_case(path);
        if v["family"] == "D" {
            let case: DynCase = serde_json::from_value(v["case"].clone()).expect("case");
            run_dyn(ctx, &mut report, Some(case));
            report.outcomes.insert(0);
            report.outcomes.insert(1);
            return report;
        }
        if v["family"] == "U" {
            let perm: Vec<usize> = serde_json::from_value(v["perm"].clone()).unwrap_or_default();
            run_family_u(ctx, &mut report, Some(perm));
            report.outcomes.insert(0);
            report.outcomes.insert(1);
            return report;
        }
        if v["family"] == "M" {
            let perm: Vec<usize> = serde_json::from_value(v["perm"].clone()).expect("perm");
            drop(u);
            run_family_m(ctx, &mut report, Some(perm));
            report.outcomes.insert(0);
            report.outcomes.insert(1);
            return report;
        }
        if v["family"] == "S" {
            let sc: SchedCase = serde_json::from_value(v["case"].clone()).expect("case");
            let schedule: Vec<usize> = serde_json::from_value(v["schedule"].clone()).expect("schedule");
            let keys = needed_keys(std::slice::from_ref(&sc.case));
            if let Err(e) = u.build_all(&keys) {
                report.machinery_errors.push(e);
                return report;
            }
            if let Err(e) = run_sched_case(ctx, &mut u, &sc, 0, &mut report, Some(schedule), None, None) {
                report.machinery_errors.push(e);
            }
            report.outcomes.insert(0);
            report.outcomes.insert(1);
            return report;
        }
        let case: Case = serde_json::from_value(v["case"].clone()).expect("case");
        let keys = needed_keys(std::slice::from_ref(&case));
        if let Err(e) = u.build_all(&keys) {
            report.machinery_errors.push(e);
            return report;
        }
        match run_case(ctx, &mut u, &case, 0) {
            Ok(r) => report.merge(r),
            Err(e) => report.machinery_errors.push(e),
        }
        report.outcomes.insert(0);
        report.outcomes.insert(1);
        return report;
    }
    let all = cases(ctx.tier);
    let mut keys = needed_keys(&all);
    keys.extend(needed_keys(&sched_cases(ctx.tier).iter().map(|s| s.case.clone()).collect::<Vec<_>>()));
    let t_build = std::time::Instant::now();
    if let Err(e) = u.build_all(&keys) {
        report.machinery_errors.push(format!("universe: {e}"));
        return report;
    }
    report.max_counter("max_universe_build_ms", t_build.elapsed().as_millis() as u64);
    report.max_counter("max_universe_blocks", u.valid.len() as u64);
    report.max_counter("max_cases_total", all.len() as u64);
    let only = std::env::var("VERIF_C01_ONLY").ok();
    // the small families first (thread schedules, family M, family D), then the tree sweep
    if report.machinery_errors.is_empty() && report.cap_hit.is_none() && std::env::var("VERIF_C01_ONLY").map(|v| v != "A" && v != "D").unwrap_or(true) {
        run_sched(ctx, &mut u, &mut report, None, None);
    }
    if report.machinery_errors.is_empty() && report.cap_hit.is_none() && only.as_deref().map(|o| o == "M").unwrap_or(true) {
        run_family_m(ctx, &mut report, None);
    }
    if report.machinery_errors.is_empty() && report.cap_hit.is_none() && only.as_deref().map(|o| o == "U").unwrap_or(true) {
        run_family_u(ctx, &mut report, None);
    }
    if report.machinery_errors.is_empty() && report.cap_hit.is_none() && only.as_deref().map(|o| o == "D").unwrap_or(true) {
        run_dyn(ctx, &mut report, None);
    }
    for (idx, case) in all.iter().enumerate() {
        if only.as_deref().map(|o| o != "A").unwrap_or(false) {
            break;
        }
        if !ctx.mine(idx as u64) {
            continue;
        }
        if ctx.out_of_time() {
            report.cap_hit = Some(format!("wall budget reached at case {idx} of {}", all.len()));
            break;
        }
        match run_case(ctx, &mut u, case, idx as u64) {
            Ok(r) => report.merge(r),
            Err(e) => {
                report.machinery_errors.push(format!("case #{idx} {case:?}: {e}"));
                break;
            }
        }
    }
    report.count("forge_audits", u.audited);
    drop(u);
    report
}

// ---------------------------------------------------------------------------------------
// Family S: thread interleavings.  The three production threads of the chain service run under
// the gate scheduler (engine `sched`); every interleaving of their point-to-point blocks up to a
// preemption bound is executed on a fresh real node, all blocks of the case queued up front (the
// service thread takes them in order whenever it is scheduled, so the time of queueing is not a
// degree of freedom).

#[derive(Clone, Debug, Serialize, Deserialize)]
pub struct SchedCase {
    pub case: Case,
    pub bound: usize,
}

fn sched_cases(tier: Tier) -> Vec<SchedCase> {
    let mut out = vec![];
    let mk = |pv: &[usize], bad: Option<(usize, Invalid)>, perm: &[usize], dup: u8, bound: usize| SchedCase { case: Case { pv: pv.to_vec(), bad, perm: perm.to_vec(), dup }, bound };
    if !tier.is_thorough() {
        // quick: the named scenarios at preemption bound 1
        out.push(mk(&[0, 1], None, &[0, 1], 0, 2)); // S1 chain, pipeline overlap (two preemptions)
        out.push(mk(&[0, 1], None, &[1, 0], 0, 1)); // S2 child before parent
        out.push(mk(&[0, 1], Some((1, Invalid::Dao)), &[0, 1], 0, 1)); // S4 invalid parent, then child
        out.push(mk(&[0, 1], Some((1, Invalid::Dao)), &[1, 0], 0, 1)); // S4' child first
        out.push(mk(&[0], Some((1, Invalid::Dao)), &[0], 1, 1)); // S5 invalid block twice back to back
        out.push(mk(&[0, 1], Some((1, Invalid::TwoCellbases)), &[1, 0], 0, 1));
        out.push(mk(&[0, 0, 2], None, &[0, 2, 1], 0, 1)); // S3 fork, heavier branch child-first
        out.push(mk(&[0, 0], None, &[0, 1], 0, 1)); // equal-work siblings
        return out;
    }
    // thorough: every tree of <= 2 blocks x labelling x permutation x duplicate pattern at bound 2,
    // every tree of 3 blocks (all valid / one Dao-invalid block) x permutation at bound 1
    for n in 1..=2usize {
        for pv in parent_vectors(n) {
            let mut labellings: Vec<Option<(usize, Invalid)>> = vec![None];
            for i in 1..=n {
                for k in INVALID_KINDS {
                    labellings.push(Some((i, k)));
                }
            }
            for bad in labellings {
                for perm in permutations(n) {
                    for dup in 0..3u8 {
                        out.push(SchedCase { case: Case { pv: pv.clone(), bad, perm: perm.clone(), dup }, bound: 2 });
                    }
                }
            }
        }
    }
    for pv in parent_vectors(3) {
        let mut labellings: Vec<Option<(usize, Invalid)>> = vec![None];
        for i in 1..=3 {
            labellings.push(Some((i, Invalid::Dao)));
        }
        for bad in labellings {
            for perm in permutations(3) {
                out.push(SchedCase { case: Case { pv: pv.clone(), bad, perm, dup: 0 }, bound: 1 });
            }
        }
    }
    out
}

#[derive(Clone, Debug, Default)]
struct SchedOutcome {
    violations: Vec<(String, String)>,
    /// fingerprint of what the execution ended with (tip, verified set, answers)
    end_fp: u64,
    sites_fp: u64,
    tip_idx: i64,
    saw_orphan: bool,
    tip_changes: usize,
    cuts_judged: u64,
}

/// One controlled execution of `seq` under the schedule `prefix` (then the default policy).
pub type CutMonitor<'a> = Option<&'a dyn Fn(&Node) -> Vec<(String, String)>>;

fn sched_exec(ctx: &Ctx, cons: &ckb_chain_spec::consensus::Consensus, m: &Materialised, pv: &[usize], pre: &[usize], seq: &[usize], prefix: &[usize], monitor: CutMonitor) -> Result<crate::sched::Execution<SchedOutcome>, String> {
    use crate::sched::*;
    let n = m.blocks.len();
    let genesis_hash = cons.genesis_hash();
    let dir = ctx.scratch.join("run-s");
    let _ = std::fs::remove_dir_all(&dir);
    set_time(time_for_height(12));
    let t0 = std::time::Instant::now();
    // every execution starts from a copy of one freshly initialised (genesis only) and cleanly
    // closed node directory: re-opening it costs about half of an initialisation
    let tpl = ctx.scratch.join("run-s-template");
    if !tpl.join("db").is_dir() {
        let _ = std::fs::remove_dir_all(&tpl);
        let n0 = Node::boot(&tpl, &NodeOpts::new(cons.clone()))?;
        n0.wait_startup()?;
        n0.shutdown();
    }
    copy_dir(&tpl, &dir)?;
    let node = Node::boot(&dir, &NodeOpts::new(cons.clone()))?;
    let t1 = t0.elapsed();
    node.wait_startup()?;
    if std::env::var("VERIF_SCHED_TIMING").is_ok() {
        eprintln!("boot {:?} startup {:?}", t1, t0.elapsed());
    }
    let genesis_td = td(&node);
    let by_hash: HashMap<packed::Byte32, usize> = m.blocks.iter().enumerate().map(|(i, b)| (b.hash(), i)).collect();
    // reference: fully valid set over everything delivered
    let delivered: BTreeSet<usize> = seq.iter().chain(pre.iter()).cloned().collect();
    let in_v = |i: usize| -> bool {
        let mut cur = i + 1;
        loop {
            if cur == 0 {
                return true;
            }
            if !delivered.contains(&(cur - 1)) || !m.self_valid[cur - 1] {
                return false;
            }
            cur = pv[cur - 1];
        }
    };
    let depth_td = |i: usize| -> U256 {
        let mut acc = genesis_td.clone();
        let mut cur = i + 1;
        while cur != 0 {
            acc = acc + m.blocks[cur - 1].difficulty();
            cur = pv[cur - 1];
        }
        acc
    };
    let v: Vec<usize> = (0..n).filter(|i| in_v(*i)).collect();
    let w_star = v.iter().map(|i| depth_td(*i)).max().unwrap_or_else(|| genesis_td.clone());

    let mut out = SchedOutcome::default();
    // the common prefix is delivered the ordinary way, before the scheduler takes over
    for &i in pre {
        node.process(&m.blocks[i]).map_err(|e| format!("prefix block refused: {e}"))?;
    }
    let pre_tip = node.shared.snapshot().tip_hash();
    let pre_td = td(&node);
    let t_boot = std::time::Instant::now();
    let ctl = Controller::install();
    ctl.announce_deliveries(seq.len() as i64);
    for &i in seq {
        node.deliver_nowait(&m.blocks[i]);
    }
    let mut points: Vec<ChoicePoint> = vec![];
    let mut prev: Option<usize> = None;
    let mut diverged = None;
    let mut prev_tip = pre_tip;
    let mut prev_td = pre_td;
    let mut sites: Vec<(usize, &'static str, i64)> = vec![];
    let mut panicked = None;
    loop {
        match ctl.wait_stable(std::time::Duration::from_secs(15)) {
            Stable::Choice(enabled) => {
                // a consistent cut: every thread is parked or idle.  Monitors on the published tip.
                let snap = node.shared.snapshot();
                let tip = snap.tip_hash();
                if tip != prev_tip {
                    out.tip_changes += 1;
                    let tip_td = snap.total_difficulty().clone();
                    if tip_td <= prev_td {
                        out.violations.push(("switch-without-more-work".into(), format!("published tip changed {prev_tip} -> {tip} with total difficulty {prev_td:#x} -> {tip_td:#x}")));
                    }
                    let ok = by_hash.get(&tip).map(|i| v.contains(i)).unwrap_or(false);
                    if !ok {
                        out.violations.push(("tip-not-fully-valid".into(), format!("published tip {tip} is not a fully valid delivered block")));
                    }
                    prev_tip = tip;
                    prev_td = tip_td;
                }
                if node.chain().orphan_blocks_len() > 0 {
                    out.saw_orphan = true;
                }
                if let Some(mon) = monitor {
                    for (k, what) in mon(&node) {
                        let at = enabled.iter().map(|e| format!("{} at {}", crate::sched::ROLE_NAMES[e.role], e.site)).collect::<Vec<_>>().join(", ");
                        out.violations.push((format!("cut/{k}"), format!("{what} [threads parked: {at}]")));
                    }
                    out.cuts_judged += 1;
                }
                let i = points.len();
                let chosen = if i < prefix.len() {
                    if enabled.iter().any(|e| e.role == prefix[i]) {
                        prefix[i]
                    } else {
                        diverged = Some(format!("point {i}: role {} not enabled, enabled = {:?}", prefix[i], enabled.iter().map(|e| (e.role, e.site)).collect::<Vec<_>>()));
                        break;
                    }
                } else {
                    default_choice(&enabled, prev)
                };
                let e = enabled.iter().find(|e| e.role == chosen).unwrap();
                sites.push((chosen, e.site, by_hash.get(&e.hash).map(|x| *x as i64).unwrap_or(-1)));
                points.push(ChoicePoint { enabled: enabled.clone(), chosen, prev });
                prev = Some(chosen);
                ctl.grant(chosen);
                if points.len() > 2000 {
                    ctl.uninstall();
                    return Err("more than 2000 scheduling points in one execution".into());
                }
            }
            Stable::Quiescent => break,
            Stable::Panicked(msg) => {
                panicked = Some(msg);
                break;
            }
            Stable::Timeout(s) => {
                ctl.uninstall();
                return Err(format!("no stable state within 15 s after {} points: {s}; sites so far {:?}", points.len(), sites.iter().rev().take(6).collect::<Vec<_>>()));
            }
        }
    }
    ctl.uninstall();
    if std::env::var("VERIF_SCHED_TIMING").is_ok() {
        eprintln!("sched_exec: {} points in {:?}", points.len(), t_boot.elapsed());
    }
    out.sites_fp = fp(&sites);
    if let Some(d) = diverged {
        node.shutdown();
        return Ok(Execution { points, outcome: out, diverged: Some(d) });
    }
    if let Some(msg) = panicked {
        out.violations.push(("chain-thread-panicked".into(), msg));
        out.end_fp = fp(&"panicked");
        node.shutdown();
        return Ok(Execution { points, outcome: out, diverged: None });
    }
    // ---- final judgement (every block delivered, every thread idle, every queue empty)
    if let Some(mon) = monitor {
        for (k, what) in mon(&node) {
            out.violations.push((format!("cut/{k}"), format!("{what} [at quiescence]")));
        }
        out.cuts_judged += 1;
    }
    let snap = node.shared.snapshot();
    let tip = snap.tip_hash();
    let tip_td = snap.total_difficulty().clone();
    let tip_ok = tip == genesis_hash || by_hash.get(&tip).map(|i| v.contains(i)).unwrap_or(false);
    if !tip_ok {
        out.violations.push(("tip-not-fully-valid".into(), format!("tip {tip} is not in the fully valid delivered set")));
    }
    if tip_td != w_star {
        out.violations.push(("tip-not-heaviest".into(), format!("tip total difficulty {tip_td:#x} != max over fully valid chains {w_star:#x}")));
    }
    if tip != prev_tip {
        if tip_td <= prev_td {
            out.violations.push(("switch-without-more-work".into(), format!("published tip changed {prev_tip} -> {tip} with total difficulty {prev_td:#x} -> {tip_td:#x}")));
        }
        out.tip_changes += 1;
    }
    {
        let mut cur = tip.clone();
        while cur != genesis_hash {
            match snap.get_block_ext(&cur) {
                Some(ext) if ext.verified == Some(true) => {
                    if let Some(i) = by_hash.get(&cur) {
                        if ext.total_difficulty != depth_td(*i) {
                            out.violations.push(("recorded-total-difficulty-wrong".into(), format!("main-chain block #{} records total difficulty {:#x}", i + 1, ext.total_difficulty)));
                        }
                    }
                }
                other => out.violations.push(("main-chain-block-not-verified".into(), format!("main-chain block {cur} has ext {:?}", other.map(|e| e.verified)))),
            }
            cur = snap.get_block_header(&cur).map(|h| h.parent_hash()).unwrap_or(genesis_hash.clone());
        }
    }
    let mut verified_set = BTreeSet::new();
    for (i, b) in m.blocks.iter().enumerate() {
        if let Some(ext) = node.shared.store().get_block_ext(&b.hash()) {
            if ext.verified == Some(true) {
                verified_set.insert(i);
                if !v.contains(&i) {
                    out.violations.push(("invalid-block-marked-verified".into(), format!("block #{} outside the fully valid set has verified=Some(true)", i + 1)));
                }
            }
        }
    }
    let d = node.deliveries.lock().unwrap().clone();
    let mut answers: BTreeMap<usize, (usize, usize, usize)> = BTreeMap::new(); // block -> (deliveries, answered, errs)
    for e in &d {
        let i = by_hash[&e.hash];
        let a = answers.entry(i).or_insert((0, 0, 0));
        a.0 += 1;
        match &e.result {
            Some(Ok(_)) => a.1 += 1,
            Some(Err(msg)) => {
                a.1 += 1;
                a.2 += 1;
                if v.contains(&i) {
                    out.violations.push(("valid-block-reported-failed".into(), format!("fully valid block #{} was answered Err({msg})", i + 1)));
                }
            }
            None => {}
        }
    }
    for (i, (n_del, n_ans, _)) in &answers {
        // every ancestor of every block was delivered, so nothing may still wait for a parent; a
        // duplicate that arrived while the first copy was held as an orphan replaces it (one
        // callback per held copy is dropped by design)
        // a block whose parent never got stored (it failed the context-free checks) legitimately stays
        // held; anything else without an answer has been lost
        if *n_ans == 0 && node.chain().get_orphan_block(node.shared.store(), &m.blocks[*i].hash()).is_none() {
            out.violations.push(("delivery-never-answered".into(), format!("block #{} was delivered {n_del} time(s), is not held as an orphan and was never answered although every thread is idle and every queue empty", i + 1)));
        }
    }
    for &i in &delivered {
        let b = &m.blocks[i];
        if node.chain().get_orphan_block(node.shared.store(), &b.hash()).is_some() {
            let ph = b.parent_hash();
            let parent_is_orphan = node.chain().get_orphan_block(node.shared.store(), &ph).is_some();
            let parent_stored = ph == genesis_hash || node.shared.store().get_block_header(&ph).is_some();
            if parent_stored && !parent_is_orphan {
                out.violations.push(("orphan-not-connected".into(), format!("block #{} is still held as an orphan although its parent is stored, every thread is idle and every queue empty", i + 1)));
            }
        }
    }
    for &i in &v {
        if node.shared.store().get_block(&m.blocks[i].hash()).is_none() {
            out.violations.push(("valid-block-not-stored".into(), format!("fully valid delivered block #{} is not in the store", i + 1)));
        }
    }
    out.tip_idx = by_hash.get(&tip).map(|i| *i as i64).unwrap_or(-1);
    out.end_fp = fp(&(out.tip_idx, &verified_set, answers.iter().map(|(k, a)| (*k, a.1, a.2)).collect::<Vec<_>>()));
    let t2 = std::time::Instant::now();
    node.shutdown();
    if std::env::var("VERIF_SCHED_TIMING").is_ok() {
        eprintln!("shutdown {:?}", t2.elapsed());
    }
    Ok(Execution { points, outcome: out, diverged: None })
}

fn seq_of(case: &Case) -> Vec<usize> {
    let mut seq: Vec<usize> = vec![];
    match case.dup {
        1 => {
            for &i in &case.perm {
                seq.push(i);
                seq.push(i);
            }
        }
        2 => {
            seq.extend(case.perm.iter().cloned());
            seq.extend(case.perm.iter().cloned());
        }
        _ => seq.extend(case.perm.iter().cloned()),
    }
    seq
}

/// What is explored: blocks, their tree, which are delivered synchronously before the scheduler
/// takes over (`pre`), which are queued for the controlled threads (`seq`).
pub struct SchedSubject {
    pub m: Materialised,
    pub pv: Vec<usize>,
    pub pre: Vec<usize>,
    pub seq: Vec<usize>,
    pub bound: usize,
    /// goes into replay files (with the schedule) and messages
    pub label: Value,
    pub family: &'static str,
}

#[allow(clippy::too_many_arguments)]
pub fn explore_subject(ctx: &Ctx, cons: &ckb_chain_spec::consensus::Consensus, sub: &SchedSubject, case_idx: u64, report: &mut Report, only_schedule: Option<Vec<usize>>, monitor: CutMonitor, only_prefix: Option<&str>) -> Result<(), String> {
    use crate::sched::*;
    let root_is_mine = ctx.mine(case_idx);
    let fam = sub.family;
    let (m, pv, pre, seq) = (&sub.m, &sub.pv, &sub.pre, &sub.seq);
    let replay_of = |schedule: &[usize]| {
        let mut l = sub.label.clone();
        l["family"] = json!(fam);
        l["schedule"] = json!(schedule);
        l
    };
    if let Some(schedule) = only_schedule {
        // replay: the recorded schedule twice, observations must be identical
        let a = sched_exec(ctx, cons, m, pv, pre, seq, &schedule, monitor)?;
        let b = sched_exec(ctx, cons, m, pv, pre, seq, &schedule, monitor)?;
        if a.outcome.sites_fp != b.outcome.sites_fp || a.outcome.end_fp != b.outcome.end_fp {
            return Err("replay of the recorded schedule is not deterministic".into());
        }
        report.traces += 2;
        report.evaluations += 1;
        for (k, what) in a.outcome.violations.iter().filter(|(k, _)| only_prefix.map(|p| k.starts_with(p)).unwrap_or(true)) {
            report.violation(format!("{fam}/{k}"), format!("{what} (replayed twice, identical observations)"), replay_of(&schedule));
        }
        return Ok(());
    }
    let mut run = |prefix: &[usize]| sched_exec(ctx, cons, m, pv, pre, seq, prefix, monitor);
    let mut local = Report::new();
    let case_fp = fp(&(sub.label.to_string(), sub.bound));
    let mut ends: BTreeSet<u64> = BTreeSet::new();
    let mut visit = |x: &Execution<SchedOutcome>, prefix: &[usize]| -> bool {
        // every shard runs the root schedule (its alternatives are what is sharded); it is counted
        // and judged by one of them
        if prefix.is_empty() && !root_is_mine {
            return true;
        }
        local.traces += 1;
        local.count("family_S_cuts_judged_by_the_monitor", x.outcome.cuts_judged);
        local.transitions += x.points.len() as u64;
        local.states.insert(fp(&(case_fp, x.outcome.sites_fp)));
        local.outcomes.insert(x.outcome.end_fp);
        ends.insert(x.outcome.end_fp);
        if x.outcome.saw_orphan || x.outcome.tip_changes > 1 {
            local.nontrivial.insert(fp(&(case_fp, x.outcome.sites_fp)));
        }
        let schedule: Vec<usize> = x.points.iter().map(|p| p.chosen).collect();
        for (k, what) in x.outcome.violations.iter().filter(|(k, _)| only_prefix.map(|p| k.starts_with(p)).unwrap_or(true)) {
            local.violation(format!("{fam}/{k}"), format!("{what} (case {}, schedule of {} grants)", sub.label, schedule.len()), replay_of(&schedule));
        }
        true
    };
    let stats = explore(sub.bound, 200_000, &mut run, &mut visit, &|unit| ctx.mine(unit + case_idx))?;
    if root_is_mine {
        local.evaluations += 1;
        local.count("family_S_cases", 1);
        local.sample(json!({"family": fam, "case": sub.label, "schedules_explored_by_this_shard": stats.schedules, "scheduling_points_in_the_longest_schedule": stats.max_points, "distinct_end_states": ends.len()}));
    }
    local.count("family_S_schedules", stats.schedules - if root_is_mine { 0 } else { 1 });
    local.max_counter("max_family_S_points_per_schedule", stats.max_points as u64);
    if !stats.divergences.is_empty() {
        local.count("family_S_replays_rerun_after_a_divergence", stats.divergences.len() as u64);
        for d in stats.divergences.iter().take(2) {
            local.notes.push(format!("family {fam}: replay divergence (schedule re-run): {}", d.chars().take(900).collect::<String>()));
        }
    }
    local.max_counter("max_family_S_distinct_end_states_of_one_case", ends.len() as u64);
    if stats.capped {
        local.cap_hit = Some(format!("family {fam}: schedule cap reached for {}", sub.label));
    }
    report.merge(local);
    Ok(())
}

#[allow(clippy::too_many_arguments)]
fn run_sched_case(ctx: &Ctx, u: &mut TreeUniverse, sc: &SchedCase, case_idx: u64, report: &mut Report, only_schedule: Option<Vec<usize>>, monitor: CutMonitor, only_prefix: Option<&str>) -> Result<(), String> {
    let m = materialise(u, &sc.case)?;
    let cons = u.consensus.clone();
    let sub = SchedSubject { m, pv: sc.case.pv.clone(), pre: vec![], seq: seq_of(&sc.case), bound: sc.bound, label: json!({"case": sc}), family: "S" };
    explore_subject(ctx, &cons, &sub, case_idx, report, only_schedule, monitor, only_prefix)
}

pub fn run_sched(ctx: &Ctx, u: &mut TreeUniverse, report: &mut Report, monitor: CutMonitor, only_prefix: Option<&str>) {
    let all = sched_cases(ctx.tier);
    let t_s = std::time::Instant::now();
    let only_idx: Option<usize> = std::env::var("VERIF_S_CASE_IDX").ok().and_then(|v| v.parse().ok());
    for (idx, sc) in all.iter().enumerate() {
        if only_idx.map(|o| o != idx).unwrap_or(false) {
            continue;
        }
        if ctx.out_of_time() {
            report.cap_hit = Some(format!("wall budget reached in family S at case {idx} of {}", all.len()));
            return;
        }
        if let Err(e) = run_sched_case(ctx, u, sc, idx as u64, report, None, monitor, only_prefix) {
            report.machinery_errors.push(format!("family S case #{idx} {sc:?}: {e}"));
            return;
        }
    }
    report.max_counter("max_family_S_wall_ms_per_worker", t_s.elapsed().as_millis() as u64);
    report.max_counter("max_worker_rss_mb_after_family_S", rss_mb());
}


// ---------------------------------------------------------------------------------------
// Family M: an invalid block in the middle of a fork whose descendants are consistent with it.
// In family A the descendants of an invalid block are the valid tree's blocks re-parented, so they
// fail their own contextual checks on top of the invalid block's state; here they are built on
// top of it (by a node that was told to skip exactly the rule M breaks), so the ONLY thing that
// keeps their chain off the main chain is the verdict on M.  Main chain a1 a2 (work 2); M commits
// a transaction nobody proposed; branches M x1 x2 and M w1 w2 (work 3 each).

fn build_family_m(ctx: &Ctx, cons: &ckb_chain_spec::consensus::Consensus) -> Result<(Materialised, Vec<usize>), String> {
    use crate::forge::*;
    use ckb_verification_traits::Switch;
    let dir = ctx.scratch.join("forge-m");
    let _ = std::fs::remove_dir_all(&dir);
    set_time(time_for_height(12));
    let node = Node::boot(&dir, &NodeOpts::new(cons.clone()))?;
    node.wait_startup()?;
    let genesis = cons.genesis_hash();
    let build = |node: &Node, spec: &BlockSpec| -> Result<BlockView, String> {
        let snap = std::sync::Arc::clone(&node.shared.snapshot());
        assemble(&snap, spec)
    };
    let a1 = build(&node, &BlockSpec { miner: 1, ts_offset: 1, ..Default::default() })?;
    node.process(&a1).map_err(|e| format!("a1: {e}"))?;
    let a2 = build(&node, &BlockSpec { miner: 1, ts_offset: 1, ..Default::default() })?;
    node.process(&a2).map_err(|e| format!("a2: {e}"))?;
    node.chain().truncate(genesis.clone()).map_err(|e| e.to_string())?;
    let cells = genesis_cells(cons);
    let tx = simple_tx(cons, &cells[0..1], 1, 1_000, 77);
    let m = build(&node, &BlockSpec { miner: 2, ts_offset: 2, txs: vec![tx], ..Default::default() })?;
    // ground truth: refused under full verification ...
    if node.process(&m).is_ok() {
        return Err("family M: the block committing an unproposed transaction was accepted".into());
    }
    // ... whatever the refusal leaves behind stays with that node: the descendants are built by a
    // fresh one
    node.destroy();
    let _ = std::fs::remove_dir_all(&dir);
    let node = Node::boot(&dir, &NodeOpts::new(cons.clone()))?;
    node.wait_startup()?;
    node.chain().blocking_process_block_with_switch(std::sync::Arc::new(m.clone()), Switch::DISABLE_TWO_PHASE_COMMIT).map_err(|e| format!("M with the two-phase-commit rule off: {e}"))?;
    if node.tip().hash() != m.hash() {
        return Err("family M: the builder did not adopt M".into());
    }
    let mut branch = |miner: u8| -> Result<(BlockView, BlockView), String> {
        if node.tip().hash() != m.hash() {
            node.chain().truncate(m.hash()).map_err(|e| e.to_string())?;
        }
        let b1 = build(&node, &BlockSpec { miner, ts_offset: miner as u64, ..Default::default() })?;
        node.process(&b1).map_err(|e| format!("child of M refused by the builder: {e}"))?;
        let b2 = build(&node, &BlockSpec { miner, ts_offset: miner as u64, ..Default::default() })?;
        node.process(&b2).map_err(|e| format!("grandchild of M refused by the builder: {e}"))?;
        Ok((b1, b2))
    };
    let (x1, x2) = branch(3)?;
    let (w1, w2) = branch(4)?;
    node.destroy();
    let blocks = vec![a1, a2, m, x1, x2, w1, w2];
    let pv = vec![0usize, 1, 0, 3, 4, 3, 6];
    Ok((Materialised { blocks, self_valid: vec![true, true, false, true, true, true, true] }, pv))
}

fn run_family_m(ctx: &Ctx, report: &mut Report, only: Option<Vec<usize>>) {
    let cons = consensus(&WorldOpts::default());
    let (m, pv) = match build_family_m(ctx, &cons) {
        Ok(x) => x,
        Err(e) => {
            report.machinery_errors.push(format!("family M universe: {e}"));
            return;
        }
    };
    let before = |perm: &[usize], a: usize, b: usize| perm.iter().position(|x| *x == a).unwrap() < perm.iter().position(|x| *x == b).unwrap();
    let perms: Vec<Vec<usize>> = match only {
        Some(p) => vec![p],
        None => permutations(7).into_iter().filter(|perm| ctx.tier.is_thorough() || (before(perm, 0, 1) && before(perm, 2, 3) && before(perm, 3, 4) && before(perm, 2, 5) && before(perm, 5, 6))).collect(),
    };
    for (idx, perm) in perms.iter().enumerate() {
        if ctx.replay.is_none() && !ctx.mine(idx as u64) {
            continue;
        }
        if ctx.out_of_time() {
            report.cap_hit = Some(format!("wall budget reached in family M at order {idx} of {}", perms.len()));
            return;
        }
        let label = json!({"family": "M", "perm": perm, "blocks": ["a1", "a2", "M", "x1", "x2", "w1", "w2"]});
        match run_scenario(ctx, &cons, &m, &pv, perm, false, "M", &label, fp(&("M", perm)), idx as u64 * 997 + 1) {
            Ok(r) => report.merge(r),
            Err(e) => {
                report.machinery_errors.push(format!("family M order {perm:?}: {e}"));
                return;
            }
        }
        report.count("family_M_runs", 1);
    }
}

// ---------------------------------------------------------------------------------------
// Family U: an invalid block whose invalidity lives in an index the discard path touches.  a2
// embeds the uncle u (a sibling of a1); X, a child of a2, embeds u once more (double inclusion);
// Xv is a valid sibling of X.  X is delivered twice in every arrival order of {a1, a2, X, X, Xv}:
// the verdict on a block must not depend on the same block having been refused and discarded before.
fn build_family_u(ctx: &Ctx, cons: &ckb_chain_spec::consensus::Consensus) -> Result<(Materialised, Vec<usize>), String> {
    use crate::forge::*;
    let dir = ctx.scratch.join("forge-u");
    let _ = std::fs::remove_dir_all(&dir);
    set_time(time_for_height(12));
    let node = Node::boot(&dir, &NodeOpts::new(cons.clone()))?;
    node.wait_startup()?;
    let build = |node: &Node, spec: &BlockSpec| -> Result<BlockView, String> {
        let snap = std::sync::Arc::clone(&node.shared.snapshot());
        assemble(&snap, spec)
    };
    let u = build(&node, &BlockSpec { miner: 9, ts_offset: 9, ..Default::default() })?;
    let a1 = build(&node, &BlockSpec { miner: 1, ts_offset: 1, ..Default::default() })?;
    node.process(&a1).map_err(|e| format!("a1: {e}"))?;
    let a2 = build(&node, &BlockSpec { miner: 1, ts_offset: 1, uncles: vec![u.as_uncle()], ..Default::default() })?;
    node.process(&a2).map_err(|e| format!("a2 (embeds the uncle): {e}"))?;
    let xv = build(&node, &BlockSpec { miner: 5, ts_offset: 5, ..Default::default() })?;
    let x = build(&node, &BlockSpec { miner: 4, ts_offset: 4, uncles: vec![u.as_uncle()], ..Default::default() })?;
    if node.process(&x).is_ok() {
        return Err("family U: the block embedding the uncle a second time was accepted".into());
    }
    node.process(&xv).map_err(|e| format!("family U: the valid sibling was refused: {e}"))?;
    node.destroy();
    Ok((Materialised { blocks: vec![a1, a2, x, xv], self_valid: vec![true, true, false, true] }, vec![0usize, 1, 2, 2]))
}

fn run_family_u(ctx: &Ctx, report: &mut Report, only: Option<Vec<usize>>) {
    let cons = consensus(&WorldOpts::default());
    let (m, pv) = match build_family_u(ctx, &cons) {
        Ok(x) => x,
        Err(e) => {
            report.machinery_errors.push(format!("family U universe: {e}"));
            return;
        }
    };
    // every arrangement of the multiset {a1, a2, X, X, Xv}
    let mut seqs: Vec<Vec<usize>> = match only {
        Some(p) => vec![p],
        None => {
            let mut v: Vec<Vec<usize>> = permutations(5).into_iter().map(|p| p.into_iter().map(|i| [0usize, 1, 2, 2, 3][i]).collect()).collect();
            v.sort();
            v.dedup();
            v
        }
    };
    // the plain order first
    seqs.sort_by_key(|s| s != &vec![0usize, 1, 2, 2, 3]);
    for (idx, seq) in seqs.iter().enumerate() {
        if ctx.replay.is_none() && !ctx.mine(idx as u64) {
            continue;
        }
        if ctx.out_of_time() {
            report.cap_hit = Some(format!("wall budget reached in family U at order {idx} of {}", seqs.len()));
            return;
        }
        let label = json!({"family": "U", "perm": seq, "blocks": ["a1", "a2 (embeds uncle u)", "X (embeds u again)", "Xv"]});
        match run_scenario(ctx, &cons, &m, &pv, seq, false, "U", &label, fp(&("U", seq)), idx as u64 * 991 + 3) {
            Ok(r) => report.merge(r),
            Err(e) => {
                report.machinery_errors.push(format!("family U order {seq:?}: {e}"));
                return;
            }
        }
        report.count("family_U_runs", 1);
    }
}

/// Family S on behalf of C02: the same schedules, judged by a monitor that examines the published
/// snapshot at every cut (every moment at which all three threads are parked or idle); only the
/// monitor's findings are reported.
pub fn sched_family_with_monitor(ctx: &Ctx, report: &mut Report, monitor: &dyn Fn(&Node) -> Vec<(String, String)>, replay: Option<&Value>) {
    let cons = consensus(&WorldOpts::default());
    set_time(time_for_height(12));
    let mut u = match TreeUniverse::new(&ctx.scratch.join("forge-s"), &cons) {
        Ok(u) => u,
        Err(e) => {
            report.machinery_errors.push(format!("forge boot: {e}"));
            return;
        }
    };
    if let Some(v) = replay {
        let sc: SchedCase = serde_json::from_value(v["case"].clone()).expect("case");
        let schedule: Vec<usize> = serde_json::from_value(v["schedule"].clone()).expect("schedule");
        let keys = needed_keys(std::slice::from_ref(&sc.case));
        if let Err(e) = u.build_all(&keys) {
            report.machinery_errors.push(e);
            return;
        }
        if let Err(e) = run_sched_case(ctx, &mut u, &sc, 0, report, Some(schedule), Some(monitor), Some("cut/")) {
            report.machinery_errors.push(e);
        }
        return;
    }
    let keys = needed_keys(&sched_cases(ctx.tier).iter().map(|s| s.case.clone()).collect::<Vec<_>>());
    if let Err(e) = u.build_all(&keys) {
        report.machinery_errors.push(format!("universe: {e}"));
        return;
    }
    run_sched(ctx, &mut u, report, Some(monitor), Some("cut/"));
}

fn rss_mb() -> u64 {
    std::fs::read_to_string("/proc/self/status").ok().and_then(|t| t.lines().find_map(|l| l.strip_prefix("VmRSS:").and_then(|r| r.trim().trim_end_matches("kB").trim().parse::<u64>().ok()))).map(|kb| kb / 1024).unwrap_or(0)
}
