//! C03 — a block joins the main chain iff it meets every consensus rule in its context.
//!
//! Contexts are built by the forge (flat world: 4-block epochs, proposal window 2..4, at most two
//! uncles): a base chain p1..p5 whose blocks propose transactions at every distance from the
//! candidate height, with sibling blocks usable as uncles; a second context two blocks further
//! (the candidate is an epoch head); a third where an uncle is already included.  On each context
//! a catalogue of candidate blocks is enumerated: valid blocks placed exactly on the boundary of
//! each rule, and for each rule the single-rule violation.  Every candidate goes through the
//! pipeline a miner's `submit_block` uses (HeaderVerifier on the snapshot, parent known, then the
//! chain service), once directly on the context tip and once as a side block that a child then
//! tries to make canonical.
use crate::chainstate::*;
use crate::core::*;
use crate::forge::*;
use crate::node::*;
use crate::world::*;
use ckb_chain_spec::consensus::Consensus;
use ckb_types::{
    bytes::Bytes,
    core::{BlockView, Capacity, EpochNumberWithFraction, TransactionView, UncleBlockView},
    packed::{self, Byte32, CellInput, ProposalShortId},
    prelude::*,
};
use ckb_verification::HeaderVerifier;
use ckb_verification_traits::Verifier;
use serde_json::{Value, json};
use std::collections::HashMap;

const NOW_HEIGHT: u64 = 40;

#[derive(Clone)]
struct Cand {
    name: String,
    block: BlockView,
    valid: bool,
}

struct Context {
    name: &'static str,
    /// main chain from block 1 to the context tip
    chain: Vec<BlockView>,
    cands: Vec<Cand>,
    /// a valid block on the context tip and a valid child of it (for the side-branch form)
    good: BlockView,
    good_child: BlockView,
    /// a competing branch delivered after `chain[..detour_after]`: the node reaches the context tip
    /// through a reorganisation away and back (re-attaching blocks it has already verified)
    detour: Vec<BlockView>,
    detour_after: usize,
    /// the judging nodes stay below an assume-valid target (they skip script execution; every
    /// other rule applies unchanged)
    assume_valid: bool,
}

fn with_header<F: FnOnce(packed::RawHeaderBuilder) -> packed::RawHeaderBuilder>(b: &BlockView, f: F) -> BlockView {
    let raw = f(b.data().header().raw().as_builder()).build();
    let header = b.data().header().as_builder().raw(raw).build();
    // (into_view() would recompute the roots)
    let out = b.data().as_builder().header(header).build().into_view_without_reset_header();
    assert_ne!(out.hash(), b.hash(), "the mutation must change the header");
    out
}

fn flip(h: &Byte32) -> Byte32 {
    let mut v = h.as_slice().to_vec();
    v[0] ^= 1;
    Byte32::from_slice(&v).unwrap()
}

/// `shift` empty blocks precede the designed chain: the candidate of the first context stands at
/// height 6 + shift, i.e. at every position of an epoch (shift 2: it opens one); validity labels that
/// depend on the position (which sibling blocks are uncles of the candidate's epoch) follow the rule.
/// The other contexts are built for shift 0 only.
fn build_contexts(ctx: &Ctx, cons: &Consensus, shift: usize) -> Result<Vec<Context>, String> {
    set_time(time_for_height(NOW_HEIGHT));
    let mut forge = Forge::new(&ctx.scratch.join(format!("c03-forge-{shift}")), cons)?;
    let g = genesis_cells(cons);
    let t_old = simple_tx(cons, &g[0..1], 1, 1_000_000, 1);
    let t_far = simple_tx(cons, &g[1..2], 1, 1_000_000, 2);
    let t_close = simple_tx(cons, &g[2..3], 1, 2_000_000, 3);
    let t_gap = simple_tx(cons, &g[3..4], 1, 1_000_000, 4);
    let t_none = simple_tx(cons, &g[4..5], 1, 1_000_000, 5);
    // spends the same cell as t_far, proposed as well
    let t_far2 = simple_tx(cons, &g[1..2], 1, 1_500_000, 6);
    let id = |t: &TransactionView| t.proposal_short_id();
    let genesis = cons.genesis_hash();
    let mut lead: Vec<BlockView> = vec![];
    let mut parent = genesis.clone();
    for _ in 0..shift {
        let b = forge.build_on(&parent, &BlockSpec { miner: 1, ..Default::default() })?;
        parent = b.hash();
        lead.push(b);
    }
    let mut p: Vec<BlockView> = vec![];
    for n in 1..=7u64 {
        let mut spec = BlockSpec { miner: 1, ..Default::default() };
        match n {
            1 => spec.proposals = vec![id(&t_old)],
            2 => spec.proposals = vec![id(&t_far), id(&t_far2)],
            4 => spec.proposals = vec![id(&t_close)],
            5 => spec.proposals = vec![id(&t_gap)],
            _ => {}
        }
        let b = forge.build_on(&parent, &spec)?;
        parent = b.hash();
        p.push(b);
    }
    let sib = |forge: &mut Forge, parent: &Byte32, miner: u8| forge.build_on(parent, &BlockSpec { miner, ts_offset: miner as u64, ..Default::default() });
    let u3 = sib(&mut forge, &p[1].hash(), 11)?; // number 3, epoch 0
    let u4 = sib(&mut forge, &p[2].hash(), 12)?; // number 4, epoch 1
    let u5 = sib(&mut forge, &p[3].hash(), 13)?; // number 5
    let u5b = sib(&mut forge, &p[3].hash(), 14)?;
    let u5x = sib(&mut forge, &u4.hash(), 15)?; // number 5, child of the fork block u4
    let u6 = sib(&mut forge, &p[4].hash(), 16)?; // number 6: a sibling of the candidate
    let unc = |b: &BlockView| b.as_uncle();

    let mut out = vec![];
    // ------------------------------------------------------------------ context 1: tip p5
    {
        let tip = p[4].clone();
        let mut cands: Vec<Cand> = vec![];
        let mut add = |name: &str, block: BlockView, valid: bool| cands.push(Cand { name: name.to_string(), block, valid });
        let good = forge.build_on(&tip.hash(), &BlockSpec { miner: 2, ..Default::default() })?;
        let (e_num, e_idx, e_len) = (good.epoch().number(), good.epoch().index(), good.epoch().length());
        let n_cand = good.number();
        let good_tx = forge.build_on(&tip.hash(), &BlockSpec { miner: 2, txs: vec![t_far.clone()], ..Default::default() })?;
        add("empty", good.clone(), true);
        // --- commit window
        add("commit/farthest-edge", good_tx.clone(), true);
        add("commit/closest-edge", forge.build_on(&tip.hash(), &BlockSpec { miner: 2, txs: vec![t_close.clone()], ..Default::default() })?, true);
        add("commit/both-edges", forge.build_on(&tip.hash(), &BlockSpec { miner: 2, txs: vec![t_far.clone(), t_close.clone()], ..Default::default() })?, true);
        add("commit/proposed-in-gap", forge.build_on(&tip.hash(), &BlockSpec { miner: 2, txs: vec![t_gap.clone()], ..Default::default() })?, false);
        add("commit/proposal-expired", forge.build_on(&tip.hash(), &BlockSpec { miner: 2, txs: vec![t_old.clone()], ..Default::default() })?, false);
        add("commit/never-proposed", forge.build_on(&tip.hash(), &BlockSpec { miner: 2, txs: vec![t_none.clone()], ..Default::default() })?, false);
        add("commit/proposed-in-same-block", forge.build_on(&tip.hash(), &BlockSpec { miner: 2, txs: vec![t_none.clone()], proposals: vec![id(&t_none)], ..Default::default() })?, false);
        // two proposed transactions spending the same cell: assemble would refuse to resolve, so mutate
        add("commit/double-spend-in-block", good_tx.as_advanced_builder().transaction(t_far2.clone()).build(), false);
        add("commit/duplicate-tx", good_tx.as_advanced_builder().transaction(t_far.clone()).build(), false);
        // --- header
        add("header/number+1", good.as_advanced_builder().number(n_cand + 1).build(), false);
        add("header/number-same-as-parent", good.as_advanced_builder().number(n_cand - 1).build(), false);
        add("header/epoch-index+1", good.as_advanced_builder().epoch(EpochNumberWithFraction::new_unchecked(e_num, e_idx + 1, e_len)).build(), false);
        add("header/epoch-index-same", good.as_advanced_builder().epoch(tip.epoch()).build(), false);
        add("header/epoch-length", good.as_advanced_builder().epoch(EpochNumberWithFraction::new(e_num, e_idx, e_len + 1)).build(), false);
        add("header/epoch-number", good.as_advanced_builder().epoch(EpochNumberWithFraction::new(e_num + 1, 0, e_len)).build(), false);
        add("header/epoch-malformed", good.as_advanced_builder().epoch(EpochNumberWithFraction::new_unchecked(e_num, e_len, e_len)).build(), false);
        add("header/target+1", good.as_advanced_builder().compact_target(good.compact_target() + 1).build(), false);
        // (the version field is not a consensus rule: it carries soft-fork signalling bits) - valid
        add("header/version-bits-set", good.as_advanced_builder().version(1u32).build(), true);
        add("header/parent-unknown", good.as_advanced_builder().parent_hash(flip(&tip.hash())).build(), false);
        // median of the last three blocks (p3, p4, p5) is p4's timestamp
        let median = p[3].timestamp();
        add("header/timestamp=median", good.as_advanced_builder().timestamp(median).build(), false);
        add("header/timestamp=median+1", good.as_advanced_builder().timestamp(median + 1).build(), true);
        let now = time_for_height(NOW_HEIGHT);
        add("header/timestamp=now+15s", good.as_advanced_builder().timestamp(now + 15_000).build(), true);
        add("header/timestamp=now+15s+1ms", good.as_advanced_builder().timestamp(now + 15_001).build(), false);
        // --- structure
        let cb = good_tx.transactions()[0].clone();
        add("cellbase/missing", good_tx.as_advanced_builder().set_transactions(vec![t_far.clone()]).build(), false);
        add("cellbase/none-at-all", good.as_advanced_builder().set_transactions(vec![]).build(), false);
        add("cellbase/second", good_tx.as_advanced_builder().set_transactions(vec![t_far.clone(), cb.clone()]).build(), false);
        add("cellbase/two", good_tx.as_advanced_builder().set_transactions(vec![cb.clone(), cb.clone(), t_far.clone()]).build(), false);
        add("cellbase/input-number+1", good.as_advanced_builder().set_transactions(vec![cb.as_advanced_builder().set_inputs(vec![CellInput::new_cellbase_input(n_cand + 1)]).build()]).build(), false);
        add("cellbase/witness-not-cellbase-witness", good.as_advanced_builder().set_transactions(vec![cb.as_advanced_builder().set_witnesses(vec![Bytes::from(vec![1u8, 2, 3]).pack()]).build()]).build(), false);
        add("cellbase/no-witness", good.as_advanced_builder().set_transactions(vec![cb.as_advanced_builder().set_witnesses(vec![]).build()]).build(), false);
        // the candidate finalises the block five below it: its cellbase has one output
        if cb.outputs().len() != 1 {
            return Err("the cellbase of the candidate should pay the block five below it".into());
        }
        let o = cb.outputs().get(0).unwrap();
        let cap: u64 = o.capacity().unpack();
        let pay = |c: u64| cb.as_advanced_builder().set_outputs(vec![o.clone().as_builder().capacity(Capacity::shannons(c)).build()]).build();
        add("reward/+1", good.as_advanced_builder().set_transactions(vec![pay(cap + 1)]).build(), false);
        add("reward/-1", good.as_advanced_builder().set_transactions(vec![pay(cap - 1)]).build(), false);
        add("reward/other-lock", good.as_advanced_builder().set_transactions(vec![cb.as_advanced_builder().set_outputs(vec![o.clone().as_builder().lock(miner_lock(9)).build()]).build()]).build(), false);
        add("reward/split-in-two-outputs", good.as_advanced_builder().set_transactions(vec![cb.as_advanced_builder().set_outputs(vec![o.clone().as_builder().capacity(Capacity::shannons(cap / 2)).build(), o.clone().as_builder().capacity(Capacity::shannons(cap - cap / 2)).build()]).set_outputs_data(vec![Bytes::new().pack(), Bytes::new().pack()]).build()]).build(), false);
        add("reward/no-output", good.as_advanced_builder().set_transactions(vec![cb.as_advanced_builder().set_outputs(vec![]).set_outputs_data(vec![]).build()]).build(), false);
        let mut dao = good.dao().raw_data().to_vec();
        dao[8] ^= 1;
        add("dao/flipped-bit", good.as_advanced_builder().dao(Byte32::from_slice(&dao).unwrap()).build(), false);
        // --- commitments
        add("roots/transactions-root", with_header(&good_tx, |r| r.transactions_root(flip(&good_tx.transactions_root()))), false);
        add("roots/proposals-hash", with_header(&good_tx, |r| r.proposals_hash(flip(&good_tx.proposals_hash()))), false);
        add("roots/extra-hash", with_header(&good_tx, |r| r.extra_hash(flip(&good_tx.extra_hash()))), false);
        // --- extension
        let ext = good.extension().unwrap().raw_data();
        let with_ext = |e: Option<Vec<u8>>| good.as_advanced_builder().extension(e.map(|v| Bytes::from(v).pack())).build();
        add("extension/missing", with_ext(None), false);
        add("extension/empty", with_ext(Some(vec![])), false);
        add("extension/31-bytes", with_ext(Some(ext[..31].to_vec())), false);
        add("extension/wrong-root", with_ext(Some({ let mut v = ext.to_vec(); v[5] ^= 1; v })), false);
        add("extension/96-bytes", with_ext(Some({ let mut v = ext.to_vec(); v.extend(vec![7u8; 64]); v })), true);
        add("extension/97-bytes", with_ext(Some({ let mut v = ext.to_vec(); v.extend(vec![7u8; 65]); v })), false);
        // --- proposals
        let limit = cons.max_block_proposals_limit() as usize;
        let ids = |n: usize| -> Vec<ProposalShortId> { (0..n).map(|i| { let mut x = [0u8; 10]; x[..8].copy_from_slice(&(i as u64 + 1).to_le_bytes()); x[9] = 0xEE; ProposalShortId::new(x) }).collect() };
        add("proposals/exactly-the-limit", good.as_advanced_builder().set_proposals(ids(limit)).build(), true);
        add("proposals/limit+1", good.as_advanced_builder().set_proposals(ids(limit + 1)).build(), false);
        add("proposals/duplicate", good.as_advanced_builder().set_proposals(vec![ids(1)[0].clone(), ids(1)[0].clone()]).build(), false);
        // --- uncles
        let with_uncles = |u: Vec<UncleBlockView>| good.as_advanced_builder().set_uncles(u).build();
        // an uncle must belong to the candidate's epoch: the sibling k below the candidate does iff the
        // candidate's index in its epoch is at least k
        add("uncles/one", with_uncles(vec![unc(&u5)]), e_idx >= 1);
        add("uncles/older-same-epoch", with_uncles(vec![unc(&u4)]), e_idx >= 2);
        add("uncles/two=max", with_uncles(vec![unc(&u5), unc(&u4)]), e_idx >= 2);
        add("uncles/three", with_uncles(vec![unc(&u5), unc(&u4), unc(&u5b)]), false);
        add("uncles/previous-epoch", with_uncles(vec![unc(&u3)]), e_idx >= 3);
        add("uncles/same-twice", with_uncles(vec![unc(&u5), unc(&u5)]), false);
        add("uncles/main-chain-block", with_uncles(vec![unc(&p[3])]), false);
        add("uncles/same-height-as-block", with_uncles(vec![unc(&u6)]), false);
        add("uncles/parent-is-a-fork-block", with_uncles(vec![unc(&u5x)]), false);
        add("uncles/parent-embedded-before-it", with_uncles(vec![unc(&u4), unc(&u5x)]), e_idx >= 2);
        add("uncles/parent-embedded-after-it", with_uncles(vec![unc(&u5x), unc(&u4)]), false);
        add("uncles/other-target", with_uncles(vec![u5.as_advanced_builder().compact_target(u5.compact_target() + 1).build().as_uncle()]), false);
        let bad_hash_uncle = with_header(&u5, |r| r.proposals_hash(flip(&u5.proposals_hash())));
        // (as_uncle() would recompute the hash: build the packed uncle by hand)
        let bad_uncle = packed::UncleBlock::new_builder().header(bad_hash_uncle.data().header()).proposals(bad_hash_uncle.data().proposals()).build().into_view();
        if std::env::var("C03_DEBUG").is_ok() {
            let blk = with_uncles(vec![bad_uncle.clone()]);
            let inside = blk.uncles().get(0).unwrap();
            println!("bad uncle: header says {} computed {} ; inside block: header says {} computed {}", bad_uncle.proposals_hash(), bad_uncle.data().as_reader().calc_proposals_hash(), inside.proposals_hash(), inside.data().as_reader().calc_proposals_hash());
        }
        add("uncles/proposals-hash", with_uncles(vec![bad_uncle]), false);
        let good_child = forge.build_on(&good.hash(), &BlockSpec { miner: 2, ..Default::default() })?;
        // the same tip reached through a detour: p1..p3, a four-block branch from genesis overtakes,
        // p4 and p5 overtake again
        {
            let mut q = vec![];
            let mut qp = genesis.clone();
            for k in 0..4 + shift {
                // the competing branch proposes and commits t_close itself: when the candidate later
                // commits [t_far, t_close] the node has verified the second one before (on the
                // abandoned branch) and the first one never
                let mut spec = BlockSpec { miner: 21, ts_offset: 21, ..Default::default() };
                if k == 0 {
                    spec.proposals = vec![id(&t_close)];
                }
                if k == 2 {
                    spec.txs = vec![t_close.clone()];
                }
                let b = forge.build_on(&qp, &spec)?;
                qp = b.hash();
                q.push(b);
            }
            let keep = ["empty", "commit/farthest-edge", "commit/closest-edge", "commit/both-edges", "uncles/one", "header/timestamp=median", "commit/proposed-in-gap", "extension/wrong-root", "reward/+1"];
            let mut sub: Vec<Cand> = cands.iter().filter(|c| keep.contains(&c.name.as_str())).map(|c| Cand { name: c.name.clone(), block: c.block.clone(), valid: c.valid }).collect();
            // the block with both transactions is judged first: at that moment the node has verified
            // t_close (on the abandoned branch) and has never seen t_far
            sub.sort_by_key(|c| c.name != "commit/both-edges");
            let chain: Vec<BlockView> = lead.iter().chain(p[..5].iter()).cloned().collect();
            out.push(Context { name: ["tip5-after-detour", "tip6-after-detour", "tip7-after-detour", "tip8-after-detour"][shift], chain, cands: sub, good: good.clone(), good_child: good_child.clone(), detour: q, detour_after: 3 + shift, assume_valid: false });
        }
        let chain: Vec<BlockView> = lead.iter().chain(p[..5].iter()).cloned().collect();
        if shift == 0 {
            out.push(Context { name: "tip5-below-assume-valid-target", chain: chain.clone(), cands: cands.clone(), good: good.clone(), good_child: good_child.clone(), detour: vec![], detour_after: 0, assume_valid: true });
        }
        out.push(Context { name: ["tip5", "tip6", "tip7-candidate-opens-epoch", "tip8"][shift], chain, cands, good, good_child, detour: vec![], detour_after: 0, assume_valid: false });
    }
    if shift > 0 {
        return Ok(out);
    }
    // ------------------------------------------------------------------ context 2: tip p7, candidate = epoch head
    {
        let tip = p[6].clone();
        let mut cands: Vec<Cand> = vec![];
        let mut add = |name: &str, block: BlockView, valid: bool| cands.push(Cand { name: name.to_string(), block, valid });
        let good = forge.build_on(&tip.hash(), &BlockSpec { miner: 2, ..Default::default() })?;
        if good.epoch() != EpochNumberWithFraction::new(2, 0, 4) {
            return Err(format!("block 8 should open epoch 2, it has {}", good.epoch()));
        }
        add("epoch-head/valid", good.clone(), true);
        add("epoch-head/not-advanced", good.as_advanced_builder().epoch(EpochNumberWithFraction::new_unchecked(1, 4, 4)).build(), false);
        add("epoch-head/stays-at-last-index", good.as_advanced_builder().epoch(EpochNumberWithFraction::new(1, 3, 4)).build(), false);
        add("epoch-head/skipped", good.as_advanced_builder().epoch(EpochNumberWithFraction::new(3, 0, 4)).build(), false);
        add("epoch-head/index-1", good.as_advanced_builder().epoch(EpochNumberWithFraction::new(2, 1, 4)).build(), false);
        add("epoch-head/other-length", good.as_advanced_builder().epoch(EpochNumberWithFraction::new(2, 0, 5)).build(), false);
        add("epoch-head/target+1", good.as_advanced_builder().compact_target(good.compact_target() + 1).build(), false);
        // an uncle of the closing epoch cannot be included by the head of the next one
        let u7 = forge.build_on(&p[5].hash(), &BlockSpec { miner: 17, ts_offset: 17, ..Default::default() })?;
        add("epoch-head/uncle-of-previous-epoch", good.as_advanced_builder().set_uncles(vec![u7.as_uncle()]).build(), false);
        let good_child = forge.build_on(&good.hash(), &BlockSpec { miner: 2, ..Default::default() })?;
        out.push(Context { name: "tip7-epoch-head", chain: p[..7].to_vec(), cands, good, good_child, detour: vec![], detour_after: 0, assume_valid: false });
    }
    // ------------------------------------------------------------------ context 3: p6 already includes u5
    {
        let p6u = forge.build_on(&p[4].hash(), &BlockSpec { miner: 3, uncles: vec![unc(&u5)], ..Default::default() })?;
        let mut chain = p[..5].to_vec();
        chain.push(p6u.clone());
        let mut cands: Vec<Cand> = vec![];
        let good = forge.build_on(&p6u.hash(), &BlockSpec { miner: 2, ..Default::default() })?;
        cands.push(Cand { name: "uncles/included-before".into(), block: good.as_advanced_builder().set_uncles(vec![unc(&u5)]).build(), valid: false });
        cands.push(Cand { name: "uncles/sibling-of-included".into(), block: good.as_advanced_builder().set_uncles(vec![unc(&u5b)]).build(), valid: true });
        // a child of an included uncle descends properly
        let u6x = forge.build_on(&u5.hash(), &BlockSpec { miner: 18, ts_offset: 18, ..Default::default() })?;
        cands.push(Cand { name: "uncles/child-of-included-uncle".into(), block: good.as_advanced_builder().set_uncles(vec![unc(&u6x)]).build(), valid: true });
        let good_child = forge.build_on(&good.hash(), &BlockSpec { miner: 2, ..Default::default() })?;
        out.push(Context { name: "tip6-with-uncle", chain, cands, good, good_child, detour: vec![], detour_after: 0, assume_valid: false });
    }
    Ok(out)
}

/// the pipeline of `submit_block`
fn submit(node: &Node, cons: &Consensus, block: &BlockView) -> Result<bool, String> {
    let snapshot = node.shared.snapshot();
    HeaderVerifier::new(snapshot.as_ref(), cons).verify(&block.header()).map_err(|e| format!("header: {e}"))?;
    if snapshot.get_block_header(&block.parent_hash()).is_none() {
        return Err("parent not found".into());
    }
    node.process(block).map_err(|e| e.to_string())
}

use ckb_store::ChainStore;

fn state_problems(node: &Node, cons: &Consensus, main: &[BlockView]) -> Vec<(String, String)> {
    let mut chain = vec![cons.genesis_block().clone()];
    chain.extend(main.iter().cloned());
    if !cons.permanent_difficulty() {
        // the byte-level reference models the flat world's epochs; in the dynamic world the state
        // is judged by what names the main chain: stored tip and number index
        use ckb_store::ChainStore;
        let store = node.shared.store();
        let mut out = vec![];
        if store.get_tip_header().map(|h| h.hash()) != chain.last().map(|b| b.hash()) {
            out.push(("meta-tip".into(), "stored tip is not the head of the expected main chain".into()));
        }
        for b in &chain {
            if store.get_block_hash(b.number()) != Some(b.hash()) {
                out.push(("number-hash-index".into(), format!("number index at {} does not name the main-chain block", b.number())));
            }
        }
        if store.get_block_hash(chain.len() as u64).is_some() {
            out.push(("number-hash-index".into(), "number index continues above the tip".into()));
        }
        return out;
    }
    let r = match RefChain::replay(cons, &chain) {
        Ok(r) => r,
        Err(e) => return vec![("reference".into(), e)],
    };
    let store = node.shared.store();
    let d = dump(store);
    compare(store, &d, &r)
}

fn run_context(ctx: &Ctx, cons: &Consensus, c: &Context, which: Option<&str>, report: &mut Report) -> Result<(), String> {
    let boot = |tag: &str| -> Result<Node, String> {
        let dir = ctx.scratch.join(format!("c03-{}-{tag}", c.name));
        let _ = std::fs::remove_dir_all(&dir);
        let mut opts = NodeOpts::new(cons.clone());
        opts.assume_valid = c.assume_valid;
        let node = Node::boot(&dir, &opts)?;
        node.wait_startup()?;
        if c.assume_valid && node.shared.assume_valid_targets().is_none() {
            return Err("the node is not in assume-valid mode".into());
        }
        for (i, b) in c.chain.iter().enumerate() {
            if !c.detour.is_empty() && i == c.detour_after {
                for d in &c.detour {
                    node.process(d).map_err(|e| format!("detour block {}: {e}", d.number()))?;
                }
                if node.tip().hash() != c.detour.last().unwrap().hash() {
                    return Err("the detour did not become the main chain".into());
                }
            }
            if let Err(e) = node.process(b) {
                // a valid context block refused after the detour is the property's business
                return Err(format!("VIOLATION-CONTEXT context block {} refused: {e}", b.number()));
            }
        }
        if node.tip().hash() != c.chain.last().unwrap().hash() {
            return Err("VIOLATION-CONTEXT the context chain did not become the main chain".into());
        }
        Ok(node)
    };
    set_time(time_for_height(NOW_HEIGHT));
    let direct = boot("direct")?;
    let side = boot("side")?;
    let tip = c.chain.last().unwrap().clone();
    for cand in &c.cands {
        if let Some(w) = which {
            if w != cand.name {
                continue;
            }
        }
        set_time(time_for_height(NOW_HEIGHT));
        let label = json!({"context": c.name, "candidate": cand.name});
        // ---- direct: on the context tip
        let verdict = submit(&direct, cons, &cand.block);
        report.evaluations += 1;
        report.transitions += 1;
        if std::env::var("C03_DEBUG").is_ok() {
            println!("{} / {} (valid={}) -> {:?}", c.name, cand.name, cand.valid, verdict);
        }
        let new_tip = direct.tip().hash();
        match (&verdict, cand.valid) {
            (Ok(true), true) => {
                if std::env::var("C03_DEBUG").is_ok() {
                    println!("   ext: {:?}", direct.shared.store().get_block_ext(&cand.block.hash()).map(|e| e.txs_fees));
                }
                if new_tip != cand.block.hash() {
                    report.violation(format!("valid-not-attached/{}", cand.name), format!("{}: accepted but the tip is not the candidate", c.name), label.clone());
                }
                let mut main = c.chain.clone();
                main.push(cand.block.clone());
                for (k, m) in state_problems(&direct, cons, &main) {
                    report.violation(format!("state-after-valid/{k}"), format!("{} / {}: {m}", c.name, cand.name), label.clone());
                }
                report.nontrivial.insert(fp(&(c.name, &cand.name)));
                direct.chain().truncate(tip.hash()).map_err(|e| format!("truncate: {e}"))?;
            }
            (Ok(v), true) => report.violation(format!("valid-refused/{}", cand.name), format!("{}: a block on the boundary of the rule (valid) was answered Ok({v})", c.name), label.clone()),
            (Err(e), true) => report.violation(format!("valid-refused/{}", cand.name), format!("{}: a valid block on the boundary of the rule is refused: {e}", c.name), label.clone()),
            (Ok(v), false) => {
                report.violation(format!("invalid-accepted/{}", cand.name), format!("{}: a block breaking exactly this rule was answered Ok({v}); tip is now {}", c.name, direct.tip().number()), label.clone());
                if new_tip != tip.hash() {
                    direct.chain().truncate(tip.hash()).map_err(|e| format!("truncate: {e}"))?;
                }
            }
            (Err(_), false) => {
                if new_tip != tip.hash() {
                    report.violation(format!("refused-but-tip-moved/{}", cand.name), format!("{}: tip moved", c.name), label.clone());
                }
                for (k, m) in state_problems(&direct, cons, &c.chain) {
                    report.violation(format!("state-after-refusal/{k}"), format!("{} / {}: {m}", c.name, cand.name), label.clone());
                }
                report.nontrivial.insert(fp(&(c.name, &cand.name)));
            }
        }
        report.outcomes.insert(fp(&(verdict.is_ok(), verdict.as_ref().err().map(|e| e.split(|c: char| !c.is_ascii_alphanumeric()).filter(|t| t.chars().next().map(|c| c.is_ascii_uppercase()).unwrap_or(false)).take(2).collect::<Vec<_>>().join("-")))));
        // ---- side: the main chain is one ahead; the candidate arrives as a side block, then a child
        // tries to make its branch canonical
        if !cand.valid {
            side.process(&c.good).map_err(|e| format!("good block: {e}"))?;
            let first = submit(&side, cons, &cand.block);
            report.transitions += 1;
            let child = c.good_child.as_advanced_builder().parent_hash(cand.block.hash()).build();
            let grandchild = c.good_child.as_advanced_builder().parent_hash(child.hash()).number(child.number() + 1).build();
            let mut verdicts = vec![format!("{:?}", first.as_ref().map_err(|e| e.chars().take(60).collect::<String>()))];
            if first.is_ok() {
                for d in [&child, &grandchild] {
                    let v = side.process(d);
                    report.transitions += 1;
                    verdicts.push(format!("{:?}", v.as_ref().map_err(|e| e.to_string().chars().take(60).collect::<String>())));
                    if side.tip().hash() != c.good.hash() {
                        report.violation(format!("invalid-branch-canonical/{}", cand.name), format!("{}: after the descendants of the invalid block arrived the tip is block {} {} (verdicts {:?})", c.name, side.tip().number(), side.tip().hash(), verdicts), label.clone());
                        break;
                    }
                }
                // the block that triggered the attempt (the child: it makes the branch heavier) is reported failed
                if verdicts.len() > 1 && verdicts[1].starts_with("Ok") {
                    report.violation(format!("trigger-not-reported-failed/{}", cand.name), format!("{}: the child that would make the invalid branch canonical was answered {}", c.name, verdicts[1]), label.clone());
                }
            }
            let mut main = c.chain.clone();
            main.push(c.good.clone());
            if side.tip().hash() == c.good.hash() {
                for (k, m) in state_problems(&side, cons, &main) {
                    report.violation(format!("state-after-refused-branch/{k}"), format!("{} / {}: {m}", c.name, cand.name), label.clone());
                }
            }
            report.evaluations += 1;
            side.chain().truncate(tip.hash()).map_err(|e| format!("truncate: {e}"))?;
            // `good` was deleted by the truncation; it is delivered again for the next candidate, which
            // the chain accepts as a new block
            report.states.insert(fp(&(c.name, &cand.name, "side")));
        }
        report.states.insert(fp(&(c.name, &cand.name)));
        report.traces += 1;
    }
    direct.shutdown();
    side.shutdown();
    Ok(())
}

pub fn meta(_tier: Tier) -> Meta {
    Meta {
        id: "C03",
        level: "exploration",
        rule: "contexts (flat world, 4-block epochs, window 2..4, two uncles max); the first context and its detour variant are built with 0..3 leading empty blocks so that the candidate stands at every position of an epoch (heights 6..9; at 8 it opens an epoch and no sibling block is an uncle of its epoch - uncle validity labels follow the rule: the sibling k below the candidate is an uncle candidate iff the candidate's epoch index is at least k): tip 5 with proposals at every distance 1..5 from the candidate height and sibling / fork blocks at heights 3..6; tip 7 where the candidate opens an epoch; tip 6 that already includes an uncle; tip 5 reached through a detour (p1..p3, a four-block competing branch overtakes, p4 and p5 overtake again, so verified blocks are re-attached before the candidate is judged). Catalogue per context: valid candidates on the boundary of each rule (timestamp median+1 and now+15s, commit at the closest and farthest window edge, two uncles, an uncle whose fork parent is embedded before it, proposals exactly at the limit, 96-byte extension, epoch head, sibling / child of an included uncle) and single-rule violations (number, epoch index / length / number / malformed, target, unknown parent, timestamp = median and now+15s+1ms; cellbase missing / second / twice / wrong input / bad witness; reward +1 / -1 / other lock / split / absent; DAO bit; transactions root, proposals hash, extra hash; extension missing / empty / 31 bytes / wrong root / 97 bytes; proposals over the limit / duplicate; uncles: three, previous epoch, twice, a main-chain block, same height, fork parent not embedded or embedded after, other target, bad proposals hash, included before, of the closing epoch; commit: proposed in the gap, expired, never, in the same block, double spend, duplicate). Every candidate is submitted through HeaderVerifier + parent check + chain service (the submit_block pipeline): valid => Ok(true), tip = candidate, store = replay of the new chain; invalid => error, tip unchanged, store = replay of the old chain. Every invalid candidate is also delivered as a side block under a main chain that is one block ahead, followed by a child and a grandchild: the tip must never leave the main chain, the child that would make the branch canonical is reported failed, the store equals the replay of the main chain.",
        assumptions: &["proof of work is the dummy engine in this world (Eaglesong acceptance is C07's subject)", "block size and cycle limits are exercised in C13's worlds, not here", "contexts are designed, not random histories"],
        bounds: json!({"contexts": 10, "candidate_heights_of_the_full_catalogue": [6, 7, 8, 9]}),
    }
}

/// Epoch rules where consecutive epochs differ: the dynamic-difficulty world (epochs of 4, 8, 16
/// blocks, each with its own target).  Candidates: the head of epoch 1, the head of epoch 2 and a
/// block inside epoch 1, each valid and with the previous epoch's length / the previous epoch's
/// target / a doubled length instead.
fn build_dyn_contexts(ctx: &Ctx, cons: &Consensus) -> Result<Vec<Context>, String> {
    set_time(time_for_height(NOW_HEIGHT));
    let mut forge = Forge::new(&ctx.scratch.join("c03-forge-dyn"), cons)?;
    let mut p: Vec<BlockView> = vec![];
    let mut parent = cons.genesis_hash();
    for _ in 1..=13u64 {
        let b = forge.build_on(&parent, &BlockSpec { miner: 1, ..Default::default() })?;
        parent = b.hash();
        p.push(b);
    }
    forge.goto(&parent)?;
    let mut out = vec![];
    for (name, tip_n, want) in [("dyn-tip3-epoch-head", 3usize, (1u64, 0u64, 8u64)), ("dyn-tip11-epoch-head", 11, (2, 0, 16)), ("dyn-tip5-inside-epoch", 5, (1, 2, 8))] {
        let tip = p[tip_n - 1].clone();
        let good = p[tip_n].clone();
        if good.epoch() != EpochNumberWithFraction::new(want.0, want.1, want.2) {
            return Err(format!("{name}: block {} is at {}, expected {want:?}", good.number(), good.epoch()));
        }
        let mut cands: Vec<Cand> = vec![];
        let mut add = |n: &str, block: BlockView, valid: bool| cands.push(Cand { name: format!("{name}/{n}"), block, valid });
        add("valid", good.clone(), true);
        let prev_len = tip.epoch().length();
        if prev_len != want.2 {
            add("previous-epoch-length", good.as_advanced_builder().epoch(EpochNumberWithFraction::new_unchecked(want.0, want.1, prev_len)).build(), false);
        } else {
            add("half-length", good.as_advanced_builder().epoch(EpochNumberWithFraction::new_unchecked(want.0, want.1, want.2 / 2)).build(), false);
        }
        add("doubled-length", good.as_advanced_builder().epoch(EpochNumberWithFraction::new(want.0, want.1, want.2 * 2)).build(), false);
        if tip.compact_target() != good.compact_target() {
            add("previous-epoch-target", good.as_advanced_builder().compact_target(tip.compact_target()).build(), false);
        } else {
            // inside an epoch the target stays: the genesis epoch's target is the wrong one here
            add("genesis-epoch-target", good.as_advanced_builder().compact_target(cons.genesis_block().compact_target()).build(), false);
        }
        add("target+1", good.as_advanced_builder().compact_target(good.compact_target() + 1).build(), false);
        out.push(Context { name, chain: p[..tip_n].to_vec(), cands, good: good.clone(), good_child: p[tip_n + 1].clone(), detour: vec![], detour_after: 0, assume_valid: false });
    }
    Ok(out)
}

pub fn run(ctx: &Ctx) -> Report {
    let mut report = Report::new();
    let cons = consensus(&WorldOpts::default());
    let which: Option<(String, String)> = ctx.replay.as_ref().map(|p| {
        let v: Value = load_replay_case(p);
        (v["context"].as_str().unwrap_or("").to_string(), v["candidate"].as_str().unwrap_or("").to_string())
    });
    if which.is_some() {
        report.outcomes.insert(0);
        report.outcomes.insert(1);
    }
    let mut contexts = vec![];
    for shift in 0..4usize {
        match build_contexts(ctx, &cons, shift) {
            Ok(c) => contexts.extend(c),
            Err(e) => {
                report.machinery_errors.push(format!("contexts with {shift} leading blocks: {e}"));
                return report;
            }
        }
    }
    let total: usize = contexts.iter().map(|c| c.cands.len()).sum();
    report.count("candidates", total as u64);
    report.count("valid_candidates", contexts.iter().map(|c| c.cands.iter().filter(|x| x.valid).count()).sum::<usize>() as u64);
    let names: HashMap<&str, usize> = contexts.iter().map(|c| (c.name, c.cands.len())).collect();
    report.sample(json!({"contexts": names}));
    for c in &contexts {
        let w = match &which {
            Some((cn, cand)) if cn == c.name => Some(cand.as_str()),
            Some(_) => continue,
            None => None,
        };
        if let Err(e) = run_context(ctx, &cons, c, w, &mut report) {
            if let Some(msg) = e.strip_prefix("VIOLATION-CONTEXT ") {
                report.violation(format!("valid-refused/context/{}", c.name), format!("{}: while reaching the context through its history: {msg}", c.name), json!({"context": c.name, "candidate": ""}));
            } else {
                report.machinery_errors.push(format!("{}: {e}", c.name));
            }
        }
    }
    // the dynamic-difficulty world
    {
        let mut w = WorldOpts::default();
        w.permanent_difficulty = false;
        w.genesis_compact_target = ckb_types::utilities::difficulty_to_compact(ckb_types::U256::from(1u64 << 24));
        let dcons = consensus(&w);
        match build_dyn_contexts(ctx, &dcons) {
            Err(e) => report.machinery_errors.push(format!("dynamic-world contexts: {e}")),
            Ok(cs) => {
                report.count("candidates", cs.iter().map(|c| c.cands.len()).sum::<usize>() as u64);
                for c in &cs {
                    let w = match &which {
                        Some((cn, cand)) if cn == c.name => Some(cand.as_str()),
                        Some(_) => continue,
                        None => None,
                    };
                    if let Err(e) = run_context(ctx, &dcons, c, w, &mut report) {
                        if let Some(msg) = e.strip_prefix("VIOLATION-CONTEXT ") {
                            report.violation(format!("valid-refused/context/{}", c.name), format!("{}: while reaching the context through its history: {msg}", c.name), json!({"context": c.name, "candidate": ""}))
                        } else {
                            report.machinery_errors.push(format!("{}: {e}", c.name));
                        }
                    }
                }
            }
        }
    }
    report
}
