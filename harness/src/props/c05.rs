//! C05 — script verdict and cycle count do not depend on how execution is chunked.
//!
//! For each (program, VM version) from script/testdata, with T = un-chunked cost:
//!  (a) EVERY first split s in [1, T) (all of them for T <= cap, else dense head/tail + stride):
//!      resumable_verify(s) -> complete(inf) and -> resume_from_state(inf);
//!  (b) uniform step sizes: the whole run in chunks of `step` through resume_from_state;
//!  (c) two splits on a grid;
//!  (d) budgets: verify(b) / resumable_verify(b)+complete(b) for every b in [T-300, T+300].
//! Oracle: the un-chunked `verify(u64::MAX)` of the same resolved transaction.
use crate::core::*;
use ckb_chain_spec::consensus::{Consensus, ConsensusBuilder};
use ckb_script::{TransactionScriptsVerifier, TxVerifyEnv, VerifyResult};
use ckb_traits::{CellDataProvider, ExtensionProvider, HeaderProvider};
use ckb_types::{
    bytes::Bytes,
    core::{
        Capacity, EpochNumberWithFraction, HeaderBuilder, HeaderView, ScriptHashType, TransactionBuilder,
        cell::{CellMeta, CellMetaBuilder, ResolvedTransaction},
        hardfork::HardForks,
    },
    packed::{self, Byte32, CellInput, CellOutput, OutPoint, Script},
    prelude::*,
};
use rayon::prelude::*;
use serde::{Deserialize, Serialize};
use serde_json::json;
use std::sync::Arc;

#[derive(Clone, Default)]
struct NoData;
impl CellDataProvider for NoData {
    fn get_cell_data(&self, _out_point: &OutPoint) -> Option<Bytes> {
        None
    }
    fn get_cell_data_hash(&self, _out_point: &OutPoint) -> Option<Byte32> {
        None
    }
}
impl HeaderProvider for NoData {
    fn get_header(&self, _hash: &Byte32) -> Option<HeaderView> {
        None
    }
}
impl ExtensionProvider for NoData {
    fn get_block_extension(&self, _hash: &Byte32) -> Option<packed::Bytes> {
        None
    }
}

#[derive(Clone, Debug, Serialize, Deserialize, PartialEq, Eq, Hash)]
pub struct Program {
    /// files under /repo/script/testdata: the first is the lock script, the rest extra cell deps
    pub files: Vec<String>,
    pub args: Vec<u8>,
    pub version: u8,
    /// witness placed at index 0 (exec-from-witness programs read it)
    pub witness_file: Option<String>,
    /// bytes of padding in front of the witness file (programs loaded from a non-zero offset of
    /// their data piece)
    #[serde(default)]
    pub witness_pad: u64,
}

fn load(name: &str) -> Bytes {
    // the repository's test programs; a few more (sources next to them) live in the harness
    let own = format!("/verif/harness/testdata/{name}");
    let path = if std::path::Path::new(&own).is_file() { own } else { format!("/repo/script/testdata/{name}") };
    Bytes::from(std::fs::read(&path).unwrap_or_else(|e| panic!("{path}: {e}")))
}

fn cell_from(data: Bytes, index: u32) -> (CellMeta, Byte32) {
    let output = CellOutput::new_builder().capacity(Capacity::bytes(data.len()).unwrap()).build();
    let meta = CellMetaBuilder::from_cell_output(output, data).out_point(OutPoint::new(Byte32::from_slice(&[0x11; 32]).unwrap(), index)).build();
    let hash = meta.mem_cell_data_hash.as_ref().unwrap().to_owned();
    (meta, hash)
}

fn build_rtx(p: &Program) -> Arc<ResolvedTransaction> {
    let hash_type = match p.version {
        0 => ScriptHashType::Data,
        1 => ScriptHashType::Data1,
        _ => ScriptHashType::Data2,
    };
    let mut deps = vec![];
    let mut lock_hash = None;
    for (i, f) in p.files.iter().enumerate() {
        let (cell, h) = cell_from(load(f), i as u32);
        if i == 0 {
            lock_hash = Some(h);
        }
        deps.push(cell);
    }
    let script = Script::new_builder().hash_type(hash_type).code_hash(lock_hash.unwrap()).args(Bytes::from(p.args.clone())).build();
    let output = CellOutput::new_builder().capacity(Capacity::bytes(100).unwrap()).lock(script).build();
    let input_cell = CellMetaBuilder::from_cell_output(output, Bytes::new()).out_point(OutPoint::new(Byte32::from_slice(&[0x22; 32]).unwrap(), 0)).build();
    let mut tb = TransactionBuilder::default().input(CellInput::new(OutPoint::new(Byte32::from_slice(&[0x22; 32]).unwrap(), 0), 0));
    for d in &deps {
        tb = tb.cell_dep(packed::CellDep::new_builder().out_point(d.out_point.clone()).build());
    }
    if let Some(w) = &p.witness_file {
        let mut data = vec![0xffu8; p.witness_pad as usize];
        data.extend_from_slice(&load(w));
        tb = tb.witness(Bytes::from(data));
    }
    Arc::new(ResolvedTransaction { transaction: tb.build(), resolved_cell_deps: deps, resolved_inputs: vec![input_cell], resolved_dep_groups: vec![] })
}

fn consensus() -> Arc<Consensus> {
    let genesis = crate::world::genesis_block();
    let e = ckb_chain_spec::consensus::build_genesis_epoch_ext(Capacity::shannons(1_000_000_000), genesis.compact_target(), 1000, 14400, (1, 40));
    Arc::new(ConsensusBuilder::new(genesis, e).hardfork_switch(HardForks::new_dev()).build())
}

fn env() -> Arc<TxVerifyEnv> {
    let header = HeaderBuilder::default().number(100u64).epoch(EpochNumberWithFraction::new(10, 0, 10)).build();
    Arc::new(TxVerifyEnv::new_commit(&header))
}

/// The production verifier with the production syscalls plus the test-only DEBUG_PAUSE syscall
/// (number 2178, answered "done" without pausing here): several testdata programs call it and
/// would otherwise stop with InvalidEcall.
fn verifier(rtx: &Arc<ResolvedTransaction>, cons: &Arc<Consensus>) -> TransactionScriptsVerifier<NoData, PauseCtx> {
    pause_verifier(rtx, cons, true)
}

/// outcome class: Ok(cycles) or the error text without cycle numbers
#[derive(Clone, Debug, PartialEq, Eq, Hash)]
enum Out {
    Ok(u64),
    Err(String),
}

fn classify(r: Result<u64, ckb_error::Error>) -> Out {
    match r {
        Ok(c) => Out::Ok(c),
        Err(e) => {
            let s = e.to_string();
            // keep the kind, drop numbers that legitimately depend on the budget
            let kind: String = s.chars().filter(|c| !c.is_ascii_digit()).collect();
            Out::Err(kind)
        }
    }
}

/// what kind of disagreement: the known-findings file distinguishes them
fn symptom(chunked: &Out, base: &Out) -> &'static str {
    match (chunked, base) {
        (Out::Err(e), Out::Ok(_)) if e.contains("deadlock") => "deadlock-after-resume",
        (Out::Ok(_), Out::Ok(_)) => "cycles-differ",
        (Out::Err(_), Out::Ok(_)) => "fails-when-chunked",
        (Out::Ok(_), Out::Err(_)) => "succeeds-when-chunked",
        _ => "different-error",
    }
}

fn is_exceeded(o: &Out) -> bool {
    matches!(o, Out::Err(s) if s.contains("ExceededMaximumCycles"))
}

fn programs() -> Vec<Program> {
    let p = |files: &[&str], args: &[u8], version: u8| Program { files: files.iter().map(|s| s.to_string()).collect(), args: args.to_vec(), version, witness_file: None, witness_pad: 0 };
    let mut v = vec![];
    for ver in 0..=2u8 {
        v.push(p(&["always_success"], &[], ver));
        v.push(p(&["always_failure"], &[], ver));
    }
    for ver in 1..=2u8 {
        v.push(p(&["current_cycles"], &[], ver));
        v.push(p(&["exec_caller_from_cell_data", "exec_callee"], &[], ver));
        let mut w = p(&["exec_caller_from_witness"], &[], ver);
        w.witness_file = Some("exec_callee".into());
        v.push(w);
        v.push(p(&["infinite_exec"], &[], ver));
    }
    for case in 1..=19u8 {
        v.push(p(&["spawn_cases"], &[case], 2));
    }
    // harness/testdata: the root spawns a child and exits on its next turn, the child spawns four
    // grandchildren (more VMs than stay resident): the root is swapped out while runnable and swapped
    // back in - at the scheduler's swap charge - in the iteration in which it exits
    v.push(p(&["spawn_grandchildren_swap_root"], &[], 2));
    v.push(p(&["spawn_caller_strcat", "spawn_callee_strcat"], &[], 2));
    v.push(p(&["spawn_caller_current_cycles", "spawn_callee_current_cycles"], &[], 2));
    v.push(p(&["spawn_caller_exec", "spawn_callee_exec_caller", "spawn_callee_exec_callee"], &[], 2));
    v.push(p(&["spawn_caller_out_of_cycles", "spawn_callee_out_of_cycles"], &[], 2));
    v.push(p(&["load_is_even_with_snapshot", "is_even.lib"], &[], 1));
    // programs loaded from a slice of a witness that starts at offset 0 / 10 / 4096 (exec and spawn):
    // a resumed VM re-reads its clean code pages from the data piece, at the recorded offset
    for pad in [0u64, 10, 4096] {
        // exec_configurable_callee.c: flag 0, recursion 1, number 2, expected 1; then exec from
        // index 0, source input, place witness, bounds = offset << 32 | 0 (to the end)
        let mut args: Vec<u8> = vec![0u8];
        for e in [1u64, 2, 1, 0, 1, 1, pad << 32] {
            args.extend(e.to_le_bytes());
        }
        args.extend_from_slice(cell_from(load("mul2.lib"), 0).1.as_slice());
        let mut e = p(&["exec_configurable_caller", "exec_configurable_callee", "mul2.lib"], &args, 2);
        e.witness_file = Some("exec_configurable_callee".into());
        e.witness_pad = pad;
        v.push(e);
        let mut args: Vec<u8> = vec![];
        for e in [0u64, 1, 1, pad << 32] {
            args.extend(e.to_le_bytes());
        }
        let mut sp = p(&["spawn_configurable_caller", "spawn_configurable_callee"], &args, 2);
        sp.witness_file = Some("spawn_configurable_callee".into());
        sp.witness_pad = pad;
        v.push(sp);
    }
    v
}

const HORIZON: u64 = 20_000_000;

/// cycles of VM work this check may spend per program and family
fn work(tier: Tier) -> u64 {
    // measured: one run of a testdata program costs 1-5 ms almost independently of its cycle
    // count (set-up dominates), so the budget is counted in runs
    if tier.is_thorough() { 130_000 } else { 6_500 }
}

fn run_program(ctx: &Ctx, p: &Program, cons: &Arc<Consensus>) -> Report {
    let mut r = Report::new();
    let rtx = build_rtx(p);
    let label = |what: &str, x: serde_json::Value| json!({"program": p, "what": what, "param": x});
    let t_probe = std::time::Instant::now();
    // a cheap first look: programs that exceed 2M cycles are re-run with the full horizon only
    // if they are not the known exec/spawn loops (which cost seconds per million cycles)
    let first = classify(verifier(&rtx, cons).verify(2_500_000));
    let looping = p.files[0].contains("infinite") || p.files[0].contains("out_of_cycles");
    let base = if is_exceeded(&first) && !looping { classify(verifier(&rtx, cons).verify(HORIZON)) } else { first };
    let probe_ms = t_probe.elapsed().as_millis();
    r.evaluations += 1;
    let t = match &base {
        Out::Ok(c) => *c,
        Out::Err(_) => 0,
    };
    r.count(if t > 0 { "programs_succeeding" } else { "programs_failing" }, 1);
    if is_exceeded(&base) {
        // never terminates within the horizon: only the "never succeeds" half applies
        for step in [1_000u64, 50_000, 400_000] {
            let v = verifier(&rtx, cons);
            let mut res = v.resumable_verify(step);
            let mut guard = 0;
            loop {
                match res {
                    Ok(VerifyResult::Completed(c)) => {
                        r.violation("nonterminating-program-succeeded", format!("a program that exceeds its un-chunked horizon ({HORIZON} / 2.5M cycles) completed with {c} cycles in chunks of {step}"), label("steps", json!(step)));
                        break;
                    }
                    Ok(VerifyResult::Suspended(state)) => {
                        guard += 1;
                        if guard > 6 {
                            break;
                        }
                        res = v.resume_from_state(&state, step);
                    }
                    Err(_) => break,
                }
            }
            r.evaluations += 1;
        }
        r.outcomes.insert(fp(&"nonterminating"));
        return r;
    }
    let w = work(ctx.tier);
    // cost of a failing program: the budget at which the failure (not the limit) is reported
    let cost = if t > 0 { t } else { 3_000_000 };
    if let Ok(scan) = std::env::var("C05_SCAN") {
        // diagnostic: which first-split points change the verdict
        let stride: u64 = scan.parse().unwrap_or(1000);
        let mut bad = vec![];
        let mut x = 1;
        while x < t {
            let v = verifier(&rtx, cons);
            if let Ok(VerifyResult::Suspended(st)) = v.resumable_verify(x) {
                let a = classify(v.complete(&st, HORIZON));
                if a != base {
                    bad.push(x);
                }
            }
            x += stride;
        }
        println!("scan {:?} {:?} T={} bad splits (stride {}): {:?}", p.files, p.args, t, stride, bad);
        return r;
    }
    if std::env::var("C05_PROBE").is_ok() {
        println!("probe {:?} args={:?} v{} {}ms -> {:.300}", p.files, p.args, p.version, probe_ms, format!("{base:?}"));
        return r;
    }

    // ---- (a) every first split (all of them when affordable: each costs about 2T)
    let mut splits: Vec<u64> = vec![];
    if t > 0 {
        let n = w.clamp(24, t.max(25) - 1);
        if n >= t - 1 {
            splits.extend(1..t);
        } else {
            let third = n / 3;
            splits.extend(1..=third);
            splits.extend((t - third)..t);
            let stride = ((t - 2 * third) / third.max(1)).max(1) | 1;
            let mut x = third + 1;
            while x < t - third {
                splits.push(x);
                x += stride;
            }
        }
        r.count(if n >= t - 1 { "programs_with_all_split_points" } else { "programs_with_sampled_split_points" }, 1);
    } else {
        splits.extend([1u64, 100, 537, 1_000, 5_000, 20_000, 100_000, 1_000_000]);
    }
    let split_reports: Vec<Report> = splits.par_iter().map(|s| {
        let mut r = Report::new();
        r.evaluations += 1;
        r.transitions += 2;
        let v = verifier(&rtx, cons);
        match v.resumable_verify(*s) {
            Ok(VerifyResult::Completed(c)) => {
                let o = Out::Ok(c);
                if o != base {
                    r.violation("split/completed-differs", format!("resumable_verify({s}) completed with {o:?}, un-chunked {base:?}"), label("first-split", json!(s)));
                }
                r.outcomes.insert(fp(&("completed-early", c == t)));
            }
            Ok(VerifyResult::Suspended(state)) => {
                if t > 0 {
                    r.nontrivial.insert(fp(&(p, s)));
                }
                let a = classify(v.complete(&state, HORIZON));
                if a != base {
                    r.violation(format!("split-complete/{}", symptom(&a, &base)), format!("resumable_verify({s}) + complete = {a:?}, un-chunked {base:?}"), label("first-split", json!(s)));
                }
                let b = match v.resume_from_state(&state, HORIZON) {
                    Ok(VerifyResult::Completed(c)) => Out::Ok(c),
                    Ok(VerifyResult::Suspended(_)) => Out::Err("still suspended with an unlimited chunk".into()),
                    Err(e) => classify(Err(e)),
                };
                if b != base {
                    r.violation(format!("split-resume/{}", symptom(&b, &base)), format!("resumable_verify({s}) + resume_from_state = {b:?}, un-chunked {base:?}"), label("first-split", json!(s)));
                }
                r.outcomes.insert(fp(&("suspended", a == base)));
            }
            Err(e) => {
                let o = classify(Err(e));
                if o != base {
                    r.violation("split/error-differs", format!("resumable_verify({s}) failed with {o:?}, un-chunked {base:?}"), label("first-split", json!(s)));
                }
            }
        }
        r
    }).collect();
    for sr in split_reports {
        r.merge(sr);
    }

    // ---- (b) uniform steps (bounded number of chunks per run)
    let mut steps: Vec<u64> = vec![];
    let max_chunks: u64 = if ctx.tier.is_thorough() { 4_000 } else { 600 };
    let mut x = (cost / max_chunks).max(1);
    while x < cost * 2 {
        steps.push(x);
        x = if ctx.tier.is_thorough() { x * 5 / 4 + 1 } else { x * 3 / 2 + 1 };
    }
    if cost <= 6_000 {
        steps.extend((1..cost.min(6_000)).step_by(if ctx.tier.is_thorough() { 1 } else { 3 }));
    }
    for step in steps {
        r.evaluations += 1;
        let v = verifier(&rtx, cons);
        let mut res = v.resumable_verify(step);
        let mut chunks = 0u64;
        let mut last_progress = None;
        let mut stalled = 0;
        let fin = loop {
            match res {
                Ok(VerifyResult::Completed(c)) => break Out::Ok(c),
                Ok(VerifyResult::Suspended(state)) => {
                    chunks += 1;
                    // a chunk that consumed nothing will never make progress
                    let consumed = (state.current, state.state.as_ref().map(|x| x.total_cycles));
                    if last_progress == Some(consumed) {
                        stalled += 1;
                        if stalled > 3 {
                            break Out::Err("no progress".into());
                        }
                    } else {
                        stalled = 0;
                    }
                    last_progress = Some(consumed);
                    if chunks > 2 * cost / step.max(1) + 10_000 {
                        break Out::Err("no progress".into());
                    }
                    res = v.resume_from_state(&state, step);
                }
                Err(e) => break classify(Err(e)),
            }
        };
        r.transitions += chunks + 1;
        if fin != base {
            // a chunk too small to make any progress is refused with the cycle-limit error: legal
            // ("a run whose budget is smaller ... reports the cycle limit"); anything else is not
            if !(is_exceeded(&fin) || matches!(&fin, Out::Err(s) if s == "no progress")) || step >= cost {
                r.violation(format!("steps/{}", symptom(&fin, &base)), format!("chunks of {step}: {fin:?}, un-chunked {base:?} ({chunks} chunks)"), label("uniform-steps", json!(step)));
            } else {
                r.count("step_sizes_too_small_to_progress", 1);
            }
        } else if chunks > 1 {
            r.nontrivial.insert(fp(&(p, "steps", step)));
        }
        r.outcomes.insert(fp(&("steps", fin == base, chunks.min(3))));
    }

    // ---- (c) two splits
    if t > 0 {
        let g: u64 = if ctx.tier.is_thorough() { 64 } else { 16 };
        let grid: Vec<u64> = (1..=g).map(|k| (t * k / (g + 1)).max(1)).collect();
        for s1 in &grid {
            for s2 in &grid {
                r.evaluations += 1;
                let v = verifier(&rtx, cons);
                let fin = match v.resumable_verify(*s1) {
                    Ok(VerifyResult::Completed(c)) => Out::Ok(c),
                    Err(e) => classify(Err(e)),
                    Ok(VerifyResult::Suspended(st1)) => match v.resume_from_state(&st1, *s2) {
                        Ok(VerifyResult::Completed(c)) => Out::Ok(c),
                        Err(e) => classify(Err(e)),
                        Ok(VerifyResult::Suspended(st2)) => classify(v.complete(&st2, HORIZON)),
                    },
                };
                if fin != base && !is_exceeded(&fin) {
                    r.violation(format!("two-splits/{}", symptom(&fin, &base)), format!("splits ({s1},{s2}): {fin:?}, un-chunked {base:?}"), label("two-splits", json!([s1, s2])));
                }
            }
        }
    }

    // ---- (d) budgets around the exact cost
    if t > 0 {
        let delta: u64 = if ctx.tier.is_thorough() { 600 } else { 150 };
        for b in t.saturating_sub(delta)..=t + delta {
            r.evaluations += 1;
            let v = verifier(&rtx, cons);
            let o = classify(v.verify(b));
            let want_ok = b >= t;
            if want_ok && o != base {
                r.violation("budget/enough-but-differs", format!("verify({b}) = {o:?} although the cost is {t}"), label("budget", json!(b)));
            }
            if !want_ok && !is_exceeded(&o) {
                r.violation("budget/too-small-not-limit-error", format!("verify({b}) = {o:?} although the cost is {t}"), label("budget", json!(b)));
            }
            // resumable + complete under the same total budget
            let o2 = match v.resumable_verify(b / 2 + 1) {
                Ok(VerifyResult::Completed(c)) => Out::Ok(c),
                Err(e) => classify(Err(e)),
                Ok(VerifyResult::Suspended(st)) => classify(v.complete(&st, b)),
            };
            if want_ok && o2 != base && b / 2 + 1 < t {
                r.violation("budget/complete-enough-but-differs", format!("resumable_verify({}) + complete({b}) = {o2:?} although the cost is {t}", b / 2 + 1), label("budget-complete", json!(b)));
            }
            if !want_ok && matches!(o2, Out::Ok(_)) {
                r.violation("budget/complete-succeeds-below-cost", format!("complete({b}) succeeded although the cost is {t}"), label("budget-complete", json!(b)));
            }
            r.outcomes.insert(fp(&("budget", want_ok)));
        }
    }
    r.states.insert(fp(p));
    r.count(&format!("max_wall_ms {} {:?} v{}", p.files[0], p.args, p.version), t_probe.elapsed().as_millis() as u64);
    r.traces += 1;
    r.sample(json!({"program": p, "unchunked": format!("{base:?}"), "first_splits": splits.len()}));
    r
}

// ---- (e) pause / resume signals --------------------------------------------------------------
//
// `resumable_verify_with_signal` pauses wherever the VM notices the pause flag, which depends on
// thread timing; the deterministic pause points are the DEBUG_PAUSE syscalls of the testdata
// programs written for this purpose (the repository's own tests install the same syscall).  The
// driver keeps sending Resume, so every in-script pause is followed by a resume.

#[derive(Clone)]
struct PauseCtx {
    printer: ckb_script::types::DebugPrinter,
    skip: Arc<std::sync::atomic::AtomicBool>,
}

struct DebugPause {
    skip: Arc<std::sync::atomic::AtomicBool>,
}

impl<M: ckb_vm::SupportMachine> ckb_vm::Syscalls<M> for DebugPause {
    fn initialize(&mut self, _machine: &mut M) -> Result<(), ckb_vm::Error> {
        Ok(())
    }
    fn ecall(&mut self, machine: &mut M) -> Result<bool, ckb_vm::Error> {
        use ckb_vm::Register;
        if machine.registers()[ckb_vm::registers::A7].to_u64() != 2178 {
            return Ok(false);
        }
        if self.skip.load(std::sync::atomic::Ordering::SeqCst) {
            return Ok(true);
        }
        Err(ckb_vm::Error::Pause)
    }
}

fn pause_syscalls<DL, M>(vm_id: &ckb_script::types::VmId, sg: &ckb_script::types::SgData<DL>, vc: &ckb_script::types::VmContext<DL>, c: &PauseCtx) -> Vec<Box<dyn ckb_vm::Syscalls<M>>>
where
    DL: CellDataProvider + HeaderProvider + ExtensionProvider + Send + Sync + Clone + 'static,
    M: ckb_vm::SupportMachine,
{
    let mut v = ckb_script::generate_ckb_syscalls(vm_id, sg, vc, &c.printer);
    v.push(Box::new(DebugPause { skip: Arc::clone(&c.skip) }));
    v
}

fn pause_verifier(rtx: &Arc<ResolvedTransaction>, cons: &Arc<Consensus>, skip: bool) -> TransactionScriptsVerifier<NoData, PauseCtx> {
    let c = PauseCtx { printer: Arc::new(|_: &Byte32, _: &str| {}), skip: Arc::new(std::sync::atomic::AtomicBool::new(skip)) };
    TransactionScriptsVerifier::new_with_generator(Arc::clone(rtx), NoData, Arc::clone(cons), env(), pause_syscalls, c)
}

/// the signal path under a driver that answers every pause with Resume
fn run_signal(rtx: &Arc<ResolvedTransaction>, cons: &Arc<Consensus>, budget: u64) -> Out {
    use ckb_script::ChunkCommand;
    let v = pause_verifier(rtx, cons, false);
    let (tx, mut rx) = tokio::sync::watch::channel(ChunkCommand::Resume);
    let done = Arc::new(std::sync::atomic::AtomicBool::new(false));
    let d2 = Arc::clone(&done);
    let ticker = std::thread::spawn(move || {
        while !d2.load(std::sync::atomic::Ordering::SeqCst) {
            let _ = tx.send(ChunkCommand::Resume);
            std::thread::sleep(std::time::Duration::from_micros(50));
        }
    });
    let res = crate::node::runtime().block_on(async { tokio::time::timeout(std::time::Duration::from_secs(30), v.resumable_verify_with_signal(budget, &mut rx)).await });
    done.store(true, std::sync::atomic::Ordering::SeqCst);
    let _ = ticker.join();
    match res {
        Ok(r) => classify(r),
        Err(_) => Out::Err("signal path did not finish within s".into()),
    }
}

fn data_hash(file: &str) -> Vec<u8> {
    cell_from(load(file), 0).1.raw_data().to_vec()
}

fn pause_programs() -> Vec<Program> {
    let p = |files: &[&str], args: Vec<u8>, version: u8| Program { files: files.iter().map(|s| s.to_string()).collect(), args, version, witness_file: None, witness_pad: 0 };
    let mut v = vec![];
    for ver in 1..=2u8 {
        v.push(p(&["current_cycles_with_snapshot"], vec![], ver));
        v.push(p(&["vm_version_with_snapshot"], vec![], ver));
        v.push(p(&["exec_caller_from_cell_data", "exec_callee_pause"], vec![], ver));
        let mut a = 1u64.to_le_bytes().to_vec();
        a.extend(data_hash("is_even.lib"));
        v.push(p(&["load_is_even_with_snapshot", "is_even.lib"], a, ver));
        let mut a = 0u64.to_le_bytes().to_vec();
        a.extend(1u64.to_le_bytes());
        for lib in ["add1.lib", "mul2.lib", "add1.lib", "mul2.lib", "mul2.lib", "add1.lib", "add1.lib", "div2.lib", "sub1.lib", "div2.lib", "sub1.lib", "div2.lib"] {
            a.extend(data_hash(lib));
        }
        v.push(p(&["load_arithmetic", "add1.lib", "sub1.lib", "mul2.lib", "div2.lib"], a, ver));
    }
    v
}

fn signal_family(ctx: &Ctx, p: &Program, cons: &Arc<Consensus>, pausing: bool) -> Report {
    let mut r = Report::new();
    let rtx = build_rtx(p);
    let label = |what: &str, x: serde_json::Value| json!({"program": p, "what": what, "param": x, "family": "signal"});
    // un-paused, un-chunked reference
    let base = classify(pause_verifier(&rtx, cons, true).verify(2_500_000));
    r.evaluations += 1;
    let t = match &base {
        Out::Ok(c) => *c,
        Out::Err(_) => {
            r.count("signal_programs_not_succeeding", 1);
            return r;
        }
    };
    r.count("signal_programs", 1);
    let mut pauses = 0u64;
    if pausing {
        // captured-state path through every in-script pause
        let v = pause_verifier(&rtx, cons, false);
        let mut res = v.resumable_verify(u64::MAX);
        let fin = loop {
            match res {
                Ok(VerifyResult::Completed(c)) => break Out::Ok(c),
                Ok(VerifyResult::Suspended(st)) => {
                    pauses += 1;
                    if pauses > 10_000 {
                        break Out::Err("no progress".into());
                    }
                    res = v.resume_from_state(&st, u64::MAX);
                }
                Err(e) => break classify(Err(e)),
            }
        };
        r.evaluations += 1;
        r.transitions += pauses + 1;
        if fin != base {
            r.violation(format!("pause-chunks/{}", symptom(&fin, &base)), format!("suspending at each of the program's {pauses} pause points and resuming from the captured state gives {fin:?}, un-paused {base:?}"), label("pause-chunks", json!(null)));
        }
        r.max_counter("max_pause_points_in_a_program", pauses);
    }
    // the signal path with an unlimited budget
    let o = run_signal(&rtx, cons, u64::MAX);
    r.evaluations += 1;
    r.transitions += pauses + 1;
    if o != base {
        r.violation(format!("signal/{}", symptom(&o, &base)), format!("resumable_verify_with_signal(unlimited) with every pause resumed gives {o:?}, un-paused {base:?}"), label("signal-unlimited", json!(null)));
    } else if pauses > 0 {
        r.nontrivial.insert(fp(&(p, "signal")));
    }
    // budgets around the cost
    let delta: u64 = if pausing { if ctx.tier.is_thorough() { 400 } else { 60 } } else if ctx.tier.is_thorough() { 40 } else { 4 };
    let mut budgets: Vec<u64> = (t.saturating_sub(delta)..=t + delta).collect();
    if pausing {
        // budgets between the largest pause-free stretch and the total are where a budget that is
        // refreshed on resume would be noticed
        budgets.extend([t / 2, t * 2 / 3, t * 3 / 4, t * 9 / 10]);
    }
    for b in budgets {
        let o = run_signal(&rtx, cons, b);
        r.evaluations += 1;
        r.transitions += pauses + 1;
        let want_ok = b >= t;
        if want_ok && o != base {
            r.violation("signal-budget/enough-but-differs", format!("resumable_verify_with_signal({b}) = {o:?} although the cost is {t}"), label("signal-budget", json!(b)));
        }
        if !want_ok && matches!(o, Out::Ok(_)) {
            r.violation("signal-budget/succeeds-below-cost", format!("resumable_verify_with_signal({b}) = {o:?}: a run paused and resumed {pauses} times succeeded with a budget below its cost {t}"), label("signal-budget", json!(b)));
        } else if !want_ok && !is_exceeded(&o) {
            r.violation("signal-budget/too-small-not-limit-error", format!("resumable_verify_with_signal({b}) = {o:?} although the cost is {t}"), label("signal-budget", json!(b)));
        }
        r.outcomes.insert(fp(&("signal-budget", want_ok, pauses.min(2))));
    }
    r.states.insert(fp(&(p, "signal")));
    r
}

pub fn meta(tier: Tier) -> Meta {
    Meta {
        id: "C05",
        level: "model_checking",
        rule: "for each (program, VM version) of the table (always_success/failure x v0-2, current_cycles, exec from cell data / witness, infinite_exec, spawn_cases 1..19, spawn strcat / current_cycles / exec / out_of_cycles, load-with-snapshot) with un-chunked cost T: (a) every first split point s in [1,T) when T-1 <= the per-program run budget (counted in the evidence), else the first and last third of the budget plus an odd stride in between, each continued by complete(inf) and by resume_from_state(inf); (b) the whole run in uniform chunks for a geometric ladder of step sizes plus a dense band of tiny steps; (c) all pairs of splits on a grid; (d) every budget in [T-d, T+d], d = 150 (quick) / 600 (thorough), through verify and through resumable_verify+complete; (e) signals: for the five programs with in-script pause points (v1, v2) the captured-state path through every pause, resumable_verify_with_signal(unlimited) and every budget in [T-d, T+d] plus T/2, 2T/3, 3T/4, 9T/10, and for every succeeding program of the table the signal path for budgets in [T-4, T+4] (40 thorough). Oracle = verify(HORIZON) of the same resolved transaction (verdict + cycles). states = programs, transitions = chunk executions; non-trivial = a split/step that actually suspended a succeeding program.",
        assumptions: &["programs are the RISC-V binaries shipped in script/testdata plus one in harness/testdata (source next to it; built with clang for riscv64)", "pause signals: only the deterministic pause points (the DEBUG_PAUSE syscalls of the testdata programs written for it, installed the way the repository's tests do) are driven, each followed by Resume; pauses landing at arbitrary instructions depend on thread timing and are not enumerated", "chunks too small to execute a single step may be refused with the cycle-limit error"],
        bounds: json!({"first_split_runs_per_program": work(tier), "horizon_cycles": HORIZON}),
    }
}

pub fn run(ctx: &Ctx) -> Report {
    let mut report = Report::new();
    let cons = consensus();
    if std::env::var("VERIF_PANICS").is_err() {
        std::panic::set_hook(Box::new(|_| {}));
    }
    let progs: Vec<Program> = match &ctx.replay {
        Some(path) => {
            report.outcomes.insert(0);
            vec![serde_json::from_value(load_replay_case(path)["program"].clone()).expect("program")]
        }
        None => programs(),
    };
    let rs: Vec<Report> = progs
        .par_iter()
        .map(|p| {
            if ctx.out_of_time() {
                let mut r = Report::new();
                r.cap_hit = Some("wall budget reached before all programs ran".into());
                return r;
            }
            match std::panic::catch_unwind(std::panic::AssertUnwindSafe(|| run_program(ctx, p, &cons))) {
                Ok(r) => r,
                Err(_) => {
                    let mut r = Report::new();
                    r.violation("panic", format!("script verification panicked for {p:?}"), json!({"program": p}));
                    r
                }
            }
        })
        .collect();
    for r in rs {
        report.merge(r);
    }
    // (e) signals: the programs with in-script pause points, and every succeeding program of the table
    let replay_family = ctx.replay.as_ref().map(|p| load_replay_case(p)["family"].as_str().map(|s| s.to_string()));
    let mut sig: Vec<(Program, bool)> = vec![];
    match (&ctx.replay, replay_family) {
        (Some(_), Some(Some(f))) if f == "signal" => {
            let p = progs[0].clone();
            let pausing = pause_programs().contains(&p);
            sig.push((p, pausing));
        }
        (Some(_), _) => {}
        (None, _) => {
            sig.extend(pause_programs().into_iter().map(|p| (p, true)));
            sig.extend(programs().into_iter().filter(|p| !p.files[0].contains("infinite") && !p.files[0].contains("out_of_cycles")).map(|p| (p, false)));
        }
    }
    let rs: Vec<Report> = sig
        .par_iter()
        .map(|(p, pausing)| match std::panic::catch_unwind(std::panic::AssertUnwindSafe(|| signal_family(ctx, p, &cons, *pausing))) {
            Ok(r) => r,
            Err(_) => {
                let mut r = Report::new();
                r.violation("signal/panic", format!("script verification panicked for {p:?}"), json!({"program": p, "family": "signal"}));
                r
            }
        })
        .collect();
    for r in rs {
        report.merge(r);
    }
    let _ = std::panic::take_hook();
    report
}
