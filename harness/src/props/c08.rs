//! C08 — a crash at any point of block import recovers to a consistent, convergent state.
//!
//! For every history, a child process runs it on a fresh data directory and is killed
//! (`_exit`, no destructors) immediately before its N-th database write, for every N from 1
//! to the number of writes of the crash-free run (cfg-guarded write-point hook in ckb-db).
//! The parent then re-opens the directory with the real start-up path and checks recovery,
//! re-verification of stored-but-unverified blocks, and convergence after redelivery.
//! Depth 2: the recovery itself is run in a child that is killed at its M-th write.
use crate::chainstate::*;
use crate::core::*;
use crate::forge::*;
use crate::node::*;
use crate::props::c02::{self, BranchSpec, UniverseSpec};
use crate::universe::{Invalid, reparent};
use crate::world::*;
use ckb_chain_spec::consensus::Consensus;
use ckb_store::ChainStore;
use ckb_types::{U256, core::BlockView, packed, prelude::*};
use serde::{Deserialize, Serialize};
use serde_json::{Value, json};
use std::collections::HashMap;
use std::path::Path;
use std::process::Command;

#[derive(Clone, Debug, Serialize, Deserialize)]
pub struct CrashRunSpec {
    pub blocks_hex: Vec<String>,
    /// "seq": blocking delivery one by one; "burst": all delivered asynchronously, then quiesce
    pub mode: String,
}

fn block_to_hex(b: &BlockView) -> String {
    hex(b.data().as_slice())
}

fn block_from_hex(s: &str) -> BlockView {
    let bytes: Vec<u8> = (0..s.len()).step_by(2).map(|i| u8::from_str_radix(&s[i..i + 2], 16).unwrap()).collect();
    packed::Block::from_compatible_slice(&bytes).expect("block").into_view()
}

/// Child-process entry: `ckbmc crashrun <spec.json> <dir> <crash_at> [recover]`.
/// Exits 0 when the history completed, 86 when killed at the write point.
pub fn crashrun_main(args: &[String]) -> i32 {
    let spec: CrashRunSpec = serde_json::from_str(&std::fs::read_to_string(&args[0]).expect("spec")).expect("spec json");
    let dir = Path::new(&args[1]);
    let crash_at: u64 = args[2].parse().unwrap();
    let recover_only = args.get(3).map(|s| s == "recover").unwrap_or(false);
    ckb_db::verif::CRASH_AT.store(crash_at, std::sync::atomic::Ordering::SeqCst);
    set_time(time_for_height(20));
    let cons = consensus(&WorldOpts::default());
    let node = match Node::boot(dir, &NodeOpts::new(cons)) {
        Ok(n) => n,
        Err(e) => {
            eprintln!("crashrun: boot failed: {e}");
            return 3;
        }
    };
    if node.wait_startup().is_err() {
        return 3;
    }
    if recover_only {
        // let the start-up re-verification finish (bounded wait, the parent judges the result)
        let _ = wait_verified(&node, &spec.blocks_hex.iter().map(|h| block_from_hex(h)).collect::<Vec<_>>());
    } else {
        let blocks: Vec<BlockView> = spec.blocks_hex.iter().map(|h| block_from_hex(h)).collect();
        if spec.mode == "seq" {
            for b in &blocks {
                let _ = node.process(b);
            }
        } else {
            for b in &blocks {
                node.deliver(b);
            }
            let _ = node.quiesce();
        }
    }
    let points = ckb_db::verif::POINTS.load(std::sync::atomic::Ordering::SeqCst);
    println!("POINTS {points}");
    // leave without running destructors as well: the parent re-opens the directory
    use std::io::Write;
    let _ = std::io::stdout().flush();
    unsafe { libc_exit(0) }
}

unsafe fn libc_exit(code: i32) -> ! {
    unsafe extern "C" {
        fn _exit(code: i32) -> !;
    }
    unsafe { _exit(code) }
}

/// Raw (cache-bypassing) presence test: the store's header cache keeps headers of blocks that
/// were deleted as invalid (that is C14's business, not this property's).
fn stored_raw(store: &ckb_store::ChainDB, hash: &packed::Byte32) -> bool {
    store.get(ckb_db_schema::COLUMN_BLOCK_HEADER, hash.as_slice()).is_some()
}

/// Wait until no stored block of `blocks` lacks a verification record (ext) unless it is held
/// as an orphan.  Returns the hashes still unverified at the deadline.
fn wait_verified(node: &Node, blocks: &[BlockView]) -> Vec<packed::Byte32> {
    let t = std::time::Instant::now();
    loop {
        let _ = node.service_barrier();
        let store = node.shared.store();
        let pending: Vec<packed::Byte32> = blocks
            .iter()
            // "could be verified now and has not been": stored, no record, and the parent has a
            // record (a stored block whose parent never arrived cannot be verified by anyone)
            .filter(|b| {
                stored_raw(store, &b.hash())
                    && store.get_block_ext(&b.hash()).is_none()
                    && node.chain().get_orphan_block(store, &b.hash()).is_none()
                    && (b.number() == 1 || store.get_block_ext(&b.parent_hash()).is_some())
            })
            .map(|b| b.hash())
            .collect();
        if pending.is_empty() {
            // the record is written by the commit; wait until the verify thread has also
            // published the snapshot for it
            let _ = node.verify_barrier();
            return pending;
        }
        if t.elapsed() > std::time::Duration::from_secs(10) {
            return pending;
        }
        std::thread::sleep(std::time::Duration::from_micros(300));
    }
}

#[derive(Clone, Debug, Serialize, Deserialize)]
pub struct History {
    pub universe: UniverseSpec,
    /// delivery order as names: "P1","A0","B2", an "!" suffix = the Dao-invalid variant
    pub order: Vec<String>,
    pub mode: String,
}

struct Prepared {
    blocks: Vec<BlockView>,
    valid: Vec<bool>,
    by_hash: HashMap<packed::Byte32, (BlockView, bool)>,
}

fn prepare(built: &c02::Built, h: &History) -> Result<Prepared, String> {
    let mut blocks = vec![];
    let mut valid = vec![];
    // an invalid variant re-parents everything delivered after it on the same branch
    let mut replaced: HashMap<packed::Byte32, packed::Byte32> = HashMap::new();
    for name in &h.order {
        let bad = name.ends_with('!');
        let n = name.trim_end_matches('!');
        let idx: usize = n[1..].parse().map_err(|_| format!("bad step {name}"))?;
        let mut b = match &n[0..1] {
            "P" => built.prefix[idx].clone(),
            "A" => built.a[idx].clone(),
            "B" => built.b[idx].clone(),
            _ => return Err(format!("bad step {name}")),
        };
        let mut ok = true;
        if let Some(np) = replaced.get(&b.parent_hash()) {
            let orig = b.hash();
            b = reparent(&b, np);
            replaced.insert(orig, b.hash());
            ok = false;
        }
        if bad {
            let orig = b.hash();
            let mut dao = b.dao().raw_data().to_vec();
            dao[31] ^= 1;
            dao[0] ^= 1;
            b = b.as_advanced_builder().dao(packed::Byte32::from_slice(&dao).unwrap()).build();
            replaced.insert(orig, b.hash());
            ok = false;
            let _ = Invalid::Dao;
        }
        blocks.push(b);
        valid.push(ok);
    }
    let by_hash = blocks.iter().zip(valid.iter()).map(|(b, v)| (b.hash(), (b.clone(), *v))).collect();
    Ok(Prepared { blocks, valid, by_hash })
}

fn histories(tier: Tier) -> Vec<History> {
    let s = |v: &[&[&str]]| -> Vec<Vec<String>> { v.iter().map(|b| b.iter().map(|x| x.to_string()).collect()).collect() };
    let u1 = UniverseSpec { prefix: 2, a: BranchSpec { commits: s(&[&["T1", "T2"], &["Ta"]]), uncle_at: None }, b: BranchSpec { commits: s(&[&["T1"], &["T2x"], &["Tb"]]), uncle_at: None } };
    let u2 = UniverseSpec { prefix: 4, a: BranchSpec { commits: s(&[&["T1"], &["T2", "Ta"]]), uncle_at: None }, b: BranchSpec { commits: s(&[&[], &["T1", "T2", "Ta"], &[]]), uncle_at: Some(1) } };
    let o = |v: &[&str]| v.iter().map(|x| x.to_string()).collect::<Vec<_>>();
    let mut out = vec![
        History { universe: u1.clone(), order: o(&["P0", "P1", "A0", "A1", "B0", "B1", "B2"]), mode: "seq".into() },
        History { universe: u1.clone(), order: o(&["P0", "P1", "B0", "A0", "B1", "A1", "B2"]), mode: "seq".into() },
        History { universe: u1.clone(), order: o(&["P0", "P1", "A0", "A1", "B0", "B1", "B2"]), mode: "burst".into() },
        // orphans: children before parents
        History { universe: u1.clone(), order: o(&["P0", "P1", "A0", "B2", "B1", "A1", "B0"]), mode: "burst".into() },
        // an invalid block in the middle of the branch that would otherwise win
        History { universe: u1.clone(), order: o(&["P0", "P1", "A0", "A1", "B0", "B1!", "B2"]), mode: "seq".into() },
        History { universe: u2.clone(), order: o(&["P0", "P1", "P2", "P3", "A0", "A1", "B0", "B1", "B2"]), mode: "seq".into() },
    ];
    let _ = tier;
    {
        out.push(History { universe: u2.clone(), order: o(&["P0", "P1", "P2", "P3", "B0", "A0", "B1", "A1", "B2"]), mode: "burst".into() });
        out.push(History { universe: u2.clone(), order: o(&["P0", "P1", "P2", "P3", "A0", "A1!", "B0", "B1", "B2"]), mode: "seq".into() });
        out.push(History { universe: u1.clone(), order: o(&["P0", "P1", "B0", "B1", "B2", "A0", "A1"]), mode: "seq".into() });
        out.push(History { universe: u1, order: o(&["P1", "P0", "B2", "B1", "B0", "A1", "A0"]), mode: "burst".into() });
    }
    out
}

pub fn meta(tier: Tier) -> Meta {
    Meta {
        id: "C08",
        level: "fault_enumeration",
        rule: "case = (history of block deliveries incl. reorgs, an invalid block, out-of-order arrivals; delivery mode; N) : a child process runs the history on a fresh data directory and is killed (_exit, no destructors) right before its N-th database write, for EVERY N up to the crash-free number of writes; the parent re-opens the directory through the real start-up path and checks: opens, C02 replay consistency of store+snapshot for the recovered main chain, every stored block gets a verification record again, tip is maximal among stored fully-valid chains, and after redelivery the state equals the crash-free run. depth 2 (thorough): the recovery runs in a child killed at its M-th write. non-trivial = the crash left at least one stored block without a verification record or the recovered tip differs from the crash-free final tip (measured); distinct = (history, N[, M]).",
        assumptions: &[
            "process crash (all completed writes durable): RocksDB write atomicity is trusted",
            "write order between the service and verify threads is the one the OS produced in that child run; every such order is a legal crash state",
            "flat world, always-success scripts",
        ],
        bounds: json!({"histories": histories(tier).len(), "crash_points": "every write point of every history (boot-time writes included)", "depth2": tier.is_thorough()}),
    }
}

fn run_child(exe: &Path, spec_file: &Path, dir: &Path, crash_at: u64, recover: bool) -> Result<(i32, u64), String> {
    let mut cmd = Command::new(exe);
    cmd.arg("crashrun").arg(spec_file).arg(dir).arg(crash_at.to_string());
    if recover {
        cmd.arg("recover");
    }
    let out = cmd.output().map_err(|e| e.to_string())?;
    let code = out.status.code().unwrap_or(-1);
    let stdout = String::from_utf8_lossy(&out.stdout);
    let points = stdout.lines().find_map(|l| l.strip_prefix("POINTS ").and_then(|p| p.trim().parse().ok())).unwrap_or(0);
    if code != 0 && code != 86 {
        return Err(format!("child exited with {code}: {}", String::from_utf8_lossy(&out.stderr).lines().rev().take(8).collect::<Vec<_>>().join(" | ")));
    }
    Ok((code, points))
}

struct Final {
    tip: packed::Byte32,
    td: U256,
    dump: Dump,
}

/// Judge a recovered directory.  Returns the observation digest.
#[allow(clippy::too_many_arguments)]
fn judge(ctx: &Ctx, cons: &Consensus, built: &c02::Built, prep: &Prepared, h: &History, n: u64, m: Option<u64>, crash_free: Option<&Final>, dir: &Path, report: &mut Report) -> Result<Option<Final>, String> {
    let label = json!({"history": h, "crash_at": n, "second_crash_at": m});
    let booted = std::panic::catch_unwind(|| Node::boot(dir, &NodeOpts::new(cons.clone())));
    let node = match booted {
        Ok(Ok(n)) => n,
        Ok(Err(e)) => {
            report.violation("reopen-failed", format!("re-open after crash at write {n} failed: {e}"), label);
            return Ok(None);
        }
        Err(_) => {
            report.violation("reopen-panicked", format!("re-open after crash at write {n} panicked"), label);
            return Ok(None);
        }
    };
    node.wait_startup()?;
    if ctx.replay.is_some() {
        let store = node.shared.store();
        for (i, b) in prep.blocks.iter().enumerate() {
            println!("  at re-open: {} n={} stored={} ext={:?} orphan={}", h.order[i], b.number(), stored_raw(store, &b.hash()), store.get_block_ext(&b.hash()).map(|e| e.verified), node.chain().get_orphan_block(store, &b.hash()).is_some());
        }
    }
    let pending = wait_verified(&node, &prep.blocks);
    let store = node.shared.store();
    if ctx.replay.is_some() {
        for (i, b) in prep.blocks.iter().enumerate() {
            println!("  after start-up verification: {} stored={} ext={:?} orphan={} status={:?}", h.order[i], stored_raw(store, &b.hash()), store.get_block_ext(&b.hash()).map(|e| e.verified), node.chain().get_orphan_block(store, &b.hash()).is_some(), node.shared.get_block_status(&b.hash()));
        }
    }
    let mut had_unverified = false;
    if !pending.is_empty() {
        let names: Vec<String> = pending.iter().map(|ph| prep.blocks.iter().position(|b| &b.hash() == ph).map(|i| h.order[i].clone()).unwrap_or_default()).collect();
        let tipn = store.get_tip_header().map(|t| t.number()).unwrap_or(0);
        report.violation("unverified-block-not-picked-up", format!("after restart (tip number {tipn}) stored block(s) {names:?} still have no verification record"), label.clone());
    }
    // consistency of the recovered state (C02 oracle) for the main chain the node is on
    let tip = store.get_tip_header().ok_or("no tip after recovery")?.hash();
    let chain = {
        let mut chain = vec![];
        let mut cur = tip.clone();
        let mut ok = true;
        while cur != cons.genesis_hash() {
            match prep.by_hash.get(&cur) {
                Some((b, valid)) => {
                    if !*valid {
                        report.violation("recovered-tip-on-invalid-chain", "the recovered main chain contains an invalid block".to_string(), label.clone());
                    }
                    chain.push(b.clone());
                    cur = b.parent_hash();
                }
                None => {
                    ok = false;
                    break;
                }
            }
        }
        if !ok {
            report.violation("recovered-tip-unknown", "the recovered tip is not a block of the history".to_string(), label.clone());
            return Ok(None);
        }
        chain.push(cons.genesis_block().clone());
        chain.reverse();
        chain
    };
    let r = RefChain::replay(cons, &chain)?;
    let d = dump(store);
    for (sub, msg) in compare(store, &d, &r) {
        report.violation(format!("recovered-store/{sub}"), format!("{msg} [after crash at write {n}]"), label.clone());
    }
    let snap = node.shared.snapshot();
    let ds = dump(snap.as_ref());
    for (sub, msg) in compare(snap.as_ref(), &ds, &r) {
        report.violation(format!("recovered-snapshot/{sub}"), format!("{msg} [after crash at write {n}]"), label.clone());
    }
    if snap.tip_hash() != tip || snap.total_difficulty() != &r.tip_total_difficulty {
        report.violation("recovered-snapshot/tip-fields", "snapshot tip fields disagree with the stored tip".to_string(), label.clone());
    }
    // tip maximal among stored fully valid chains
    let mut best = snap.total_difficulty().clone();
    for (b, valid) in prep.by_hash.values() {
        if !*valid || !stored_raw(store, &b.hash()) {
            continue;
        }
        // all ancestors stored and valid
        let mut cur = b.clone();
        let mut acc = U256::zero();
        let mut ok = true;
        loop {
            acc = acc + cur.difficulty();
            let ph = cur.parent_hash();
            if ph == cons.genesis_hash() {
                break;
            }
            match prep.by_hash.get(&ph) {
                Some((p, true)) if stored_raw(store, &ph) => cur = p.clone(),
                _ => {
                    ok = false;
                    break;
                }
            }
        }
        if ok {
            let total = acc + cons.genesis_block().difficulty();
            if total > best {
                best = total;
            }
        }
    }
    if &best != snap.total_difficulty() {
        report.violation("recovered-tip-not-heaviest", format!("after restart the tip has total difficulty {:#x} but a stored fully valid chain has {:#x}", snap.total_difficulty(), best), label.clone());
    }
    drop(snap);
    // count what the crash left behind (for the non-triviality measure): blocks re-verified
    if let Some(cf) = crash_free {
        if cf.tip != tip {
            had_unverified = true;
        }
    }
    // convergence: redeliver everything in the original order
    // (out-of-order histories contain blocks whose parent arrives later: asynchronous path)
    for b in &prep.blocks {
        node.deliver(b);
    }
    node.quiesce()?;
    let tip2 = node.tip().hash();
    let td2 = node.shared.snapshot().total_difficulty().clone();
    let d2 = dump(node.shared.store());
    if let Some(cf) = crash_free {
        if td2 != cf.td {
            report.violation("no-convergence/total-difficulty", format!("after redelivery total difficulty {:#x}, crash-free run {:#x}", td2, cf.td), label.clone());
        } else if tip2 == cf.tip {
            let same = d2.cell == cf.dump.cell && d2.cell_data == cf.dump.cell_data && d2.index == cf.dump.index && d2.tx_info == cf.dump.tx_info && d2.uncles == cf.dump.uncles && d2.meta_tip == cf.dump.meta_tip && d2.meta_epoch == cf.dump.meta_epoch;
            if !same {
                report.violation("no-convergence/state", "after redelivery the canonical state differs from the crash-free run with the same tip".to_string(), label.clone());
            }
        }
    }
    // the converged state must itself be consistent
    {
        let mut chain = vec![];
        let mut cur = tip2.clone();
        while cur != cons.genesis_hash() {
            let (b, _) = prep.by_hash.get(&cur).ok_or("converged tip outside history")?;
            chain.push(b.clone());
            cur = b.parent_hash();
        }
        chain.push(cons.genesis_block().clone());
        chain.reverse();
        let r2 = RefChain::replay(cons, &chain)?;
        for (sub, msg) in compare(node.shared.store(), &d2, &r2) {
            report.violation(format!("converged-store/{sub}"), format!("{msg} [crash at write {n}, after redelivery]"), label.clone());
        }
    }
    report.evaluations += 1;
    report.traces += 1;
    report.transitions += prep.blocks.len() as u64 * 2 + 1;
    report.states.insert(fp(&(d.index.clone(), d.block_ext.len(), d.meta_tip.clone())));
    report.outcomes.insert(fp(&(tip.as_slice().to_vec(), d.block_ext.len())));
    if had_unverified || d.block_ext.len() != crash_free.map(|c| c.dump.block_ext.len()).unwrap_or(0) {
        report.nontrivial.insert(fp(&(&h.order, &h.mode, n, m)));
    }
    let _ = built;
    let _ = ctx;
    let fin = Final { tip: tip2, td: td2, dump: d2 };
    node.shutdown();
    Ok(Some(fin))
}

pub fn run(ctx: &Ctx) -> Report {
    let mut report = Report::new();
    set_time(time_for_height(20));
    let cons = consensus(&WorldOpts::default());
    let txu = c02::TxUniverse::new(&cons);
    let exe = std::env::current_exe().expect("exe");
    let mut forge = match Forge::new(&ctx.scratch.join("forge"), &cons) {
        Ok(f) => f,
        Err(e) => {
            report.machinery_errors.push(e);
            return report;
        }
    };
    let replay: Option<Value> = ctx.replay.as_ref().map(|p| load_replay_case(p));
    let hs: Vec<History> = match &replay {
        Some(v) => vec![serde_json::from_value(v["history"].clone()).expect("history")],
        None => histories(ctx.tier),
    };
    if replay.is_some() {
        report.outcomes.insert(0);
    }
    for (hi, h) in hs.iter().enumerate() {
        let built = match c02::build_universe(&mut forge, &cons, &txu, &h.universe) {
            Ok(b) => b,
            Err(e) => {
                report.machinery_errors.push(format!("universe: {e}"));
                return report;
            }
        };
        let prep = match prepare(&built, h) {
            Ok(p) => p,
            Err(e) => {
                report.machinery_errors.push(e);
                return report;
            }
        };
        let spec = CrashRunSpec { blocks_hex: prep.blocks.iter().map(block_to_hex).collect(), mode: h.mode.clone() };
        let spec_file = ctx.scratch.join(format!("spec-{hi}.json"));
        std::fs::write(&spec_file, serde_json::to_string(&spec).unwrap()).unwrap();
        // crash-free run
        let dir = ctx.scratch.join(format!("data-{hi}"));
        let _ = std::fs::remove_dir_all(&dir);
        let (code, points) = match run_child(&exe, &spec_file, &dir, 0, false) {
            Ok(x) => x,
            Err(e) => {
                report.machinery_errors.push(format!("crash-free child: {e}"));
                return report;
            }
        };
        if code != 0 || points == 0 {
            report.machinery_errors.push(format!("crash-free child: exit {code}, {points} write points"));
            return report;
        }
        report.max_counter("max_write_points_per_history", points);
        let mut scratch_report = Report::new();
        let crash_free = match judge(ctx, &cons, &built, &prep, h, 0, None, None, &dir, &mut scratch_report) {
            Ok(Some(f)) => f,
            other => {
                report.machinery_errors.push(format!("crash-free run could not be judged: {:?} {:?}", other.err(), scratch_report.violations.first().map(|v| v.what.clone())));
                return report;
            }
        };
        for v in scratch_report.violations {
            report.violation(format!("crash-free/{}", v.key), v.what, v.replay);
        }
        let ns: Vec<u64> = match &replay {
            Some(v) => vec![v["crash_at"].as_u64().unwrap_or(1)],
            None => (1..=points).collect(),
        };
        for n in ns {
            if replay.is_none() && ctx.shards > 1 && !ctx.mine(hi as u64 * 1000 + n) {
                continue;
            }
            if ctx.out_of_time() {
                report.cap_hit = Some(format!("wall budget reached at history {hi} write point {n}"));
                return report;
            }
            let _ = std::fs::remove_dir_all(&dir);
            match run_child(&exe, &spec_file, &dir, n, false) {
                Ok((86, _)) => {}
                Ok((0, p)) => {
                    // thread timing moved the number of writes in this child: nothing was cut
                    report.count("children_finished_before_crash_point", 1);
                    let _ = p;
                    continue;
                }
                Ok(_) => unreachable!(),
                Err(e) => {
                    report.machinery_errors.push(format!("child (history {hi}, N={n}): {e}"));
                    return report;
                }
            }
            let second: Option<u64> = replay.as_ref().and_then(|v| v["second_crash_at"].as_u64());
            if ctx.tier.is_thorough() || second.is_some() {
                // depth 2: crash during recovery at every write point of the recovery
                let backup = ctx.scratch.join(format!("backup-{hi}"));
                let _ = std::fs::remove_dir_all(&backup);
                copy_dir(&dir, &backup);
                let (_, rp) = match run_child(&exe, &spec_file, &dir, 0, true) {
                    Ok(x) => x,
                    Err(e) => {
                        report.violation("recovery-child-failed", format!("recovery after crash at write {n} failed in the child: {e}"), json!({"history": h, "crash_at": n}));
                        continue;
                    }
                };
                let ms: Vec<u64> = match second {
                    Some(m) => vec![m],
                    None => (1..=rp).collect(),
                };
                for m in ms {
                    let _ = std::fs::remove_dir_all(&dir);
                    copy_dir(&backup, &dir);
                    match run_child(&exe, &spec_file, &dir, m, true) {
                        Ok((86, _)) => {
                            if let Err(e) = judge(ctx, &cons, &built, &prep, h, n, Some(m), Some(&crash_free), &dir, &mut report) {
                                report.machinery_errors.push(format!("judge (history {hi}, N={n}, M={m}): {e}"));
                                return report;
                            }
                            report.count("depth2_recoveries", 1);
                        }
                        Ok(_) => {}
                        Err(e) => {
                            report.violation("recovery-child-failed", format!("second recovery failed: {e}"), json!({"history": h, "crash_at": n, "second_crash_at": m}));
                        }
                    }
                }
                let _ = std::fs::remove_dir_all(&dir);
                copy_dir(&backup, &dir);
            }
            if let Err(e) = judge(ctx, &cons, &built, &prep, h, n, None, Some(&crash_free), &dir, &mut report) {
                report.machinery_errors.push(format!("judge (history {hi}, N={n}): {e}"));
                return report;
            }
        }
        if hi == 0 || hi == hs.len() - 1 {
            report.sample(json!({"history": h, "write_points": points, "blocks_valid": prep.valid}));
        }
    }
    report
}

fn copy_dir(from: &Path, to: &Path) {
    std::fs::create_dir_all(to).unwrap();
    for e in std::fs::read_dir(from).unwrap().flatten() {
        let p = e.path();
        let t = to.join(e.file_name());
        if p.is_dir() {
            copy_dir(&p, &t);
        } else {
            let _ = std::fs::copy(&p, &t);
        }
    }
}
