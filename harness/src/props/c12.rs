//! C12 — after any reorg the pool agrees with the new chain: no stale, dead or lost txs.
//!
//! Every history is run on a real node with the production tx-pool wiring (block assembler on
//! and off).  Two competing branches A (a1..a5) and B (b1..b4) from genesis are forged for every
//! history (fresh timestamps, so no block is ever seen twice by the pool node); block order is
//! a1 a2 a3 | b1 b2 b3 b4 (B overtakes: 3 blocks detached, 4 attached) | a4 a5 (A overtakes
//! again: 4 detached, 5 attached, and ids proposed in block 1 leave the window at tip 5).
//! Per scenario (a small set of related transactions) every role assignment
//! (nothing / proposed only / proposed + committed, independently on A and on B) and every
//! assignment of submission positions is enumerated.  After every event the pool's dump is judged
//! against a plain replay of the new main chain.
use crate::core::*;
use crate::forge::*;
use crate::node::*;
use crate::props::c11::Driver;
use crate::world::*;
use ckb_app_config::TxPoolConfig;
use ckb_chain_spec::consensus::Consensus;
use ckb_tx_pool::verif::PoolDump;
use ckb_types::{
    core::{BlockView, FeeRate, TransactionView},
    packed::{Byte32, CellDep, OutPoint, ProposalShortId},
    prelude::*,
};
use serde::{Deserialize, Serialize};
use serde_json::{Value, json};
use std::collections::{BTreeMap, BTreeSet, HashMap, HashSet};

pub const TXS: [&str; 8] = ["T1", "T2", "Ta", "Tb", "H", "D", "S", "S2"];
const NEVER: u8 = 255;

/// block order of a history: A leads with `first` blocks, B overtakes with `first + 1`, A overtakes
/// again with two more.  (H can only be proposed after a1 exists: it is proposed in a2 and
/// committed in a4; every other tx is proposed in block 1 and committed in block 3 of a branch
/// that gets that far.)
fn order(first: usize) -> Vec<(char, usize)> {
    let mut o: Vec<(char, usize)> = (1..=first).map(|n| ('a', n)).collect();
    o.extend((1..=first + 1).map(|n| ('b', n)));
    o.extend((first + 1..=first + 2).map(|n| ('a', n)));
    o
}

/// symbolic submission positions -> "after that many blocks"
/// 0 start, 1 after a1 (ids in the gap), 2 after a2 (ids in the window), 3 end of the first A phase,
/// 4 just before B overtakes, 5 after B overtook, 6 at the end
fn position(first: usize, sym: u8) -> u8 {
    let ord = order(first);
    match sym {
        0 => 0,
        1 => 1,
        2 => ord.iter().position(|x| *x == ('a', 2)).unwrap() as u8 + 1,
        3 => first as u8,
        4 => 2 * first as u8,
        5 => 2 * first as u8 + 1,
        6 => ord.len() as u8,
        _ => NEVER,
    }
}

#[derive(Clone, Debug, Serialize, Deserialize, PartialEq, Eq, Hash)]
pub struct Case {
    pub scenario: String,
    /// tx index -> (role on A, role on B): 0 nothing, 1 proposed in block 1, 2 proposed in block 1 and committed in block 3
    pub roles: Vec<(usize, u8, u8)>,
    /// tx index -> position of its submission (after that many blocks); NEVER = not submitted
    pub pos: Vec<(usize, u8)>,
    /// length of A's first lead (see `order`)
    pub first: usize,
    pub mine: bool,
}

pub fn pool_config() -> TxPoolConfig {
    let mut c = TxPoolConfig::default();
    c.min_fee_rate = FeeRate::from_u64(1_000);
    // no replacement: a conflicting submission is simply refused
    c.min_rbf_rate = FeeRate::from_u64(1_000);
    c
}

struct World {
    cons: Consensus,
    g: Vec<(OutPoint, u64)>,
}

impl World {
    /// the fixed transactions (H is rebuilt per history: it names block a1 as a header dep)
    fn txs(&self, a1: &Byte32) -> Vec<TransactionView> {
        let c = &self.cons;
        let g = &self.g;
        let t1 = simple_tx(c, &g[0..1], 2, 1_000_000, 1);
        let t2 = simple_tx(c, &[out(&t1, 0)], 1, 1_100_000, 2);
        let ta = simple_tx(c, &g[1..2], 1, 1_200_000, 3);
        let tb = simple_tx(c, &g[1..2], 1, 1_300_000, 4);
        let h = simple_tx(c, &g[2..3], 1, 900_000, 5).as_advanced_builder().header_dep(a1.clone()).build();
        let d = simple_tx(c, &g[4..5], 1, 800_000, 6).as_advanced_builder().cell_dep(CellDep::new_builder().out_point(g[3].0.clone()).build()).build();
        let s = simple_tx(c, &g[3..4], 1, 700_000, 7);
        // a second spender of the dep cell
        let s2 = simple_tx(c, &g[3..4], 1, 750_000, 8);
        vec![t1, t2, ta, tb, h, d, s, s2]
    }
}

fn roles_valid(roles: &BTreeMap<usize, (u8, u8)>) -> bool {
    let r = |i: usize| roles.get(&i).cloned().unwrap_or((0, 0));
    // T2 can be committed only where T1 is
    if (r(1).0 == 2 && r(0).0 != 2) || (r(1).1 == 2 && r(0).1 != 2) {
        return false;
    }
    // Ta and Tb spend the same cell
    if (r(2).0 == 2 && r(3).0 == 2) || (r(2).1 == 2 && r(3).1 == 2) {
        return false;
    }
    // S and S2 spend the same cell
    if (r(6).0 == 2 && r(7).0 == 2) || (r(6).1 == 2 && r(7).1 == 2) {
        return false;
    }
    // H names a1: it cannot be committed on B
    if r(4).1 == 2 {
        return false;
    }
    true
}

/// main-chain replay in plain sets
struct Ref {
    live: HashSet<OutPoint>,
    committed: HashSet<Byte32>,
    main: HashSet<Byte32>,
    set: BTreeSet<Vec<u8>>,
    gap: BTreeSet<Vec<u8>>,
}

fn reference(chain: &[BlockView], window: (u64, u64)) -> Ref {
    let mut live = HashSet::new();
    let mut committed = HashSet::new();
    let mut main = HashSet::new();
    for b in chain {
        main.insert(b.hash());
        for (ti, tx) in b.transactions().iter().enumerate() {
            if ti > 0 || b.number() == 0 {
                committed.insert(tx.hash());
            }
            if ti > 0 {
                for i in tx.input_pts_iter() {
                    live.remove(&i);
                }
            }
            for (oi, _) in tx.outputs().into_iter().enumerate() {
                live.insert(OutPoint::new(tx.hash(), oi as u32));
            }
        }
    }
    // proposal window of the next block (tip + 1)
    let t = chain.len() as i64 - 1;
    let next = t + 1;
    let (close, far) = (window.0 as i64, window.1 as i64);
    let mut set = BTreeSet::new();
    let mut gap = BTreeSet::new();
    for n in 1..=t {
        let b = &chain[n as usize];
        let mut ids: Vec<Vec<u8>> = b.data().proposals().into_iter().map(|p| p.as_slice().to_vec()).collect();
        for u in b.data().uncles().into_iter() {
            ids.extend(u.proposals().into_iter().map(|p| p.as_slice().to_vec()));
        }
        let dist = next - n;
        if dist >= close && dist <= far {
            set.extend(ids);
        } else if dist < close {
            gap.extend(ids);
        }
    }
    Ref { live, committed, main, set, gap }
}

fn judge(d: &PoolDump, r: &Ref, names: &HashMap<Byte32, &'static str>, mine: bool) -> Vec<(String, String)> {
    let mut out = vec![];
    let name = |h: &Byte32| names.get(h).map(|s| s.to_string()).unwrap_or_else(|| format!("{h}"));
    let pool_outputs: HashSet<OutPoint> = d.entries.iter().flat_map(|e| (0..e.tx.outputs().len()).map(move |i| OutPoint::new(e.tx.hash(), i as u32))).collect();
    for e in &d.entries {
        let n = name(&e.tx.hash());
        if r.committed.contains(&e.tx.hash()) {
            out.push(("stale-committed".into(), format!("{n} is committed on the main chain and still pooled ({})", e.status)));
        }
        for i in e.tx.input_pts_iter() {
            if !r.live.contains(&i) && !pool_outputs.contains(&i) {
                out.push(("dead-input".into(), format!("{n} is pooled ({}) but its input {}#{} is neither live on the main chain nor created by a pooled tx", e.status, name(&i.tx_hash()), Unpack::<u32>::unpack(&i.index()))));
            }
        }
        for c in e.tx.cell_deps_iter() {
            let p = c.out_point();
            if !r.live.contains(&p) && !pool_outputs.contains(&p) {
                out.push(("dead-dep".into(), format!("{n} is pooled ({}) but its cell dep {}#{} is neither live on the main chain nor created by a pooled tx", e.status, name(&p.tx_hash()), Unpack::<u32>::unpack(&p.index()))));
            }
        }
        for h in e.tx.header_deps_iter() {
            if !r.main.contains(&h) {
                out.push(("detached-header-dep".into(), format!("{n} is pooled ({}) but its header dep {h} is not on the main chain", e.status)));
            }
        }
        if mine {
            let id = e.id.as_slice().to_vec();
            let want = if r.set.contains(&id) {
                "proposed"
            } else if r.gap.contains(&id) {
                "gap"
            } else {
                "pending"
            };
            if e.status != want {
                out.push((format!("stage/{}-should-be-{}", e.status, want), format!("{n} is in stage {} but its id is {} of the new chain", e.status, match want { "proposed" => "inside the proposal window", "gap" => "proposed in the gap (too recent to commit)", _ => "not proposed within the window" })));
            }
        }
    }
    out
}

struct Runner {
    world: World,
    forge: Forge,
    drv: Option<(bool, Driver)>,
    boots: u64,
}

impl Runner {
    fn new(ctx: &Ctx) -> Result<Runner, String> {
        let cons = consensus(&WorldOpts::default());
        let g = genesis_cells(&cons);
        set_time(time_for_height(0));
        let forge = Forge::new(&ctx.scratch.join("c12-forge"), &cons)?;
        Ok(Runner { world: World { cons, g }, forge, drv: None, boots: 0 })
    }

    fn driver(&mut self, ctx: &Ctx, mine: bool) -> Result<&mut Driver, String> {
        let stale = match &self.drv {
            Some((m, d)) => *m != mine || d.resets >= 300,
            None => true,
        };
        if stale {
            let clock = self.drv.as_ref().map(|(_, d)| d.clock);
            if let Some((_, d)) = self.drv.take() {
                d.node.destroy();
            }
            self.boots += 1;
            let mut d = Driver::boot_with(&ctx.scratch.join(format!("c12-pool-{}", self.boots)), &self.world.cons, pool_config(), mine)?;
            if let Some(c) = clock {
                d.clock = c;
            }
            self.drv = Some((mine, d));
        }
        Ok(&mut self.drv.as_mut().unwrap().1)
    }

    fn run_case(&mut self, ctx: &Ctx, case: &Case, report: &mut Report) -> Result<(), String> {
        let cons = self.world.cons.clone();
        let window = (cons.tx_proposal_window().closest(), cons.tx_proposal_window().farthest());
        let roles: BTreeMap<usize, (u8, u8)> = case.roles.iter().map(|(i, a, b)| (*i, (*a, *b))).collect();
        let pos: BTreeMap<usize, u8> = case.pos.iter().cloned().collect();
        // the forge and the pool node share the process clock; keep it monotonic
        let fclock = self.drv.as_ref().map(|(_, d)| d.clock).unwrap_or(time_for_height(0));
        {
            let drv = self.driver(ctx, case.mine)?;
            if drv.clock < fclock {
                drv.clock = fclock;
            }
            drv.reset()?;
            drv.clock += 14 * BLOCK_INTERVAL_MS;
            set_time(drv.clock);
        }
        let base = self.drv.as_ref().unwrap().1.clock - 13 * BLOCK_INTERVAL_MS;
        // forge the two branches
        self.forge.forget();
        let genesis = cons.genesis_hash();
        let a1_spec_ids = |txs: &[TransactionView], branch: usize| -> Vec<ProposalShortId> { (0..TXS.len()).filter(|i| roles.get(i).map(|r| matches!(if branch == 0 { r.0 } else { r.1 }, 1 | 2 | 3)).unwrap_or(false)).map(|i| txs[i].proposal_short_id()).collect() };
        // roles 3 and 4: the id is (also / only) proposed in the last block of the branch
        let late_ids = |txs: &[TransactionView], branch: usize| -> Vec<ProposalShortId> { (0..TXS.len()).filter(|i| roles.get(i).map(|r| matches!(if branch == 0 { r.0 } else { r.1 }, 3 | 4)).unwrap_or(false)).map(|i| txs[i].proposal_short_id()).collect() };
        let commits = |txs: &[TransactionView], branch: usize| -> Vec<TransactionView> { (0..TXS.len()).filter(|i| roles.get(i).map(|r| if branch == 0 { r.0 } else { r.1 } == 2).unwrap_or(false)).map(|i| txs[i].clone()).collect() };
        // a1 proposes H's id, which depends on a1's hash: H's id is not proposable in a1 itself;
        // H is proposed in a2 (and then committed in a4 on A) - handled by building a1 first with
        // the other ids
        let provisional = self.world.txs(&genesis);
        let mut a: Vec<BlockView> = vec![];
        let mut b: Vec<BlockView> = vec![];
        let non_h = |ids: Vec<ProposalShortId>, txs: &[TransactionView]| -> Vec<ProposalShortId> { ids.into_iter().filter(|i| *i != txs[4].proposal_short_id()).collect() };
        let a1 = self.forge.build_on(&genesis, &BlockSpec { proposals: non_h(a1_spec_ids(&provisional, 0), &provisional), miner: 1, timestamp: Some(base + BLOCK_INTERVAL_MS), ..Default::default() })?;
        let txs = self.world.txs(&a1.hash());
        let h_id = txs[4].proposal_short_id();
        let h_role = roles.get(&4).cloned().unwrap_or((0, 0));
        a.push(a1);
        let ord = order(case.first);
        let a_len = ord.iter().filter(|(c, _)| *c == 'a').count() as u64;
        let b_len = ord.iter().filter(|(c, _)| *c == 'b').count() as u64;
        for n in 2..=a_len {
            let mut spec = BlockSpec { miner: 1, timestamp: Some(base + n * BLOCK_INTERVAL_MS), ..Default::default() };
            if n == 2 && h_role.0 >= 1 {
                spec.proposals = vec![h_id.clone()];
            }
            if n == 3 {
                spec.txs = commits(&txs, 0).into_iter().filter(|t| t.hash() != txs[4].hash()).collect();
            }
            if n == 4 && h_role.0 == 2 {
                spec.txs = vec![txs[4].clone()];
            }
            if n == a_len {
                spec.proposals.extend(late_ids(&txs, 0));
            }
            let parent = a.last().unwrap().hash();
            let blk = self.forge.build_on(&parent, &spec)?;
            a.push(blk);
        }
        for n in 1..=b_len {
            let mut spec = BlockSpec { miner: 2, timestamp: Some(base + n * BLOCK_INTERVAL_MS + 1), ..Default::default() };
            if n == 1 {
                spec.proposals = a1_spec_ids(&txs, 1);
            }
            if n == 3 {
                spec.txs = commits(&txs, 1);
            }
            if n == b_len {
                spec.proposals.extend(late_ids(&txs, 1));
            }
            let parent = b.last().map(|x: &BlockView| x.hash()).unwrap_or_else(|| genesis.clone());
            let blk = self.forge.build_on(&parent, &spec)?;
            b.push(blk);
        }
        let names: HashMap<Byte32, &'static str> = txs.iter().enumerate().map(|(i, t)| (t.hash(), TXS[i])).collect();
        let drv = &mut self.drv.as_mut().unwrap().1;
        let mut prev_main: Vec<BlockView> = drv.node.main_chain();
        let mut trace: Vec<String> = vec![];
        let label = serde_json::to_value(case).unwrap();
        for k in 0..=ord.len() {
            // submissions at position k, parents first
            for i in 0..TXS.len() {
                if pos.get(&i).cloned().unwrap_or(NEVER) as usize == k {
                    let res = drv.node.shared.tx_pool_controller().submit_local_tx(txs[i].clone()).map_err(|e| e.to_string())?;
                    trace.push(format!("submit {} -> {}", TXS[i], match &res { Ok(_) => "accepted".to_string(), Err(e) => format!("rejected ({})", e.to_string().split('(').next().unwrap_or("").trim()) }));
                    report.transitions += 1;
                    let d = drv.dump()?;
                    let r = reference(&prev_main, window);
                    for (kind, msg) in judge(&d, &r, &names, case.mine) {
                        report.violation(format!("{}/{kind}", case.scenario), format!("{msg}; history so far: {}", trace.join(", ")), label.clone());
                    }
                }
            }
            if k == ord.len() {
                break;
            }
            let (br, n) = ord[k];
            let blk = if br == 'a' { &a[n - 1] } else { &b[n - 1] };
            match drv.node.process(blk) {
                Ok(_) => {}
                Err(e) => return Err(format!("forged block {br}{n} refused by the pool node: {e}")),
            }
            drv.node.wait_pool_synced()?;
            report.transitions += 1;
            let main = drv.node.main_chain();
            let r = reference(&main, window);
            let d = drv.dump()?;
            let tipname = format!("{br}{n}");
            let changed = main.last().unwrap().hash() != prev_main.last().unwrap().hash();
            let reorg = changed && (main.len() <= prev_main.len() || main[prev_main.len() - 1].hash() != prev_main[prev_main.len() - 1].hash());
            trace.push(format!("block {tipname}{}", if main.last().unwrap().hash() == blk.hash() { if reorg { " (reorg)" } else { "" } } else { " (side)" }));
            for (kind, msg) in judge(&d, &r, &names, case.mine) {
                report.violation(format!("{}/{kind}", case.scenario), format!("after {}: {msg}", trace.join(", ")), label.clone());
            }
            // (d) transactions committed only on the abandoned branch and still admissible are back
            if reorg {
                let new_committed: HashSet<Byte32> = r.committed.clone();
                let pooled: HashSet<Byte32> = d.entries.iter().map(|e| e.tx.hash()).collect();
                let mut available: HashSet<OutPoint> = r.live.clone();
                for e in &d.entries {
                    for (oi, _) in e.tx.outputs().into_iter().enumerate() {
                        available.insert(OutPoint::new(e.tx.hash(), oi as u32));
                    }
                }
                for ob in prev_main.iter().filter(|ob| !r.main.contains(&ob.hash())) {
                    for tx in ob.transactions().iter().skip(1) {
                        if new_committed.contains(&tx.hash()) {
                            continue;
                        }
                        let inputs_ok = tx.input_pts_iter().all(|i| available.contains(&i) && !d.entries.iter().any(|e| e.tx.hash() != tx.hash() && e.tx.input_pts_iter().any(|x| x == i)));
                        // the pool's own admission policy refuses a tx whose dep cell is being spent by a
                        // pooled tx (PoolCell reports it dead), exactly as on a direct submission
                        let deps_ok = tx.cell_deps_iter().all(|c| available.contains(&c.out_point()) && !d.entries.iter().any(|e| e.tx.hash() != tx.hash() && e.tx.input_pts_iter().any(|x| x == c.out_point())));
                        let headers_ok = tx.header_deps_iter().all(|h| r.main.contains(&h));
                        let admissible = inputs_ok && deps_ok && headers_ok;
                        if admissible {
                            report.count("detached_admissible", 1);
                            if !pooled.contains(&tx.hash()) {
                                report.violation(format!("{}/lost-detached", case.scenario), format!("after {}: {} was committed only on the abandoned branch, is valid on the new chain, and is not back in the pool", trace.join(", "), names.get(&tx.hash()).cloned().unwrap_or("?")), label.clone());
                            } else {
                                // outputs of a re-added tx are available to later detached txs (already in `available`)
                                report.nontrivial.insert(fp(&(&case.scenario, &case.roles, &case.pos, case.mine, case.first, k)));
                            }
                        } else {
                            report.count("detached_inadmissible", 1);
                        }
                    }
                }
            }
            let mut pool_state: Vec<(String, String)> = d.entries.iter().map(|e| (names.get(&e.tx.hash()).cloned().unwrap_or("?").to_string(), e.status.clone())).collect();
            pool_state.sort();
            report.states.insert(fp(&(&tipname, reorg, &pool_state, main.len(), case.mine)));
            report.outcomes.insert(fp(&(&pool_state, reorg)));
            if pool_state.iter().any(|(_, s)| s != "pending") || (reorg && !pool_state.is_empty()) {
                report.nontrivial.insert(fp(&(&case.scenario, &case.roles, &case.pos, case.mine, case.first, k, 1)));
            }
            prev_main = main;
        }
        let final_tip = drv.node.tip();
        if final_tip.hash() != a.last().unwrap().hash() {
            return Err(format!("history did not end on the last A block (tip {})", final_tip.number()));
        }
        report.traces += 1;
        report.evaluations += 1;
        if report.samples.len() < 2 && trace.iter().filter(|t| t.starts_with("submit")).count() >= 2 {
            report.sample(json!({"case": case, "trace": trace}));
        }
        Ok(())
    }
}

// ---- the race family: the chain moves between two steps of a submission -------------------------

#[derive(Clone, Debug, Serialize, Deserialize, PartialEq, Eq, Hash)]
pub struct RaceCase {
    pub race: String,
    pub gate: String,
    pub mine: bool,
}

pub fn race_cases() -> Vec<RaceCase> {
    let mut v = vec![];
    for race in ["committed-meanwhile", "conflict-committed-meanwhile", "dep-spent-meanwhile", "header-dep-detached-meanwhile", "parent-detached-meanwhile", "parent-replaced-meanwhile", "proposal-detached-meanwhile"] {
        for gate in ["process_tx:after-pre-check", "process_tx:before-submit-entry"] {
            for mine in [true, false] {
                v.push(RaceCase { race: race.into(), gate: gate.into(), mine });
            }
        }
    }
    v
}

impl Runner {
    /// A submission is started; at the named gate (between pre-check / verification / the write
    /// lock of submit_entry) blocks arrive and the pool finishes processing the tip change; the
    /// submission then continues.  Afterwards the pool must agree with the new chain.
    fn run_race(&mut self, ctx: &Ctx, case: &RaceCase, report: &mut Report) -> Result<(), String> {
        let cons = self.world.cons.clone();
        let window = (cons.tx_proposal_window().closest(), cons.tx_proposal_window().farthest());
        let fclock = self.drv.as_ref().map(|(_, d)| d.clock).unwrap_or(time_for_height(0));
        {
            let drv = self.driver(ctx, case.mine)?;
            if drv.clock < fclock {
                drv.clock = fclock;
            }
            drv.reset()?;
            drv.clock += 14 * BLOCK_INTERVAL_MS;
            set_time(drv.clock);
        }
        let base = self.drv.as_ref().unwrap().1.clock - 13 * BLOCK_INTERVAL_MS;
        self.forge.forget();
        let genesis = cons.genesis_hash();
        let g = self.world.g.clone();
        // which transaction is submitted, what the A branch proposes / commits, what arrives at the gate
        let provisional = self.world.txs(&genesis);
        let t1x = simple_tx(&cons, &g[0..1], 1, 3_000_000, 90); // another spender of T1's input
        let (a1_props, a3_txs): (Vec<usize>, Vec<usize>) = match case.race.as_str() {
            "committed-meanwhile" => (vec![0], vec![0]),
            "conflict-committed-meanwhile" => (vec![3], vec![3]),
            "dep-spent-meanwhile" => (vec![6], vec![6]),
            "parent-detached-meanwhile" | "parent-replaced-meanwhile" => (vec![0], vec![0]),
            "proposal-detached-meanwhile" => (vec![0], vec![]),
            _ => (vec![], vec![]),
        };
        let ts = |n: u64, off: u64| Some(base + n * BLOCK_INTERVAL_MS + off);
        let a1 = self.forge.build_on(&genesis, &BlockSpec { proposals: a1_props.iter().map(|i| provisional[*i].proposal_short_id()).collect(), miner: 1, timestamp: ts(1, 0), ..Default::default() })?;
        let txs = self.world.txs(&a1.hash());
        let a2 = self.forge.build_on(&a1.hash(), &BlockSpec { miner: 1, timestamp: ts(2, 0), ..Default::default() })?;
        let a3 = self.forge.build_on(&a2.hash(), &BlockSpec { txs: a3_txs.iter().map(|i| txs[*i].clone()).collect(), miner: 1, timestamp: ts(3, 0), ..Default::default() })?;
        let mut b = vec![];
        let mut pb = genesis.clone();
        for n in 1..=4u64 {
            let mut spec = BlockSpec { miner: 2, timestamp: ts(n, 1), ..Default::default() };
            if case.race == "parent-replaced-meanwhile" {
                if n == 1 {
                    spec.proposals = vec![t1x.proposal_short_id()];
                }
                if n == 3 {
                    spec.txs = vec![t1x.clone()];
                }
            }
            let blk = self.forge.build_on(&pb, &spec)?;
            pb = blk.hash();
            b.push(blk);
        }
        // before the submission / at the gate / submitted tx
        let (before, at_gate, submitted): (Vec<BlockView>, Vec<BlockView>, usize) = match case.race.as_str() {
            "committed-meanwhile" => (vec![a1.clone(), a2.clone()], vec![a3.clone()], 0),
            "conflict-committed-meanwhile" => (vec![a1.clone(), a2.clone()], vec![a3.clone()], 2),
            "dep-spent-meanwhile" => (vec![a1.clone(), a2.clone()], vec![a3.clone()], 5),
            "header-dep-detached-meanwhile" => (vec![a1.clone(), a2.clone(), a3.clone()], b.clone(), 4),
            "parent-detached-meanwhile" | "parent-replaced-meanwhile" => (vec![a1.clone(), a2.clone(), a3.clone()], b.clone(), 1),
            // T1 is proposed on A and sits in the window when it is submitted; B never proposes it
            "proposal-detached-meanwhile" => (vec![a1.clone(), a2.clone(), a3.clone()], b.clone(), 0),
            other => return Err(format!("unknown race {other}")),
        };
        let mut names: HashMap<Byte32, &'static str> = txs.iter().enumerate().map(|(i, t)| (t.hash(), TXS[i])).collect();
        names.insert(t1x.hash(), "T1x");
        let drv = &mut self.drv.as_mut().unwrap().1;
        for blk in &before {
            drv.node.process(blk).map_err(|e| format!("before: {e}"))?;
        }
        drv.node.wait_pool_synced()?;
        // the submission runs on its own thread and stops at the gate
        let (reached_tx, reached_rx) = std::sync::mpsc::channel::<()>();
        let (go_tx, go_rx) = std::sync::mpsc::channel::<()>();
        let wanted = case.gate.clone();
        let fired = std::sync::Arc::new(std::sync::atomic::AtomicBool::new(false));
        let fired2 = std::sync::Arc::clone(&fired);
        let go_rx = std::sync::Mutex::new(go_rx);
        ckb_tx_pool::verif::set_gate(Some(Box::new(move |point| {
            if point == wanted && !fired2.swap(true, std::sync::atomic::Ordering::SeqCst) {
                let _ = reached_tx.send(());
                let _ = go_rx.lock().unwrap().recv_timeout(std::time::Duration::from_secs(30));
            }
        })));
        let ctrl = drv.node.shared.tx_pool_controller().clone();
        let tx = txs[submitted].clone();
        let handle = std::thread::spawn(move || ctrl.submit_local_tx(tx).map_err(|e| e.to_string()));
        let reached = reached_rx.recv_timeout(std::time::Duration::from_secs(20)).is_ok();
        let label = serde_json::to_value(case).unwrap();
        let mut trace = vec![format!("{} delivered, submit {} started", before.iter().map(|x| format!("#{}", x.number())).collect::<Vec<_>>().join(" "), TXS[submitted])];
        if reached {
            for blk in &at_gate {
                drv.node.process(blk).map_err(|e| format!("at gate: {e}"))?;
            }
            drv.node.wait_pool_synced()?;
            trace.push(format!("at {}: {} block(s) arrive, tip is now #{} and the pool has processed it", case.gate, at_gate.len(), drv.node.tip().number()));
            let _ = go_tx.send(());
        }
        let verdict = handle.join().map_err(|_| "submit thread panicked".to_string())??;
        ckb_tx_pool::verif::set_gate(None);
        if !reached {
            // the submission was refused before the gate (nothing to interleave): deliver anyway
            for blk in &at_gate {
                drv.node.process(blk).map_err(|e| format!("late: {e}"))?;
            }
            drv.node.wait_pool_synced()?;
            report.count("race_gate_not_reached", 1);
        }
        trace.push(format!("submission answered {}", match &verdict { Ok(_) => "accepted".to_string(), Err(e) => format!("rejected ({})", e.to_string().split('(').next().unwrap_or("").trim()) }));
        report.transitions += 2;
        report.evaluations += 1;
        let main = drv.node.main_chain();
        let r = reference(&main, window);
        let d = drv.dump()?;
        for (kind, msg) in judge(&d, &r, &names, case.mine) {
            report.violation(format!("race/{}/{kind}", case.race), format!("{}: {msg}", trace.join("; ")), label.clone());
        }
        // an accepted answer for a transaction that is not pooled and not committed is a lost tx;
        // a pooled one is what the judge has looked at
        let pooled = d.entries.iter().any(|e| e.tx.hash() == txs[submitted].hash());
        report.states.insert(fp(&(case, pooled, verdict.is_ok())));
        report.outcomes.insert(fp(&(&case.race, pooled, verdict.is_ok())));
        if reached {
            report.nontrivial.insert(fp(case));
        }
        report.traces += 1;
        Ok(())
    }
}

fn scenarios() -> Vec<(&'static str, Vec<usize>)> {
    vec![("chain", vec![0, 1]), ("conflict", vec![2, 3]), ("header-dep", vec![4, 0]), ("cell-dep", vec![5, 6]), ("dep-conflict", vec![5, 6, 7]), ("late-proposal", vec![0])]
}

fn cases(tier: Tier) -> Vec<Case> {
    let positions: Vec<u8> = if tier.is_thorough() { vec![NEVER, 0, 1, 2, 3, 4, 5, 6] } else { vec![NEVER, 0, 1, 5] };
    let mut out = vec![];
    for (name, members) in scenarios() {
        // the late-proposal scenario adds: 3 = proposed in block 1 and in the branch's last block, 4 = in the last block only
        let rmax = if name == "late-proposal" { 5u8 } else { 3u8 };
        let role_opts: Vec<(u8, u8)> = (0..rmax).flat_map(|x| (0..rmax).map(move |y| (x, y))).collect();
        // all role assignments of the members
        let mut role_sets: Vec<Vec<(usize, u8, u8)>> = vec![vec![]];
        for m in &members {
            role_sets = role_sets.into_iter().flat_map(|p| role_opts.iter().map(move |r| { let mut q = p.clone(); q.push((*m, r.0, r.1)); q })).collect();
        }
        let firsts: Vec<usize> = if name == "header-dep" { vec![2, 4] } else { vec![1, 3] };
        for first in firsts {
            let mut numeric: Vec<u8> = positions.iter().map(|p| position(first, *p)).collect();
            numeric.sort();
            numeric.dedup();
            let mut pos_sets: Vec<Vec<(usize, u8)>> = vec![vec![]];
            for m in &members {
                pos_sets = pos_sets.into_iter().flat_map(|p| numeric.iter().map(move |x| { let mut q = p.clone(); q.push((*m, *x)); q })).collect();
            }
            for roles in &role_sets {
                let map: BTreeMap<usize, (u8, u8)> = roles.iter().map(|(i, a, b)| (*i, (*a, *b))).collect();
                if !roles_valid(&map) {
                    continue;
                }
                // dep-conflict: the dep user and the first spender live in the pool only; the second
                // spender (never submitted) takes every role
                if name == "dep-conflict" && !(map[&5] == (0, 0) && map[&6] == (0, 0)) {
                    continue;
                }
                // the header-dep scenario varies T1 only lightly (it is there as an unrelated bystander)
                if name == "header-dep" && !matches!(map[&0], (0, 0) | (2, 0) | (0, 2)) {
                    continue;
                }
                for pos in &pos_sets {
                    if name == "dep-conflict" && pos.iter().any(|(m, p)| *m == 7 && *p != NEVER) {
                        continue;
                    }
                    for mine in [true, false] {
                        // quick tier: the assembler-off node is run on the long first lead only
                        if !tier.is_thorough() && !mine && first != *[3usize, 4].iter().find(|f| **f == first).unwrap_or(&0) {
                            continue;
                        }
                        out.push(Case { scenario: name.to_string(), roles: roles.clone(), pos: pos.clone(), first, mine });
                    }
                }
            }
        }
    }
    // simplest first: fewer submissions, fewer roles
    out.sort_by_key(|c| (c.pos.iter().filter(|(_, p)| *p != NEVER).count(), c.roles.iter().map(|(_, a, b)| (*a + *b) as usize).sum::<usize>()));
    out
}

pub fn meta(tier: Tier) -> Meta {
    Meta {
        id: "C12",
        level: "model_checking",
        rule: "history = (scenario, role assignment, submission positions, block assembler on/off) run on a real node with the production tx-pool service; blocks a1 a2 a3 | b1 b2 b3 b4 (reorg, 3 detached / 4 attached) | a4 a5 (reorg back, 4 detached / 5 attached, block-1 proposals leave the window) forged freshly per history; scenarios: parent/child chain, two conflicting spends, a header-dep on a1 (+ bystander), a cell-dep user and the dep cell's spender, the same with a second (block-only) spender of the dep cell, a single tx whose id is (also / only) proposed in the last block of a branch; roles per tx and branch: nothing / proposed in block 1 / proposed and committed in block 3; after EVERY submission and block (once the pool reports the new tip) the pool's internal dump is judged against a plain replay of the main chain: no pooled tx committed on it, every input and cell dep live on it or created by a pooled tx, every header dep on it, on a reorg every tx committed only on the abandoned branch that is valid on the new chain (inputs available and not spent by another pooled tx, deps, header deps) is pooled again, and with the assembler on each entry's stage equals proposed/gap/pending as computed from the new chain's proposal window. race family: a submission is started and stopped at a gate (after pre-check / before submit_entry); meanwhile blocks arrive (the submitted tx is committed, its conflict is committed, its dep cell is spent, its header dep is detached, its parent is detached or replaced, its proposal is detached) and the pool processes the tip change; the submission continues; same oracle. non-trivial = a re-added detached tx or an entry outside the pending stage.",
        assumptions: &["expiry and size-limit eviction are outside this alphabet (C11 covers their bookkeeping)", "interleavings of a tip change with a concurrent submission are enumerated at the two gates between the steps of a submission (race family); other thread interleavings inside the pool service are not", "RBF is off in this check (a conflicting submission is refused)"],
        bounds: json!({"first_lead_of_A": "1 and 3 blocks (2 and 4 in the header-dep scenario); history = first + (first+1) + 2 blocks", "positions": if tier.is_thorough() { json!(["never", "start", "after a1", "after a2", "end of first A phase", "just before B overtakes", "after B overtook", "end"]) } else { json!(["never", "start", "after a1", "after B overtook"]) }, "roles_per_tx": 9}),
    }
}

pub fn run(ctx: &Ctx) -> Report {
    let mut report = Report::new();
    let mut runner = match Runner::new(ctx) {
        Ok(r) => r,
        Err(e) => {
            report.machinery_errors.push(e);
            return report;
        }
    };
    if let Some(path) = &ctx.replay {
        let v: Value = load_replay_case(path);
        if v.get("race").is_some() {
            let case: RaceCase = serde_json::from_value(v).expect("race case");
            if let Err(e) = runner.run_race(ctx, &case, &mut report) {
                report.machinery_errors.push(e);
            }
        } else {
            let case: Case = serde_json::from_value(v).expect("case");
            if let Err(e) = runner.run_case(ctx, &case, &mut report) {
                report.machinery_errors.push(e);
            }
        }
        report.outcomes.insert(0);
        report.outcomes.insert(1);
        return report;
    }
    // the race family first (it is small)
    for (i, rc) in race_cases().iter().enumerate() {
        if !ctx.mine(i as u64) {
            continue;
        }
        if let Err(e) = runner.run_race(ctx, rc, &mut report) {
            report.machinery_errors.push(format!("{rc:?}: {e}"));
            return report;
        }
    }
    let all = cases(ctx.tier);
    report.count("cases_total", if ctx.shard == 0 { all.len() as u64 } else { 0 });
    // block assembler on/off alternate in `all`; a worker keeps one node per mode, so group by mode
    for mine in [true, false] {
        for (i, case) in all.iter().enumerate() {
            if case.mine != mine || !ctx.mine((i / 2) as u64) {
                continue;
            }
            if ctx.out_of_time() {
                report.cap_hit = Some(format!("wall budget reached at case {i} of {} (mine={mine})", all.len()));
                return report;
            }
            if let Err(e) = runner.run_case(ctx, case, &mut report) {
                report.machinery_errors.push(format!("{case:?}: {e}"));
                return report;
            }
        }
    }
    report
}
