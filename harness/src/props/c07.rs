//! C07 — epoch length, difficulty and per-block issuance arithmetic stay within spec.
//!
//! Exhaustive sweeps over boundary lattices of the pure functions, judged by an exact
//! big-integer reference written from the RFC text:
//!  (1) Consensus::next_epoch_ext on the full cartesian grid of epoch statistics,
//!  (2) block rewards for every epoch length 1..=1800 x reward schedule x every block index,
//!  (3) EpochNumberWithFraction successor relation on all small values (gap-freeness),
//!  (4) compact <-> target <-> difficulty laws on all exponents x mantissa set (quick) or on ALL
//!      2^32 compact values (thorough),
//!  (5) Eaglesong PoW acceptance against an independent big-endian comparison.
use crate::core::*;
use ckb_chain_spec::consensus::{Consensus, ConsensusBuilder, build_genesis_epoch_ext};
use ckb_pow::{Pow, pow_message};
use ckb_traits::{BlockEpoch, EpochProvider};
use ckb_types::{
    U256,
    core::{BlockExt, BlockNumber, Capacity, EpochExt, EpochNumberWithFraction, HeaderBuilder, HeaderView},
    packed,
    prelude::*,
    utilities::{compact_to_difficulty, compact_to_target, difficulty_to_compact, target_to_compact},
};
use num_bigint_dig::BigUint;
use rayon::prelude::*;
use serde_json::json;

const MAX_LEN: u64 = 1800;
const MIN_LEN: u64 = 300;
const T: u64 = 14400; // default epoch duration target (s)

struct Stub {
    epoch: EpochExt,
    uncles: u64,
    duration_ms: u64,
}

impl EpochProvider for Stub {
    fn get_epoch_ext(&self, _h: &HeaderView) -> Option<EpochExt> {
        Some(self.epoch.clone())
    }
    fn get_block_hash(&self, _n: BlockNumber) -> Option<packed::Byte32> {
        None
    }
    fn get_block_ext(&self, _h: &packed::Byte32) -> Option<BlockExt> {
        None
    }
    fn get_block_header(&self, _h: &packed::Byte32) -> Option<HeaderView> {
        None
    }
    fn get_block_epoch(&self, _header: &HeaderView) -> Option<BlockEpoch> {
        Some(BlockEpoch::TailBlock { epoch: self.epoch.clone(), epoch_uncles_count: self.uncles, epoch_duration_in_milliseconds: self.duration_ms })
    }
}

fn big(u: &U256) -> BigUint {
    BigUint::from_bytes_le(&u.to_le_bytes())
}

fn consensus() -> Consensus {
    // default dynamic-difficulty consensus (mainnet-like arithmetic parameters)
    let genesis = crate::world::genesis_block_with_target(difficulty_to_compact(U256::from(1_000_000u64)));
    let e = build_genesis_epoch_ext(Capacity::shannons(1_917_808_21917808), genesis.compact_target(), 1000, T, (1, 40));
    ConsensusBuilder::new(genesis, e).build()
}

/// exact rational
#[derive(Clone, Debug)]
struct Q(BigUint, BigUint);
impl Q {
    fn int(n: u64) -> Q {
        Q(BigUint::from(n), BigUint::from(1u32))
    }
    fn mul(&self, o: &Q) -> Q {
        Q(&self.0 * &o.0, &self.1 * &o.1)
    }
    fn div(&self, o: &Q) -> Q {
        Q(&self.0 * &o.1, &self.1 * &o.0)
    }
    fn add(&self, o: &Q) -> Q {
        Q(&self.0 * &o.1 + &o.0 * &self.1, &self.1 * &o.1)
    }
    fn floor(&self) -> BigUint {
        &self.0 / &self.1
    }
    fn gt(&self, o: &Q) -> bool {
        &self.0 * &o.1 > &o.0 * &self.1
    }
    fn is_zero(&self) -> bool {
        self.0 == BigUint::from(0u32)
    }
    /// saturating subtraction of an integer
    fn sat_sub_int(&self, n: u64) -> Q {
        let m = BigUint::from(n) * &self.1;
        if self.0 > m { Q(&self.0 - m, self.1.clone()) } else { Q(BigUint::from(0u32), BigUint::from(1u32)) }
    }
}

struct RefNext {
    length: u64,
    difficulty: BigUint,
    hash_rate: BigUint,
}

/// RFC 0020 "dynamic difficulty adjustment", evaluated in exact arithmetic.
fn reference(last_difficulty: &BigUint, l: u64, u: u64, duration_ms: u64, prev_hash_rate: &BigUint) -> RefNext {
    let one = BigUint::from(1u32);
    let zero = BigUint::from(0u32);
    let d_sec = std::cmp::max(duration_ms / 1000, 1);
    let raw_rate = last_difficulty * BigUint::from(l + u) / BigUint::from(d_sec);
    let mut rate = if prev_hash_rate == &zero {
        raw_rate
    } else {
        let lo = prev_hash_rate / BigUint::from(2u32);
        let hi = prev_hash_rate * BigUint::from(2u32);
        if raw_rate < lo { lo } else if raw_rate > hi { hi } else { raw_rate }
    };
    if rate < one {
        rate = one.clone();
    }
    let o_ideal = Q(BigUint::from(1u32), BigUint::from(40u32));
    let o_last = Q(BigUint::from(u), BigUint::from(l));
    let (next_len, bound) = if u == 0 {
        (std::cmp::min(MAX_LEN, l * 2), true)
    } else {
        let num = o_ideal.mul(&o_last.add(&Q::int(1))).mul(&Q::int(T)).mul(&Q::int(l));
        let den = o_last.mul(&o_ideal.add(&Q::int(1))).mul(&Q::int(d_sec));
        let raw = num.div(&den).floor();
        let max_len = std::cmp::min(MAX_LEN, l * 2);
        let min_len = std::cmp::max(MIN_LEN, l / 2);
        if raw > BigUint::from(max_len) {
            (max_len, true)
        } else if raw < BigUint::from(min_len) {
            (min_len, true)
        } else {
            (raw.to_bytes_le().iter().rev().fold(0u64, |a, b| (a << 8) | *b as u64), false)
        }
    };
    let num = Q(&rate * BigUint::from(T), one.clone());
    let den = if bound {
        if u == 0 {
            Q::int(next_len)
        } else {
            let recip = o_last.add(&Q::int(1)).mul(&Q::int(T)).mul(&Q::int(l)).div(&o_last.mul(&Q::int(d_sec)).mul(&Q::int(next_len))).sat_sub_int(1);
            if recip.is_zero() {
                o_ideal.add(&Q::int(1)).mul(&Q::int(next_len))
            } else {
                Q::int(1).div(&recip).add(&Q::int(1)).mul(&Q::int(next_len))
            }
        }
    } else {
        o_ideal.add(&Q::int(1)).mul(&Q::int(next_len))
    };
    let diff = if num.gt(&den) { num.div(&den).floor() } else { one };
    RefNext { length: next_len, difficulty: diff, hash_rate: rate }
}

fn u256_from_big(b: &BigUint) -> Option<U256> {
    let bytes = b.to_bytes_le();
    if bytes.len() > 32 {
        return None;
    }
    let mut a = [0u8; 32];
    a[..bytes.len()].copy_from_slice(&bytes);
    Some(U256::from_little_endian(&a).unwrap())
}

fn epoch_grid(report: &mut Report) {
    let cons = consensus();
    let lengths = [300u64, 301, 599, 600, 1000, 1799, 1800];
    let durations_ms = [1u64, 999, 1000, 1_000 * T / 8, 1_000 * (T / 2) - 1, 1_000 * T / 2, 1_000 * T, 2_000 * T, 2_000 * T + 1, 8_000 * T, 1u64 << 53];
    let difficulties: Vec<U256> = vec![U256::from(1u64), U256::from(2u64), U256::from((1u64 << 32) - 1), U256::from(1u64 << 63) * U256::from(2u64), (U256::from(1u64) << 128) + U256::from(1u64), U256::from(1u64) << 200];
    let mut cases = vec![];
    for &l in &lengths {
        for &u in &[0u64, 1, l / 40 - 1, l / 40, l / 40 + 1, l, 2 * l] {
            for &d in &durations_ms {
                for diff in &difficulties {
                    cases.push((l, u, d, diff.clone()));
                }
            }
        }
    }
    let results: Vec<Report> = cases
        .par_iter()
        .map(|(l, u, d, diff)| {
            let mut r = Report::new();
            // previous hash rate relative to the raw estimate h
            let d_sec = std::cmp::max(d / 1000, 1);
            let h = big(diff) * BigUint::from(l + u) / BigUint::from(d_sec);
            let two = BigUint::from(2u32);
            let one = BigUint::from(1u32);
            let three = BigUint::from(3u32);
            let mut prevs: Vec<BigUint> = vec![one.clone(), &h / &two, &h / &two + &one, h.clone(), &h * &two, &h * &two + &one, &h * &two + &two, &h * &two + &three, &h * &three, &h * &three + &one, &h * BigUint::from(4u32) + &one, &h / &three, BigUint::from(0u32)];
            if h > two {
                prevs.push(&h / &two - &one);
                prevs.push(&h * &two - &one);
            }
            for prev in prevs {
                let Some(prev_u) = u256_from_big(&prev) else { continue };
                let compact = difficulty_to_compact(diff.clone());
                let actual_diff = compact_to_difficulty(compact);
                if actual_diff.is_zero() {
                    continue;
                }
                let epoch = EpochExt::new_builder()
                    .number(7)
                    .base_block_reward(Capacity::shannons(1_000))
                    .remainder_reward(Capacity::shannons(3))
                    .previous_epoch_hash_rate(prev_u.clone())
                    .last_block_hash_in_previous_epoch(packed::Byte32::zero())
                    .start_number(10_000)
                    .length(*l)
                    .compact_target(compact)
                    .build();
                let header = HeaderBuilder::default().number(10_000 + l - 1).compact_target(compact).epoch(EpochNumberWithFraction::new(7, l - 1, *l)).build();
                let stub = Stub { epoch: epoch.clone(), uncles: *u, duration_ms: *d };
                let label = json!({"family": "next_epoch", "length": l, "uncles": u, "duration_ms": d, "last_difficulty": format!("{actual_diff:#x}"), "previous_hash_rate": format!("{prev_u:#x}")});
                r.evaluations += 1;
                let out = std::panic::catch_unwind(|| cons.next_epoch_ext(&header, &stub));
                let next = match out {
                    Ok(Some(n)) => n.epoch(),
                    Ok(None) => {
                        r.violation("next-epoch/none", "next_epoch_ext returned None", label);
                        continue;
                    }
                    Err(_) => {
                        r.violation("next-epoch/panic", "next_epoch_ext panicked (arithmetic overflow?)", label);
                        continue;
                    }
                };
                let want = reference(&big(&actual_diff), *l, *u, *d, &prev);
                // representability: the reference value must fit the implementation's types to be compared
                let Some(want_diff) = u256_from_big(&want.difficulty) else { continue };
                let Some(want_rate) = u256_from_big(&want.hash_rate) else { continue };
                let mut bad = vec![];
                if next.length() != want.length {
                    bad.push(format!("length {} != {}", next.length(), want.length));
                }
                if next.length() < MIN_LEN.min(*l / 2).max(1) || next.length() > MAX_LEN || next.length() > l * 2 || next.length() < l / 2 {
                    bad.push(format!("length {} outside [min,max] and [L/2,2L] of L={l}", next.length()));
                }
                if next.compact_target() != ref_difficulty_to_compact(&big(&want_diff)) {
                    bad.push(format!("compact target {:#x} != compact(reference difficulty {:#x}) = {:#x}", next.compact_target(), want_diff, ref_difficulty_to_compact(&big(&want_diff))));
                }
                if compact_to_difficulty(next.compact_target()).is_zero() {
                    bad.push("next difficulty is zero".into());
                }
                if next.previous_epoch_hash_rate() != &want_rate {
                    bad.push(format!("adjusted hash rate {:#x} != {:#x}", next.previous_epoch_hash_rate(), want_rate));
                }
                if next.number() != 8 || next.start_number() != 10_000 + l || next.last_block_hash_in_previous_epoch() != header.hash() {
                    bad.push("number / start_number / last hash chaining broken".into());
                }
                // rewards of the new epoch sum to the schedule
                let total: u64 = next.base_block_reward().as_u64() * next.length() + next.remainder_reward().as_u64();
                if total != epoch.base_block_reward().as_u64() * epoch.length() + epoch.remainder_reward().as_u64() {
                    bad.push(format!("primary reward of next epoch {total} != previous epoch's (no halving due)"));
                }
                if !bad.is_empty() {
                    r.violation(format!("next-epoch/{}", if bad[0].starts_with("length") { "length" } else if bad[0].starts_with("compact") { "difficulty" } else { "other" }), bad.join("; "), label);
                }
                r.outcomes.insert(fp(&(next.length(), next.compact_target() >> 20)));
                r.nontrivial.insert(fp(&(l, u, d, compact, &prev_u.to_le_bytes())));
            }
            r
        })
        .collect();
    for r in results {
        report.merge(r);
    }
    report.sample(json!({"family": "next_epoch", "grid": {"lengths": lengths, "durations_ms": durations_ms, "uncle_points_per_length": 7, "difficulties": 6, "previous_hash_rate_points": 9}}));
}

fn rewards(report: &mut Report) {
    let rewards = [1_917_808_21917808u64, 1_917_808_21917808 >> 1, 1_917_808_21917808 >> 2, 1_917_808_21917808 >> 16, 1, 1799, 1800, 1801, 0];
    let rs: Vec<Report> = (1..=MAX_LEN)
        .into_par_iter()
        .map(|l| {
            let mut r = Report::new();
            for &reward in &rewards {
                let e = EpochExt::new_builder()
                    .number(3)
                    .base_block_reward(Capacity::shannons(reward / l))
                    .remainder_reward(Capacity::shannons(reward % l))
                    .previous_epoch_hash_rate(U256::one())
                    .last_block_hash_in_previous_epoch(packed::Byte32::zero())
                    .start_number(500)
                    .length(l)
                    .compact_target(0x2080_0000)
                    .build();
                let mut sum = 0u128;
                let mut sum2 = 0u128;
                let mut plus_one_prefix_ok = true;
                for n in 500..500 + l {
                    let b = e.block_reward(n).map(|c| c.as_u64()).unwrap_or(u64::MAX);
                    sum += b as u128;
                    let want = reward / l + if n - 500 < reward % l { 1 } else { 0 };
                    if b != want {
                        plus_one_prefix_ok = false;
                    }
                    let s = e.secondary_block_issuance(n, Capacity::shannons(reward)).map(|c| c.as_u64()).unwrap_or(u64::MAX);
                    sum2 += s as u128;
                    if s != want {
                        plus_one_prefix_ok = false;
                    }
                }
                r.evaluations += 1;
                r.transitions += l;
                if sum != reward as u128 || sum2 != reward as u128 || !plus_one_prefix_ok {
                    r.violation("rewards/epoch-sum", format!("epoch length {l}, epoch reward {reward}: block rewards sum to {sum} (primary) / {sum2} (secondary), first-remainder-blocks rule ok={plus_one_prefix_ok}"), json!({"family": "rewards", "length": l, "reward": reward}));
                }
                r.outcomes.insert(fp(&(reward % l == 0, reward / l == 0)));
                if reward % l != 0 {
                    r.nontrivial.insert(fp(&(l, reward)));
                }
            }
            r
        })
        .collect();
    for r in rs {
        report.merge(r);
    }
    // halving schedule
    let cons = consensus();
    let interval = cons.primary_epoch_reward_halving_interval();
    for k in 0..70u64 {
        for off in [0u64, 1, interval - 1] {
            let e = k * interval + off;
            let want = if k >= 64 { 0 } else { cons.initial_primary_epoch_reward().as_u64() >> k };
            report.evaluations += 1;
            let got = std::panic::catch_unwind(|| cons.primary_epoch_reward(e).as_u64());
            match got {
                Ok(g) if g == want => {}
                other => report.violation("rewards/halving", format!("primary_epoch_reward(epoch {e}) = {other:?}, schedule says {want}"), json!({"family": "halving", "epoch": e})),
            }
        }
    }
    report.sample(json!({"family": "rewards", "epoch_lengths": "1..=1800", "epoch_rewards": rewards}));
}

fn fractions(report: &mut Report) {
    // all pairs with number<=3, length<=5, index<=5 (ill-formed included)
    let mut all = vec![];
    for n in 0..=3u64 {
        for l in 0..=5u64 {
            for i in 0..=5u64 {
                all.push(EpochNumberWithFraction::new_unchecked(n, i, l));
            }
        }
    }
    for a in &all {
        let mut succ = 0;
        for b in &all {
            report.evaluations += 1;
            let is = b.is_successor_of(*a);
            // specification: within an epoch index+1 with the same length and number; at the end
            // of an epoch number+1 and index 0 (any length)
            let want = if a.index() + 1 == a.length() { b.number() == a.number() + 1 && b.index() == 0 } else { b.number() == a.number() && b.index() == a.index() + 1 && b.length() == a.length() };
            if is != want {
                report.violation("fraction/successor", format!("{a} -> {b}: is_successor_of = {is}, spec = {want}"), json!({"family": "fraction", "a": a.full_value(), "b": b.full_value()}));
            }
            if is && a.is_well_formed() && b.is_well_formed() && b.length() == a.length() {
                succ += 1;
            }
        }
        // gap-freeness: a well-formed value has exactly one same-length successor inside the epoch
        if a.is_well_formed() && a.index() + 1 < a.length() && succ != 1 {
            report.violation("fraction/gap", format!("{a} has {succ} successors of the same epoch"), json!({"family": "fraction", "a": a.full_value()}));
        }
    }
    report.nontrivial.insert(fp(&"fractions"));
}

/// Reference encoder, written from the format: target = floor(2^256 / difficulty) (difficulty 1:
/// the largest representable target), compact = (number of bytes of the target) << 24 | its top
/// three bytes (all 24 bits of the mantissa are used).
fn ref_difficulty_to_compact(d: &BigUint) -> u32 {
    let one = BigUint::from(1u32);
    let max: BigUint = (&one << 256) - &one;
    let target: BigUint = if *d <= one { max.clone() } else { ((&one << 256) / d).min(max) };
    let bytes = target.to_bytes_be();
    let bytes: Vec<u8> = if target == BigUint::from(0u32) { vec![] } else { bytes };
    let mut size = bytes.len() as u32;
    let mut mant: u32 = if size <= 3 {
        let mut v = 0u32;
        for b in &bytes {
            v = (v << 8) | *b as u32;
        }
        v << (8 * (3 - size))
    } else {
        ((bytes[0] as u32) << 16) | ((bytes[1] as u32) << 8) | bytes[2] as u32
    };
    // (ckb's format uses all 24 bits of the mantissa: there is no sign bit to keep clear)
    let _ = &mut size;
    let _ = &mut mant;
    (size << 24) | mant
}

fn difficulty_encoding(report: &mut Report) {
    // every power of two, its neighbours, and multiples that fill the mantissa
    let one = BigUint::from(1u32);
    let mut ds: Vec<BigUint> = vec![];
    for k in 0..=255usize {
        let p = &one << k;
        ds.push(p.clone());
        ds.push(&p + &one);
        if k > 0 {
            ds.push(&p - &one);
        }
        ds.push(&p * 3u32);
        ds.push(&p * 0x7fffffu32);
        ds.push(&p * 0xffffffu32);
    }
    let max: BigUint = (&one << 256) - &one;
    for d in ds {
        if d > max || d == BigUint::from(0u32) {
            continue;
        }
        let bytes = d.to_bytes_le();
        let mut le = [0u8; 32];
        le[..bytes.len()].copy_from_slice(&bytes);
        let du = U256::from_little_endian(&le).expect("u256");
        let got = difficulty_to_compact(du.clone());
        let want = ref_difficulty_to_compact(&d);
        report.evaluations += 1;
        if got != want {
            report.violation("compact/difficulty-encoding", format!("difficulty_to_compact({du:#x}) = {got:#010x}, the format gives {want:#010x}"), json!({"family": "difficulty-encoding", "difficulty": format!("{du:#x}")}));
        }
    }
    report.nontrivial.insert(fp(&"difficulty-encoding"));
}

fn compact_laws(ctx: &Ctx, report: &mut Report) {
    difficulty_encoding(report);
    let check = |c: u32, r: &mut Report| {
        let (t, overflow) = compact_to_target(c);
        let exponent = c >> 24;
        let mantissa = c & 0x00ff_ffff;
        // spec of the format: N = mantissa * 256^(exponent-3)
        let want_t: BigUint = if exponent <= 3 { BigUint::from(mantissa >> (8 * (3 - exponent))) } else { BigUint::from(mantissa) << (8 * (exponent as usize - 3)) };
        let want_overflow = mantissa != 0 && exponent > 32;
        if overflow != want_overflow {
            r.violation("compact/overflow-flag", format!("compact {c:#010x}: overflow flag {overflow}, spec {want_overflow}"), json!({"family": "compact", "compact": c}));
        }
        if !want_overflow && exponent <= 34 {
            let mask: BigUint = (BigUint::from(1u32) << 256) - BigUint::from(1u32);
            if big(&t) != (&want_t & &mask) {
                r.violation("compact/target-value", format!("compact {c:#010x}: target {t:#x}, spec {want_t:#x}"), json!({"family": "compact", "compact": c}));
            }
        }
        if overflow || t.is_zero() {
            if !compact_to_difficulty(c).is_zero() {
                r.violation("compact/invalid-has-difficulty", format!("compact {c:#010x} is invalid but has a difficulty"), json!({"family": "compact", "compact": c}));
            }
            return;
        }
        // canonical re-encoding is a fixed point and denotes the same target
        let c2 = target_to_compact(t.clone());
        let (t2, o2) = compact_to_target(c2);
        if o2 || t2 != t && {
            // re-encoding may only drop bits the compact format cannot hold: t2 <= t and same top 3 bytes
            t2 > t
        } {
            r.violation("compact/roundtrip", format!("compact {c:#010x} -> target {t:#x} -> compact {c2:#010x} -> target {t2:#x}"), json!({"family": "compact", "compact": c}));
        }
        if target_to_compact(t2.clone()) != c2 {
            r.violation("compact/not-idempotent", format!("target_to_compact is not idempotent at {c2:#010x}"), json!({"family": "compact", "compact": c}));
        }
        // difficulty = floor(2^256 / target), except target 1 -> max
        let d = compact_to_difficulty(c);
        let want_d = if want_t == BigUint::from(1u32) { (BigUint::from(1u32) << 256) - BigUint::from(1u32) } else { (BigUint::from(1u32) << 256) / &want_t };
        if big(&d) != want_d {
            r.violation("compact/difficulty-value", format!("compact {c:#010x}: difficulty {d:#x}, spec {want_d:#x}"), json!({"family": "compact", "compact": c}));
        }
        // fixed point of difficulty -> compact -> difficulty
        let c3 = difficulty_to_compact(d.clone());
        if c3 != ref_difficulty_to_compact(&want_d) {
            r.violation("compact/difficulty-encoding", format!("difficulty_to_compact({d:#x}) = {c3:#010x}, the format gives {:#010x}", ref_difficulty_to_compact(&want_d)), json!({"family": "compact", "compact": c}));
        }
        let d3 = compact_to_difficulty(c3);
        if difficulty_to_compact(d3.clone()) != c3 {
            r.violation("compact/difficulty-fixed-point", format!("difficulty_to_compact(compact_to_difficulty({c3:#010x})) != {c3:#010x}"), json!({"family": "compact", "compact": c}));
        }
    };
    if ctx.tier.is_thorough() {
        // all 2^32 values, split by the top 12 bits
        let rs: Vec<Report> = (0u32..4096)
            .into_par_iter()
            .map(|hi| {
                let mut r = Report::new();
                if ctx.out_of_time() {
                    r.cap_hit = Some("compact sweep: wall budget".into());
                    return r;
                }
                for lo in 0u32..(1 << 20) {
                    check((hi << 20) | lo, &mut r);
                }
                r.evaluations += 1 << 20;
                r
            })
            .collect();
        for r in rs {
            report.merge(r);
        }
    } else {
        let mut r = Report::new();
        for e in 0u32..=255 {
            for m in [0u32, 1, 2, 0xff, 0x100, 0xffff, 0x10000, 0x7fffff, 0x800000, 0xfffffe, 0xffffff] {
                check((e << 24) | m, &mut r);
                r.evaluations += 1;
            }
        }
        report.merge(r);
    }
    // monotonicity: difficulty non-increasing in target over consecutive canonical compacts
    let mut prev: Option<(U256, U256)> = None;
    for e in 1u32..=32 {
        for m in [0x008000u32, 0x00ffff, 0x010000, 0x400000, 0x7fffff] {
            let c = (e << 24) | m;
            let (t, o) = compact_to_target(c);
            if o || t.is_zero() {
                continue;
            }
            let d = compact_to_difficulty(c);
            if let Some((pt, pd)) = &prev {
                report.evaluations += 1;
                if (&t > pt && &d > pd) || (&t < pt && &d < pd) {
                    report.violation("compact/monotone", format!("target {t:#x} vs {pt:#x} but difficulty {d:#x} vs {pd:#x}"), json!({"family": "compact-monotone", "compact": c}));
                }
            }
            prev = Some((t, d));
        }
    }
    report.nontrivial.insert(fp(&"compact"));
    report.sample(json!({"family": "compact", "swept": if ctx.tier.is_thorough() { "all 2^32 values" } else { "256 exponents x 11 mantissas" }}));
}

fn pow(report: &mut Report) {
    let engine = Pow::Eaglesong.engine();
    // targets around the magnitude of the hash so that both verdicts occur
    let compacts: Vec<u32> = vec![0x2100_ffff, 0x2080_0000, 0x207f_ffff, 0x2040_0000, 0x2010_0000, 0x2001_0000, 0x1f00_ffff, 0x1e00_ffff, 0x2000_0001, 0x2100_0001, 0x2200_0001, 0x0300_0000, 0x0100_0001];
    for (ci, c) in compacts.iter().enumerate() {
        for nonce in 0u128..64 {
            let header = HeaderBuilder::default().number(5u64).timestamp(1000u64 + ci as u64).compact_target(*c).nonce(nonce).build();
            let packed_header = header.data();
            let got = engine.verify(&packed_header);
            // independent evaluation
            let input = pow_message(&packed_header.as_reader().calc_pow_hash(), nonce);
            let mut out = [0u8; 32];
            eaglesong_hash(&input, &mut out);
            let o = BigUint::from_bytes_be(&out);
            let exponent = c >> 24;
            let mantissa = c & 0xff_ffff;
            let target: BigUint = if exponent <= 3 { BigUint::from(mantissa >> (8 * (3 - exponent))) } else { BigUint::from(mantissa) << (8 * (exponent as usize - 3)) };
            let invalid = (mantissa != 0 && exponent > 32) || target == BigUint::from(0u32);
            let want = !invalid && o <= target;
            report.evaluations += 1;
            report.outcomes.insert(fp(&(got, invalid)));
            if got != want {
                report.violation("pow/accept", format!("Eaglesong verify(compact {c:#010x}, nonce {nonce}) = {got}, hash<=target is {want}"), json!({"family": "pow", "compact": c, "nonce": nonce as u64}));
            }
            if got {
                report.nontrivial.insert(fp(&(c, nonce as u64)));
            }
        }
    }
    report.sample(json!({"family": "pow", "compacts": compacts.len(), "nonces_each": 64}));
}

fn eaglesong_hash(input: &[u8], out: &mut [u8; 32]) {
    eaglesong::eaglesong(input, out)
}

pub fn meta(tier: Tier) -> Meta {
    Meta {
        id: "C07",
        level: "exploration",
        rule: "exhaustive sweeps of finite lattices of the pure arithmetic functions: (1) next_epoch_ext on the cartesian grid lengths{7} x uncles{7} x durations{11} x difficulties{6} x previous-hash-rate{up to 15 points around both clamp boundaries}; (2) every epoch length 1..=1800 x 9 epoch rewards x every block index, plus the halving schedule; (3) all EpochNumberWithFraction pairs with number<=3,length<=5,index<=5; (4) compact/target/difficulty laws on all exponents x 11 mantissas (quick) or ALL 2^32 compact values (thorough); (5) Eaglesong acceptance on 13 targets x 64 nonces; (6) the statistics next_epoch_ext is fed with: the trait's default EpochProvider::get_block_epoch over a store holding two 12-block chains (3 epochs of 4) that fork at every height 1..=11, side-chain block interval {8 s, 10 s, 8.001 s} x uncles per block {0,1} x either chain being the main one, for every block of both chains: tail recognition, duration and uncle count measured against the last block of the previous epoch on the block's own chain; (7) the epoch record next_epoch_ext returns after an epoch of length g in {1..12, 40, 100, 1000, 1800}, with the duration target for {1..12, 40, 100, 1000, 1800} blocks, permanent and dynamic difficulty, 4 epoch rewards x 3 (uncles, duration) statistics: its block rewards over its own length sum to the scheduled primary issuance with the remainder on the first blocks, and under permanent difficulty its length is the duration target's. A case is non-trivial when it lies in the dynamic branch with a representable reference value / has a non-zero remainder / verifies; distinct by its parameters.",
        assumptions: &["reference = RFC 0020 formulas in exact big-integer rationals (num-bigint-dig); values whose reference result does not fit U256 are skipped", "Eaglesong output recomputed with the same eaglesong crate; only the comparison against the target is independent"],
        bounds: json!({"compact_sweep": if tier.is_thorough() { "2^32" } else { "256x11" }}),
    }
}


// ---- (6) the statistics next_epoch_ext is fed with: EpochProvider::get_block_epoch on forks ----
//
// The trait's own (default) get_block_epoch over a store that holds two chains sharing a prefix:
// for every tail block of an epoch - on the main chain and on the side chain - the duration and
// uncle count must be measured against the last block of the previous epoch ON THAT CHAIN.

struct ForkStore {
    headers: std::collections::HashMap<packed::Byte32, HeaderView>,
    exts: std::collections::HashMap<packed::Byte32, BlockExt>,
    epochs: std::collections::HashMap<packed::Byte32, EpochExt>,
    main: std::collections::HashMap<BlockNumber, packed::Byte32>,
}

impl EpochProvider for ForkStore {
    fn get_epoch_ext(&self, h: &HeaderView) -> Option<EpochExt> {
        self.epochs.get(&h.hash()).cloned()
    }
    fn get_block_hash(&self, n: BlockNumber) -> Option<packed::Byte32> {
        self.main.get(&n).cloned()
    }
    fn get_block_ext(&self, h: &packed::Byte32) -> Option<BlockExt> {
        self.exts.get(h).cloned()
    }
    fn get_block_header(&self, h: &packed::Byte32) -> Option<HeaderView> {
        self.headers.get(h).cloned()
    }
    // get_block_epoch: the trait's default, which is what the node runs
}

fn fork_statistics(report: &mut Report) {
    const L: u64 = 4; // epoch length; epochs 0 (blocks 0..=3), 1 (4..=7), 2 (8..=11)
    let ext = |uncles: u64| BlockExt { received_at: 0, total_difficulty: U256::zero(), total_uncles_count: uncles, verified: Some(true), txs_fees: vec![], cycles: None, txs_sizes: None };
    for fork_at in 1..=11u64 {
        for step_b in [8_000u64, 10_000, 8_001] {
            for uncles_b in [0u64, 1] {
                for main_is_b in [false, true] {
                    let mut store = ForkStore { headers: Default::default(), exts: Default::default(), epochs: Default::default(), main: Default::default() };
                    // chain[c][n]
                    let mut chains: Vec<Vec<HeaderView>> = vec![vec![], vec![]];
                    let mut uncle_totals: Vec<Vec<u64>> = vec![vec![], vec![]];
                    for c in 0..2usize {
                        let mut parent = packed::Byte32::zero();
                        let mut ts = 1_000_000u64;
                        let mut total_uncles = 0u64;
                        for n in 0..=11u64 {
                            let forked = c == 1 && n >= fork_at;
                            if n > 0 {
                                ts += if forked { step_b } else { 8_000 };
                                total_uncles += if forked { uncles_b } else { 0 };
                            }
                            let e = n / L;
                            let header = if c == 1 && n < fork_at {
                                chains[0][n as usize].clone()
                            } else {
                                HeaderBuilder::default().number(n).parent_hash(parent.clone()).timestamp(ts).nonce(c as u128).epoch(EpochNumberWithFraction::new(e, n % L, L)).build()
                            };
                            let last_prev = if e == 0 { packed::Byte32::zero() } else { chains[c].get((e * L - 1) as usize).map(|h: &HeaderView| h.hash()).unwrap() };
                            let epoch = EpochExt::new_builder().number(e).base_block_reward(Capacity::shannons(1_000)).remainder_reward(Capacity::shannons(3)).previous_epoch_hash_rate(U256::one()).last_block_hash_in_previous_epoch(last_prev).start_number(e * L).length(L).compact_target(0x2001_0000).build();
                            store.headers.insert(header.hash(), header.clone());
                            store.exts.insert(header.hash(), ext(total_uncles));
                            store.epochs.insert(header.hash(), epoch);
                            if (c == 1) == main_is_b {
                                store.main.insert(n, header.hash());
                            }
                            parent = header.hash();
                            chains[c].push(header);
                            uncle_totals[c].push(total_uncles);
                        }
                    }
                    for c in 0..2usize {
                        for n in 0..=11u64 {
                            let header = &chains[c][n as usize];
                            let label = json!({"family": "fork-statistics", "fork_at": fork_at, "side_step_ms": step_b, "side_uncles_per_block": uncles_b, "main_chain_is_side": main_is_b, "chain": c, "block": n});
                            report.evaluations += 1;
                            let got = std::panic::catch_unwind(std::panic::AssertUnwindSafe(|| store.get_block_epoch(header)));
                            let is_tail = n % L == L - 1;
                            match got {
                                Err(_) => report.violation("fork-statistics/panic", format!("get_block_epoch panicked for block {n} of chain {c}"), label),
                                Ok(None) => report.violation("fork-statistics/none", format!("get_block_epoch answered None for block {n} of chain {c}"), label),
                                Ok(Some(BlockEpoch::NonTailBlock { epoch })) => {
                                    if is_tail || epoch.number() != n / L {
                                        report.violation("fork-statistics/tail-missed", format!("block {n} (epoch length {L}) was not recognised as the epoch's tail"), label);
                                    }
                                }
                                Ok(Some(BlockEpoch::TailBlock { epoch, epoch_uncles_count, epoch_duration_in_milliseconds })) => {
                                    let base = (n / L * L).saturating_sub(1) as usize;
                                    let want_d = header.timestamp() - chains[c][base].timestamp();
                                    let want_u = uncle_totals[c][n as usize] - uncle_totals[c][base];
                                    report.nontrivial.insert(fp(&(fork_at, step_b, uncles_b, main_is_b, c, n)));
                                    report.outcomes.insert(fp(&("fork-stat", want_d, want_u)));
                                    if !is_tail || epoch.number() != n / L {
                                        report.violation("fork-statistics/not-a-tail", format!("block {n} reported as tail of epoch {}", epoch.number()), label);
                                    } else if epoch_duration_in_milliseconds != want_d || epoch_uncles_count != want_u {
                                        report.violation("fork-statistics/wrong-base-block", format!("tail block {n} of {} chain (fork at {fork_at}): duration {epoch_duration_in_milliseconds} ms / {epoch_uncles_count} uncles, measured on its own chain {want_d} ms / {want_u} uncles", if (c == 1) == main_is_b { "the main" } else { "the side" }), label);
                                    }
                                }
                            }
                        }
                    }
                }
            }
        }
    }
}

/// (7) the epoch record `next_epoch_ext` hands out distributes exactly the scheduled primary issuance
/// over ITS OWN length, also when the length changes at the boundary: dynamic difficulty (the grid's
/// statistics move the length) and permanent difficulty with a genesis epoch whose length differs
/// from the later epochs' (production dev chains: 1000, then 1800).
fn next_epoch_rewards(report: &mut Report) {
    let lens: Vec<u64> = (1..=12u64).chain([40, 100, 1000, 1800]).collect();
    for permanent in [true, false] {
        for &g in &lens {
            for &later in &lens {
                // (in the dynamic mode `later` only sets the duration target: the length follows the statistics)
                for reward in [1_917_808_21917808u64, 1_917_808_21917811, 7, 1] {
                    let genesis = crate::world::genesis_block_with_target(difficulty_to_compact(U256::from(1_000_000u64)));
                    let ge = build_genesis_epoch_ext(Capacity::shannons(reward), genesis.compact_target(), g, later * 8, (1, 40));
                    let cons = ConsensusBuilder::new(genesis, ge).initial_primary_epoch_reward(Capacity::shannons(reward)).permanent_difficulty_in_dummy(permanent).epoch_duration_target(later * 8).build();
                    let prev = cons.genesis_epoch_ext().clone();
                    let header = HeaderBuilder::default().number(g - 1).compact_target(prev.compact_target()).epoch(EpochNumberWithFraction::new(0, g - 1, g)).build();
                    for (uncles, duration_ms) in [(0u64, later * 8_000), (g / 20, g * 8_000), (0, g * 2_000)] {
                        let stub = Stub { epoch: prev.clone(), uncles, duration_ms };
                        let label = json!({"family": "next_epoch_rewards", "permanent_difficulty": permanent, "previous_length": g, "epoch_duration_target_s": later * 8, "epoch_reward": reward, "uncles": uncles, "duration_ms": duration_ms});
                        report.evaluations += 1;
                        let next = match std::panic::catch_unwind(|| cons.next_epoch_ext(&header, &stub)) {
                            Ok(Some(n)) => n.epoch(),
                            _ => {
                                report.violation("next-epoch-rewards/none-or-panic", "next_epoch_ext returned None or panicked", label);
                                continue;
                            }
                        };
                        let l = next.length();
                        if permanent && l != later {
                            report.violation("next-epoch-rewards/permanent-length", format!("permanent difficulty: the next epoch has {l} blocks, the duration target gives {later}"), label.clone());
                        }
                        if next.number() != 1 || next.start_number() != g {
                            report.violation("next-epoch-rewards/chaining", format!("next epoch is number {} starting at {}", next.number(), next.start_number()), label.clone());
                        }
                        let want_total = cons.primary_epoch_reward(next.number()).as_u64();
                        let mut sum = 0u128;
                        let mut prefix_ok = true;
                        for n in next.start_number()..next.start_number() + l {
                            let b = next.block_reward(n).map(|c| c.as_u64()).unwrap_or(u64::MAX);
                            sum += b as u128;
                            if b != want_total / l + if n - next.start_number() < want_total % l { 1 } else { 0 } {
                                prefix_ok = false;
                            }
                        }
                        report.transitions += l;
                        if sum != want_total as u128 || !prefix_ok {
                            report.violation("next-epoch-rewards/epoch-sum", format!("the epoch after a {g}-block epoch has {l} blocks; their primary rewards sum to {sum}, the schedule gives {want_total} (first-remainder-blocks rule ok = {prefix_ok})"), label.clone());
                        } else if l != g {
                            report.nontrivial.insert(fp(&(permanent, g, l, reward)));
                        }
                        report.outcomes.insert(fp(&("next-epoch-rewards", permanent, l != g, want_total % l == 0)));
                    }
                }
            }
        }
    }
}

pub fn run(ctx: &Ctx) -> Report {
    let mut report = Report::new();
    // silence panics from catch_unwind probes
    if std::env::var("VERIF_PANICS").is_err() { std::panic::set_hook(Box::new(|_| {})); }
    epoch_grid(&mut report);
    rewards(&mut report);
    fractions(&mut report);
    compact_laws(ctx, &mut report);
    pow(&mut report);
    fork_statistics(&mut report);
    next_epoch_rewards(&mut report);
    let _ = std::panic::take_hook();
    report.traces = report.evaluations;
    report.states.insert(1);
    report.transitions = report.transitions.max(1);
    report
}
