use crate::Prop;
pub mod c01;
pub mod c02;
pub mod c03;
pub mod c04;
pub mod c05;
pub mod c06;
pub mod c07;
pub mod c08;
pub mod c09;
pub mod c10;
pub mod c11;
pub mod c12;
pub mod c13;
pub mod c14;
pub mod c15;
pub mod c16;
pub mod c17;
pub mod c18;
pub mod c19;
pub mod c20;
pub mod smoke;

pub fn all() -> Vec<Prop> {
    vec![Prop { id: "C01", sharded: true, meta: c01::meta, run: c01::run, budget: (50, 1500) }, Prop { id: "C02", sharded: true, meta: c02::meta, run: c02::run, budget: (50, 1500) }, Prop { id: "C20", sharded: true, meta: c20::meta, run: c20::run, budget: (50, 1500) }, Prop { id: "C08", sharded: true, meta: c08::meta, run: c08::run, budget: (60, 2400) }, Prop { id: "C10", sharded: true, meta: c10::meta, run: c10::run, budget: (60, 1200) }, Prop { id: "C17", sharded: true, meta: c17::meta, run: c17::run, budget: (50, 1200) }, Prop { id: "C07", sharded: false, meta: c07::meta, run: c07::run, budget: (50, 1500) }, Prop { id: "C15", sharded: false, meta: c15::meta, run: c15::run, budget: (50, 600) }, Prop { id: "C16", sharded: true, meta: c16::meta, run: c16::run, budget: (50, 900) }, Prop { id: "C05", sharded: false, meta: c05::meta, run: c05::run, budget: (55, 1500) }, Prop { id: "C11", sharded: true, meta: c11::meta, run: c11::run, budget: (55, 1500) }, Prop { id: "C12", sharded: true, meta: c12::meta, run: c12::run, budget: (55, 1800) }, Prop { id: "C13", sharded: true, meta: c13::meta, run: c13::run, budget: (55, 1800) }, Prop { id: "C14", sharded: true, meta: c14::meta, run: c14::run, budget: (55, 1800) }, Prop { id: "C18", sharded: true, meta: c18::meta, run: c18::run, budget: (55, 1500) }, Prop { id: "C19", sharded: true, meta: c19::meta, run: c19::run, budget: (55, 1500) }, Prop { id: "C03", sharded: false, meta: c03::meta, run: c03::run, budget: (55, 600) }, Prop { id: "C04", sharded: false, meta: c04::meta, run: c04::run, budget: (55, 600) }, Prop { id: "C06", sharded: false, meta: c06::meta, run: c06::run, budget: (55, 600) }, Prop { id: "SMOKE", sharded: false, meta: smoke::meta, run: smoke::run, budget: (60, 60) }, Prop { id: "C09", sharded: false, meta: c09::meta, run: c09::run, budget: (50, 1500) }]
}

pub fn lookup(id: &str) -> Option<Prop> {
    all().into_iter().find(|p| p.id == id)
}
