//! C11 — the transaction pool's contents and bookkeeping are always mutually consistent.
//!
//! Explicit-state search over operation histories on the real tx-pool service of a real node
//! (production wiring): Submit / Remove of 9 designed transactions (chain of 4 against an
//! ancestor limit of 3, a join, two RBF replacements - one paying enough, one not -, a cell-dep
//! user and the consumer of that dep cell), Mine (the node's own template is sealed and
//! processed: proposals move entries pending -> gap -> proposed, commits remove them),
//! AdvanceClock past the expiry.  After every operation the pool's internal dump (hook) is
//! judged by a recomputation from its contents.
use crate::core::*;
use crate::node::*;
use crate::world::*;
use ckb_app_config::TxPoolConfig;
use ckb_chain_spec::consensus::Consensus;
use ckb_tx_pool::verif::{PoolDump, dump_latest};
use ckb_types::{
    core::{FeeRate, TransactionView},
    packed::{CellDep, OutPoint, ProposalShortId},
    prelude::*,
};
use serde::{Deserialize, Serialize};
use serde_json::{Value, json};
use std::collections::{BTreeMap, BTreeSet, HashMap, HashSet};

pub const NAMES: [&str; 10] = ["A1", "A2", "A3", "A4", "J", "R", "Rlow", "Cdep", "Dsp", "R2"];

pub const DIAMOND: [&str; 8] = ["A1", "B", "C", "D", "E", "F", "R", "Rc"];

/// universe 2 (ancestor limit four): a chain P1 -> P2 -> Dd whose last member uses the confirmed
/// cell X (= G3) as a cell dep, a second dep user De without ancestors, an unrelated parent Q, and
/// two consumers of X: T (spends Q#0 + X: Dd is its parent only through the dep) and T2 (spends
/// Dd#0 + Q#1 + X: Dd is a dep user of X AND the creator of one of T2's inputs).
pub const DEPEVICT: [&str; 7] = ["P1", "P2", "Dd", "Q", "T", "T2", "De"];

pub struct PoolUniverse {
    pub variant: u8,
    pub names: Vec<&'static str>,
    pub txs: BTreeMap<&'static str, TransactionView>,
}

impl PoolUniverse {
    /// variant 0: chain of four against an ancestor limit of three, a join of two otherwise
    /// unrelated parents, two replacements, a dep user and the dep cell's spender.
    /// variant 1 (ancestor limit four): a diamond A1 -> {B, C} -> D with a tail F (one over the
    /// limit), a sibling E, a replacement of the root and a replacement of one diamond arm.
    pub fn new(cons: &Consensus, variant: u8) -> Self {
        let g = genesis_cells(cons);
        let mut txs = BTreeMap::new();
        if variant == 0 {
            let a1 = simple_tx(cons, &g[0..1], 2, 1_000_000, 1);
            let a2 = simple_tx(cons, &[out(&a1, 0)], 1, 1_100_000, 2);
            let a3 = simple_tx(cons, &[out(&a2, 0)], 1, 1_200_000, 3);
            let a4 = simple_tx(cons, &[out(&a3, 0)], 1, 1_300_000, 4);
            // replacements of A1 (same input G0): one pays more than A1 and all its descendants, one does not
            let r = simple_tx(cons, &g[0..1], 1, 9_000_000, 6);
            let rlow = simple_tx(cons, &g[0..1], 1, 1_000_100, 7);
            // a user of genesis cell G3 as a cell dep, and the consumer of G3
            let cdep = simple_tx(cons, &g[2..3], 1, 800_000, 8).as_advanced_builder().cell_dep(CellDep::new_builder().out_point(g[3].0.clone()).build()).build();
            let dsp = simple_tx(cons, &g[3..4], 1, 700_000, 9);
            // the join: one parent inside the A family, one outside it
            let j = simple_tx(cons, &[out(&a1, 1), out(&cdep, 0)], 1, 900_000, 5);
            // a replacement of two transactions that are independent of each other (A1 through G0,
            // Cdep through G2): it pays more than either of them plus the increment, and less than
            // both together
            let r2 = simple_tx(cons, &[g[0].clone(), g[2].clone()], 1, 1_500_000, 10);
            for (n, t) in NAMES.iter().zip([a1, a2, a3, a4, j, r, rlow, cdep, dsp, r2]) {
                txs.insert(*n, t);
            }
            PoolUniverse { variant, names: NAMES.to_vec(), txs }
        } else if variant == 2 {
            let x = CellDep::new_builder().out_point(g[3].0.clone()).build();
            let p1 = simple_tx(cons, &g[0..1], 1, 1_000_000, 1);
            let p2 = simple_tx(cons, &[out(&p1, 0)], 1, 1_100_000, 2);
            let dd = simple_tx(cons, &[out(&p2, 0)], 1, 1_200_000, 3).as_advanced_builder().cell_dep(x.clone()).build();
            let q = simple_tx(cons, &g[1..2], 2, 900_000, 4);
            let t = simple_tx(cons, &[out(&q, 0), g[3].clone()], 1, 3_000_000, 5);
            let t2 = simple_tx(cons, &[out(&dd, 0), out(&q, 1), g[3].clone()], 1, 3_500_000, 6);
            let de = simple_tx(cons, &g[2..3], 1, 800_000, 7).as_advanced_builder().cell_dep(x).build();
            for (n, t) in DEPEVICT.iter().zip([p1, p2, dd, q, t, t2, de]) {
                txs.insert(*n, t);
            }
            PoolUniverse { variant, names: DEPEVICT.to_vec(), txs }
        } else {
            let a1 = simple_tx(cons, &g[0..1], 2, 1_000_000, 1);
            let b = simple_tx(cons, &[out(&a1, 0)], 2, 1_100_000, 2);
            let c = simple_tx(cons, &[out(&a1, 1)], 1, 1_200_000, 3);
            let d = simple_tx(cons, &[out(&b, 0), out(&c, 0)], 1, 1_300_000, 4);
            let e = simple_tx(cons, &[out(&b, 1)], 1, 900_000, 5);
            let f = simple_tx(cons, &[out(&d, 0)], 1, 950_000, 6);
            let r = simple_tx(cons, &g[0..1], 1, 9_000_000, 7);
            // replaces C only (same input A1#1): its parent A1 stays, D and F go with C
            let rc = simple_tx(cons, &[out(&a1, 1)], 1, 5_000_000, 8);
            for (n, t) in DIAMOND.iter().zip([a1, b, c, d, e, f, r, rc]) {
                txs.insert(*n, t);
            }
            PoolUniverse { variant, names: DIAMOND.to_vec(), txs }
        }
    }
    pub fn name_of(&self, id: &ProposalShortId) -> String {
        self.txs.iter().find(|(_, t)| &t.proposal_short_id() == id).map(|(n, _)| n.to_string()).unwrap_or_else(|| format!("{id:?}"))
    }
    pub fn max_ancestors(&self) -> usize {
        if self.variant == 0 { 3 } else { 4 }
    }
}

#[derive(Clone, Copy, Debug, Serialize, Deserialize, PartialEq, Eq, Hash)]
pub enum Op {
    Submit(usize),
    Remove(usize),
    Mine,
    Expire,
    /// a foreign block without transactions and proposals arrives on the tip (time passes for the
    /// proposal window: a proposed transaction that is not committed in time drops out of it)
    Idle,
}

pub fn pool_config(rbf: bool, variant: u8) -> TxPoolConfig {
    let mut c = TxPoolConfig::default();
    c.max_ancestors_count = if variant == 0 { 3 } else { 4 };
    c.min_fee_rate = FeeRate::from_u64(1_000);
    c.min_rbf_rate = FeeRate::from_u64(if rbf { 1_500 } else { 1_000 });
    c.expiry_hours = 1;
    // room for about five of the universe's transactions (universe 2 is about the eviction inside
    // the ancestor check: the size limit stays out of its way)
    c.max_tx_pool_size = if variant == 2 { 100_000 } else { 1_650 };
    c
}

/// Judge one dump.  Returns (kind, message).
pub fn judge(d: &PoolDump, u: &PoolUniverse, max_ancestors: usize) -> Vec<(String, String)> {
    let mut out = vec![];
    let by_id: HashMap<ProposalShortId, &ckb_tx_pool::verif::EntryDump> = d.entries.iter().map(|e| (e.id.clone(), e)).collect();
    let name = |id: &ProposalShortId| u.name_of(id);
    // (1) no cell spent twice; input edges are exactly the inputs of pooled txs
    let mut spent: HashMap<OutPoint, ProposalShortId> = HashMap::new();
    for e in &d.entries {
        for i in e.tx.input_pts_iter() {
            if let Some(other) = spent.insert(i.clone(), e.id.clone()) {
                out.push(("double-spend".into(), format!("{} and {} both spend {}", name(&other), name(&e.id), i)));
            }
        }
    }
    let edges: HashMap<OutPoint, ProposalShortId> = d.input_edges.iter().cloned().collect();
    if edges != spent {
        let extra: Vec<String> = edges.iter().filter(|(k, _)| !spent.contains_key(*k)).map(|(_, v)| name(v)).collect();
        let missing: Vec<String> = spent.iter().filter(|(k, _)| !edges.contains_key(*k)).map(|(_, v)| name(v)).collect();
        out.push(("input-edges".into(), format!("input edge map differs from the inputs of pooled txs: stale edges of {extra:?}, missing edges of {missing:?}")));
    }
    // dep edges: exactly the cell deps of pooled txs
    let mut want_deps: HashMap<OutPoint, BTreeSet<Vec<u8>>> = HashMap::new();
    for e in &d.entries {
        for c in e.tx.cell_deps_iter() {
            want_deps.entry(c.out_point()).or_default().insert(e.id.as_slice().to_vec());
        }
    }
    let got_deps: HashMap<OutPoint, BTreeSet<Vec<u8>>> = d.dep_edges.iter().filter(|(_, v)| !v.is_empty()).map(|(k, v)| (k.clone(), v.iter().map(|i| i.as_slice().to_vec()).collect())).collect();
    // (dep groups would expand to more out points; the universe has none)
    if got_deps != want_deps {
        out.push(("dep-edges".into(), "dep edge map differs from the cell deps of pooled txs".into()));
    }
    // (2) links
    let link_ids: HashSet<ProposalShortId> = d.link_ids.iter().cloned().collect();
    let entry_ids: HashSet<ProposalShortId> = by_id.keys().cloned().collect();
    if link_ids != entry_ids {
        out.push(("links-key-set".into(), format!("links map holds {:?}, entries are {:?}", link_ids.iter().map(&name).collect::<BTreeSet<_>>(), entry_ids.iter().map(&name).collect::<BTreeSet<_>>())));
    }
    for c in &d.entries {
        let mut must: BTreeSet<Vec<u8>> = BTreeSet::new();
        let mut may: BTreeSet<Vec<u8>> = BTreeSet::new();
        for p in &d.entries {
            if p.id == c.id {
                continue;
            }
            let ph = p.tx.hash();
            let spends_output = c.tx.input_pts_iter().any(|i| i.tx_hash() == ph);
            let deps_output = c.tx.cell_deps_iter().any(|x| x.out_point().tx_hash() == ph);
            let consumes_dep_of = c.tx.input_pts_iter().any(|i| p.tx.cell_deps_iter().any(|x| x.out_point() == i));
            if spends_output || deps_output {
                must.insert(p.id.as_slice().to_vec());
            }
            if spends_output || deps_output || consumes_dep_of {
                may.insert(p.id.as_slice().to_vec());
            }
        }
        let got: BTreeSet<Vec<u8>> = c.parents.iter().map(|i| i.as_slice().to_vec()).collect();
        if !must.is_subset(&got) || !got.is_subset(&may) {
            let n = |s: &BTreeSet<Vec<u8>>| s.iter().map(|b| name(&ProposalShortId::from_slice(b).unwrap())).collect::<Vec<_>>();
            out.push(("links-parents".into(), format!("{}: recorded parents {:?}; spends/deps of pooled outputs {:?}; all justified relations {:?}", name(&c.id), n(&got), n(&must), n(&may))));
        }
        // children are the exact transpose
        for ch in &c.children {
            match by_id.get(ch) {
                Some(e) if e.parents.contains(&c.id) => {}
                _ => out.push(("links-transpose".into(), format!("{} lists child {} which does not list it as parent (or is not pooled)", name(&c.id), name(ch)))),
            }
        }
        for p in &c.parents {
            match by_id.get(p) {
                Some(e) if e.children.contains(&c.id) => {}
                _ => out.push(("links-transpose".into(), format!("{} lists parent {} which does not list it as child (or is not pooled)", name(&c.id), name(p)))),
            }
        }
    }
    // (3) aggregates = recomputation over the link closure
    let closure = |start: &ProposalShortId, up: bool| -> BTreeSet<Vec<u8>> {
        let mut seen = BTreeSet::new();
        let mut stack = vec![start.clone()];
        while let Some(x) = stack.pop() {
            if let Some(e) = by_id.get(&x) {
                for n in if up { &e.parents } else { &e.children } {
                    if seen.insert(n.as_slice().to_vec()) {
                        stack.push(n.clone());
                    }
                }
            }
        }
        seen
    };
    for e in &d.entries {
        for (up, got, what) in [(true, e.ancestors, "ancestors"), (false, e.descendants, "descendants")] {
            let cl = closure(&e.id, up);
            let mut want = (1usize, e.own.1, e.own.0, e.own.2);
            for b in &cl {
                if let Some(x) = by_id.get(&ProposalShortId::from_slice(b).unwrap()) {
                    want = (want.0 + 1, want.1 + x.own.1, want.2 + x.own.0, want.3 + x.own.2);
                }
            }
            if got != want {
                out.push((format!("aggregate-{what}"), format!("{}: {what} (count,size,cycles,fee) recorded {:?}, recomputed {:?}", name(&e.id), got, want)));
            }
        }
        // (5) ancestor limit
        if e.ancestors.0 > max_ancestors {
            out.push(("ancestor-limit".into(), format!("{} has {} ancestors (incl. itself), limit {max_ancestors}", name(&e.id), e.ancestors.0)));
        }
    }
    // (4) counters
    let cnt = |s: &str| d.entries.iter().filter(|e| e.status == s).count();
    let want = (cnt("pending"), cnt("gap"), cnt("proposed"), d.entries.iter().map(|e| e.own.1).sum::<usize>(), d.entries.iter().map(|e| e.own.0).sum::<u64>());
    if d.counters != want {
        out.push(("counters".into(), format!("(pending,gap,proposed,total_size,total_cycles) recorded {:?}, recomputed {:?}", d.counters, want)));
    }
    out
}

pub fn canon(d: &PoolDump, u: &PoolUniverse, tip: u64) -> (u64, Vec<(String, String, Vec<String>)>, Vec<String>) {
    let mut es: Vec<(String, String, Vec<String>)> = d
        .entries
        .iter()
        .map(|e| {
            let mut ps: Vec<String> = e.parents.iter().map(|p| u.name_of(p)).collect();
            ps.sort();
            (u.name_of(&e.id), e.status.clone(), ps)
        })
        .collect();
    es.sort();
    let mut cs: Vec<String> = d.conflicts.iter().map(|c| u.name_of(c)).collect();
    cs.sort();
    (tip, es, cs)
}

pub struct Driver {
    pub node: Node,
    pub cons: Consensus,
    pub u: PoolUniverse,
    pub clock: u64,
    pub mined: u64,
    pub resets: u64,
}

impl Driver {
    /// Back to "genesis tip, empty pool" without a reboot (a node with a started pool keeps its
    /// database open for the life of the process, so reboots are rationed): the chain is truncated
    /// to genesis and the pool and block assembler are reset with the genesis snapshot.  The
    /// clock is never moved backwards, so re-mined blocks differ from the detached ones.
    pub fn reset(&mut self) -> Result<(), String> {
        // whatever the last history left on its way through the verify queue arrives first
        self.node.wait_pool_synced()?;
        let genesis = self.cons.genesis_hash();
        if self.node.tip().hash() != genesis {
            self.node.chain().truncate(genesis).map_err(|e| format!("truncate: {e}"))?;
        }
        self.clock += 10 * BLOCK_INTERVAL_MS;
        set_time(self.clock);
        // candidate uncles are not part of "genesis tip, empty pool" either
        ckb_tx_pool::verif::clear_candidate_uncles();
        let snap = std::sync::Arc::clone(&self.node.shared.snapshot());
        self.node.shared.tx_pool_controller().clear_pool(snap).map_err(|e| e.to_string())?;
        self.node.wait_pool_synced()?;
        // (this node's own pool: several pool nodes may live in one process)
        let info = self.node.shared.tx_pool_controller().get_tx_pool_info().map_err(|e| e.to_string())?;
        if info.pending_size + info.proposed_size != 0 || self.node.tip().number() != 0 {
            return Err("reset did not reach the empty state".into());
        }
        self.mined = 0;
        self.resets += 1;
        Ok(())
    }

    pub fn boot(dir: &std::path::Path, cons: &Consensus, rbf: bool, variant: u8) -> Result<Driver, String> {
        let mut d = Self::boot_with(dir, cons, pool_config(rbf, variant), true)?;
        d.u = PoolUniverse::new(cons, variant);
        Ok(d)
    }

    /// wrap an already booted pool node
    pub fn adopt(node: Node, cons: &Consensus) -> Driver {
        Driver { node, cons: cons.clone(), u: PoolUniverse::new(cons, 0), clock: time_for_height(0), mined: 0, resets: 0 }
    }

    pub fn boot_with(dir: &std::path::Path, cons: &Consensus, cfg: TxPoolConfig, assembler: bool) -> Result<Driver, String> {
        let _ = std::fs::remove_dir_all(dir);
        set_time(time_for_height(0));
        let mut opts = NodeOpts::new(cons.clone()).with_pool();
        opts.assembler = assembler;
        opts.tx_pool_config = Some(cfg);
        let node = Node::boot(dir, &opts)?;
        node.wait_startup()?;
        Ok(Driver { node, cons: cons.clone(), u: PoolUniverse::new(cons, 0), clock: time_for_height(0), mined: 0, resets: 0 })
    }

    /// applies one op; returns a short observation (accepted / rejected ...)
    pub fn apply(&mut self, op: Op) -> Result<String, String> {
        let pool = self.node.shared.tx_pool_controller().clone();
        match op {
            Op::Submit(i) => {
                let tx = self.u.txs[self.u.names[i]].clone();
                let r = pool.submit_local_tx(tx).map_err(|e| e.to_string())?;
                // a successful replacement sets transactions free that were refused as its victims'
                // conflicts: they travel back through the verify queue on a task of their own
                self.node.wait_pool_synced()?;
                match r {
                    Ok(_) => Ok("accepted".into()),
                    Err(e) => Ok(format!("rejected: {}", e.to_string().split('(').next().unwrap_or("").trim())),
                }
            }
            Op::Remove(i) => {
                let h = self.u.txs[self.u.names[i]].hash();
                Ok(format!("removed={}", pool.remove_local_tx(h).map_err(|e| e.to_string())?))
            }
            Op::Mine => {
                self.clock += BLOCK_INTERVAL_MS;
                set_time(self.clock);
                let tpl = self.node.template()?;
                let block = block_from_template(tpl, None);
                self.node.process(&block).map_err(|e| format!("own template refused: {e}"))?;
                self.node.wait_pool_synced()?;
                self.mined += 1;
                Ok(format!("mined #{} txs={} proposals={}", block.number(), block.transactions().len() - 1, block.data().proposals().len()))
            }
            Op::Idle => {
                self.clock += BLOCK_INTERVAL_MS;
                set_time(self.clock);
                let snap = std::sync::Arc::clone(&self.node.shared.snapshot());
                let block = crate::forge::assemble(&snap, &crate::forge::BlockSpec { miner: 8, timestamp: Some(self.clock), ..Default::default() })?;
                self.node.process(&block).map_err(|e| format!("forged empty block refused: {e}"))?;
                self.node.wait_pool_synced()?;
                self.mined += 1;
                Ok(format!("foreign empty block #{}", block.number()))
            }
            Op::Expire => {
                // expiry is evaluated by the pool when it processes a tip change
                self.clock += 2 * 3600 * 1000;
                set_time(self.clock);
                Ok("clock+2h".into())
            }
        }
    }

    pub fn dump(&self) -> Result<PoolDump, String> {
        dump_latest().ok_or_else(|| "no pool registered".to_string())
    }
}

/// Two submissions overlap.  Submission L is started and stopped at one of the two gates between
/// the steps of a submission (after the pre-check under the read lock / before `submit_entry` takes
/// the write lock); meanwhile submission W is carried out completely; then L continues.  Every
/// ordered pair (L, W) of the universe's transactions, after every prefix out of {empty pool, one
/// pooled transaction, the universe's designed prefix}, both gates, RBF off and on.  Whatever the
/// two submissions are answered, the pool's bookkeeping must be consistent afterwards (the same
/// recomputation as after every sequential operation).
fn race_family(ctx: &Ctx, cons: &Consensus, report: &mut Report, only: Option<&Value>) -> Result<(), String> {
    let mut unit = 0u64;
    for variant in [1u8, 2, 0] {
        for rbf in [false, true] {
            let u0 = PoolUniverse::new(cons, variant);
            let n = u0.names.len();
            let mut prefixes: Vec<Vec<usize>> = vec![vec![]];
            prefixes.extend((0..n).map(|i| vec![i]));
            if variant == 2 {
                prefixes.push(["P1", "P2", "Dd", "Q"].iter().map(|x| DEPEVICT.iter().position(|y| y == x).unwrap()).collect());
            }
            if variant == 1 {
                prefixes.push(vec![0, 1]);
                prefixes.push(vec![0, 1, 2]);
            }
            let mut slot: Option<Driver> = None;
            for prefix in &prefixes {
                for l in 0..n {
                    for w in 0..n {
                        if l == w || prefix.contains(&l) || prefix.contains(&w) {
                            continue;
                        }
                        for gate in ["process_tx:after-pre-check", "process_tx:before-submit-entry"] {
                            unit += 1;
                            if let Some(v) = only {
                                if v["universe"].as_u64() != Some(variant as u64) || v["rbf"].as_bool() != Some(rbf) || v["prefix"] != json!(prefix) || v["stopped"].as_u64() != Some(l as u64) || v["overtaking"].as_u64() != Some(w as u64) || v["gate"].as_str() != Some(gate) {
                                    continue;
                                }
                            } else if !ctx.mine(unit) {
                                continue;
                            }
                            if ctx.out_of_time() {
                                report.cap_hit = Some(format!("wall budget reached in the submission-race family (universe {variant}, rbf={rbf})"));
                                if let Some(d) = slot.take() {
                                    d.node.destroy();
                                }
                                return Ok(());
                            }
                            if slot.as_ref().map(|d| d.resets >= 400).unwrap_or(false) {
                                if let Some(d) = slot.take() {
                                    d.node.destroy();
                                }
                            }
                            if slot.is_none() {
                                let k = BOOTS.fetch_add(1, std::sync::atomic::Ordering::SeqCst);
                                slot = Some(Driver::boot(&ctx.scratch.join(format!("pool-race-node-{k}")), cons, rbf, variant)?);
                            }
                            let drv = slot.as_mut().unwrap();
                            drv.reset()?;
                            for i in prefix {
                                drv.apply(Op::Submit(*i))?;
                            }
                            let label = json!({"family": "submission-race", "universe": variant, "rbf": rbf, "prefix": prefix, "stopped": l, "overtaking": w, "gate": gate});
                            let (reached_tx, reached_rx) = std::sync::mpsc::channel::<()>();
                            let (go_tx, go_rx) = std::sync::mpsc::channel::<()>();
                            let fired = std::sync::Arc::new(std::sync::atomic::AtomicBool::new(false));
                            let fired2 = std::sync::Arc::clone(&fired);
                            let go_rx = std::sync::Mutex::new(go_rx);
                            let wanted = gate.to_string();
                            ckb_tx_pool::verif::set_gate(Some(Box::new(move |point| {
                                if point == wanted && !fired2.swap(true, std::sync::atomic::Ordering::SeqCst) {
                                    let _ = reached_tx.send(());
                                    let _ = go_rx.lock().unwrap().recv_timeout(std::time::Duration::from_secs(30));
                                }
                            })));
                            let ctrl = drv.node.shared.tx_pool_controller().clone();
                            let tx = drv.u.txs[drv.u.names[l]].clone();
                            let handle = std::thread::spawn(move || ctrl.submit_local_tx(tx).map_err(|e| e.to_string()));
                            // the gate is reached, or the submission is answered before it (refused by the pre-check)
                            let t0 = std::time::Instant::now();
                            let mut reached = false;
                            loop {
                                if reached_rx.try_recv().is_ok() {
                                    reached = true;
                                    break;
                                }
                                if handle.is_finished() {
                                    break;
                                }
                                if t0.elapsed() > std::time::Duration::from_secs(20) {
                                    ckb_tx_pool::verif::set_gate(None);
                                    return Err(format!("submission of {} neither reached {gate} nor was answered", drv.u.names[l]));
                                }
                                std::thread::sleep(std::time::Duration::from_micros(100));
                            }
                            let mut obs_w = String::from("-");
                            if reached {
                                obs_w = drv.apply(Op::Submit(w))?;
                                let _ = go_tx.send(());
                            }
                            let verdict = handle.join().map_err(|_| "submit thread panicked".to_string())??;
                            ckb_tx_pool::verif::set_gate(None);
                            drv.node.wait_pool_synced()?;
                            report.transitions += 2;
                            if !reached {
                                report.count("race_gate_not_reached", 1);
                                continue;
                            }
                            report.count("race_gate_reached", 1);
                            let obs_l = match &verdict { Ok(_) => "accepted".to_string(), Err(e) => format!("rejected: {}", e.to_string().split('(').next().unwrap_or("").trim()) };
                            let d = drv.dump()?;
                            let trace = format!("universe {variant}, rbf={rbf}: pool holds {:?}; submission of {} stopped at {gate}; {} submitted meanwhile ({obs_w}); {} continues ({obs_l})", prefix.iter().map(|i| drv.u.names[*i]).collect::<Vec<_>>(), drv.u.names[l], drv.u.names[w], drv.u.names[l]);
                            for (kind, msg) in judge(&d, &drv.u, drv.u.max_ancestors()) {
                                report.violation(format!("race/bookkeeping/{kind}"), format!("{trace}: {msg}"), label.clone());
                            }
                            report.evaluations += 1;
                            report.traces += 1;
                            let c = canon(&d, &drv.u, 0);
                            let f = fp(&("race", rbf, variant, &c.1, obs_l.starts_with("accepted"), obs_w.starts_with("accepted")));
                            report.states.insert(f);
                            report.outcomes.insert(fp(&("race", obs_l.starts_with("accepted"), obs_w.starts_with("accepted"), c.1.len())));
                            if d.entries.len() >= 2 {
                                report.nontrivial.insert(f);
                            }
                        }
                    }
                }
            }
            if let Some(d) = slot.take() {
                d.node.destroy();
            }
        }
    }
    Ok(())
}

static BOOTS: std::sync::atomic::AtomicU64 = std::sync::atomic::AtomicU64::new(0);

pub fn meta(tier: Tier) -> Meta {
    Meta {
        id: "C11",
        level: "model_checking",
        rule: "state = operation history (replayed on a real node that is reset to genesis tip + empty pool by truncate + clear_pool between histories, rebooted every 400 histories) over {Submit(t), Remove(t) for the designed transactions of the universe (0: chain of four against ancestor limit 3, a join of two unrelated parents, a sufficient and an insufficient replacement, a dep user and the dep cell spender; 1: diamond A1->{B,C}->D with tail F against ancestor limit 4, sibling E, replacement of the root, replacement of one arm), Mine, Expire(+2h)} replayed on a fresh real node + tx-pool service (ancestor limit 3, pool size limit ~5 txs, expiry 1h; RBF on and off); BFS by depth, states merged only when (tip, sorted entries with status and recorded parents, conflict-cache ids) agree; after EVERY operation the hook dump is judged: no double spend, input/dep edge maps = inputs/deps of the pooled txs, link key set = entries, parents justified by a spend/dep relation and containing every spend/dep of a pooled output, children = transpose, ancestor/descendant (count,size,cycles,fee) = recomputation over the link closure, per-status counts and totals, ancestor limit, and the RBF rule on every successful replacement (replaced + descendants gone, fee >= their fees + min_rbf_rate*size; a rejected one leaves the pool unchanged). non-trivial = state with >= 2 linked entries or reached through Mine/Expire/replacement. Submission-race family: for every universe, RBF off and on, every prefix out of {empty pool, one pooled transaction, the universe's designed prefix}, every ordered pair (L, W) of further transactions and both gates between the steps of a submission (after the pre-check, before submit_entry): L is stopped at the gate, W is submitted and answered, L continues; the same bookkeeping recomputation judges the pool afterwards.",
        assumptions: &["overlapping submissions are enumerated at the two gates between the steps of a submission (submission-race family: every ordered pair of transactions, one stopped at a gate while the other is carried out); other interleavings inside the pool service are not", "reorganisations onto a competing branch are C12's subject and not in this alphabet", "the pool's public RPC views are not compared here (the hook dump is the observed state)"],
        bounds: json!({"configs_universe_rbf_depth": if tier.is_thorough() { json!([[0, true, 6], [1, true, 6], [0, false, 6], [1, false, 5], [2, true, "P1 P2 Dd Q + 4"], [2, false, "P1 P2 Dd Q + 3"], [2, true, 5]]) } else { json!([[0, true, 5], [1, true, 4], [0, false, 4], [2, true, "P1 P2 Dd Q + 2"]]) }, "split": "(config, op1, op2) round-robin over 16 workers, level-synchronous BFS with a per-worker seen set", "universe_0": NAMES, "universe_1_diamond": DIAMOND, "universe_2_dep_evict": DEPEVICT}),
    }
}

fn replay_history(ctx: &Ctx, cons: &Consensus, rbf: bool, variant: u8, hist: &[Op], report: &mut Report, slot: &mut Option<Driver>) -> Result<Option<u64>, String> {
    // one node per worker, reset between histories; a fresh node every 400 histories
    let period: u64 = std::env::var("VERIF_C11_REBOOT").ok().and_then(|v| v.parse().ok()).unwrap_or(400);
    if slot.as_ref().map(|d| d.resets >= period).unwrap_or(false) {
        if let Some(d) = slot.take() {
            d.node.destroy();
        }
    }
    if slot.is_none() {
        let n = BOOTS.fetch_add(1, std::sync::atomic::Ordering::SeqCst);
        *slot = Some(Driver::boot(&ctx.scratch.join(format!("pool-node-{n}")), cons, rbf, variant)?);
    }
    let drv = slot.as_mut().unwrap();
    drv.reset()?;
    let mut special = false;
    let mut ok = true;
    for (step, op) in hist.iter().enumerate() {
        let pre = drv.dump()?;
        let obs = drv.apply(*op)?;
        let post = drv.dump()?;
        report.transitions += 1;
        let label = json!({"rbf": rbf, "universe": variant, "history": hist, "step": step});
        for (kind, msg) in judge(&post, &drv.u, drv.u.max_ancestors()) {
            report.violation(format!("bookkeeping/{kind}"), format!("after {:?} ({obs}): {msg}", op), label.clone());
            ok = false;
        }
        // every input of a pooled tx is an output of a pooled tx or a live cell of the chain (a
        // parent link that "corresponds to an actual spend" needs the spent output to exist)
        {
            use ckb_types::core::cell::{CellProvider, CellStatus};
            let snap = drv.node.shared.snapshot();
            for e in &post.entries {
                for pt in e.tx.input_pts_iter() {
                    let idx: u32 = pt.index().unpack();
                    let pooled = post.entries.iter().any(|p| p.tx.hash() == pt.tx_hash() && (idx as usize) < p.tx.outputs().len());
                    let live = matches!(snap.cell(&pt, false), CellStatus::Live(_));
                    if !pooled && !live {
                        report.violation("bookkeeping/input-neither-pooled-nor-live", format!("after {:?} ({obs}): pooled {} spends {}#{idx}, which is neither an output of a pooled transaction nor a live cell", op, drv.u.name_of(&e.id), drv.u.txs.iter().find(|(_, t)| t.hash() == pt.tx_hash()).map(|(n, _)| n.to_string()).unwrap_or_else(|| "a chain cell".into())), label.clone());
                        ok = false;
                    }
                }
            }
        }
        if matches!(op, Op::Mine | Op::Expire | Op::Idle) {
            special = true;
        }
        // RBF rule
        if let Op::Submit(i) = op {
            let tx = &drv.u.txs[drv.u.names[*i]];
            let conflicts: Vec<_> = pre.entries.iter().filter(|e| e.id != tx.proposal_short_id() && e.tx.input_pts_iter().any(|x| tx.input_pts_iter().any(|y| x == y))).collect();
            if !conflicts.is_empty() {
                if obs == "accepted" {
                    special = true;
                    // replaced set = conflicts + their descendants (by recorded links in pre)
                    let mut replaced: HashSet<ProposalShortId> = HashSet::new();
                    let mut stack: Vec<ProposalShortId> = conflicts.iter().map(|e| e.id.clone()).collect();
                    while let Some(x) = stack.pop() {
                        if replaced.insert(x.clone()) {
                            if let Some(e) = pre.entries.iter().find(|e| e.id == x) {
                                stack.extend(e.children.iter().cloned());
                            }
                        }
                    }
                    let still: Vec<String> = post.entries.iter().filter(|e| replaced.contains(&e.id)).map(|e| drv.u.name_of(&e.id)).collect();
                    if !still.is_empty() || !post.entries.iter().any(|e| e.id == tx.proposal_short_id()) {
                        report.violation("rbf/replaced-and-replacing", format!("replacement {} accepted but {:?} are still pooled (or the replacement is not)", drv.u.names[*i], still), label.clone());
                    }
                    let replaced_fee: u64 = pre.entries.iter().filter(|e| replaced.contains(&e.id)).map(|e| e.own.2).sum();
                    let new = post.entries.iter().find(|e| e.id == tx.proposal_short_id());
                    if let Some(new) = new {
                        let increment = pool_config(rbf, drv.u.variant).min_rbf_rate.fee(new.own.1 as u64).as_u64();
                        if !rbf || new.own.2 < replaced_fee + increment {
                            report.violation("rbf/underpaid-replacement", format!("replacement {} with fee {} admitted; replaced fees {} + increment {} (rbf enabled: {rbf})", drv.u.names[*i], new.own.2, replaced_fee, increment), label.clone());
                        }
                    }
                } else if canon(&pre, &drv.u, 0).1 != canon(&post, &drv.u, 0).1 {
                    report.violation("rbf/rejected-replacement-changed-pool", format!("replacement {} was {obs} but the pool changed: before {:?}, after {:?}", drv.u.names[*i], canon(&pre, &drv.u, 0).1, canon(&post, &drv.u, 0).1), label.clone());
                }
            }
        }
    }
    let d = drv.dump()?;
    let tip = drv.node.tip().number();
    let c = canon(&d, &drv.u, tip);
    // what else decides the future: the chain's content (proposal window, committed txs), each
    // entry's age class (expired or not) and the relative order of entry timestamps (eviction)
    let chain_digest: Vec<(Vec<String>, usize)> = drv.node.main_chain().iter().skip(1).map(|b| (b.transactions().iter().skip(1).map(|t| drv.u.name_of(&t.proposal_short_id())).collect(), b.data().proposals().len())).collect();
    let mut ages: Vec<(u64, String, bool)> = d.entries.iter().map(|e| (e.timestamp, drv.u.name_of(&e.id), drv.clock.saturating_sub(e.timestamp) > 3600 * 1000)).collect();
    ages.sort();
    let age_order: Vec<(String, bool)> = ages.into_iter().map(|(_, n, x)| (n, x)).collect();
    let f = fp(&(rbf, variant, &c, &chain_digest, &age_order));
    if d.entries.iter().any(|e| !e.parents.is_empty()) || special {
        report.nontrivial.insert(f);
    }
    report.outcomes.insert(fp(&(c.1.len(), c.2.len(), tip)));
    report.traces += 1;
    report.evaluations += 1;
    if report.samples.len() < 3 && hist.len() >= 3 {
        report.sample(json!({"rbf": rbf, "history": hist, "final_pool": c.1, "conflicts_cache": c.2, "tip": tip}));
    }
    Ok(if ok { Some(f) } else { None })
}

pub fn run(ctx: &Ctx) -> Report {
    let mut report = Report::new();
    let cons = consensus(&WorldOpts::default());
    if let Some(path) = &ctx.replay {
        let v: Value = load_replay_case(path);
        if v["family"] == "submission-race" {
            if let Err(e) = race_family(ctx, &cons, &mut report, Some(&v)) {
                report.machinery_errors.push(e);
            }
            report.outcomes.insert(0);
            report.outcomes.insert(1);
            return report;
        }
        let hist: Vec<Op> = serde_json::from_value(v["history"].clone()).expect("history");
        let rbf = v["rbf"].as_bool().unwrap_or(true);
        let variant = v["universe"].as_u64().unwrap_or(0) as u8;
        let mut slot = None;
        if let Err(e) = replay_history(ctx, &cons, rbf, variant, &hist, &mut report, &mut slot) {
            report.machinery_errors.push(e);
        }
        report.outcomes.insert(0);
        report.outcomes.insert(1);
        return report;
    }
    // overlapping submissions first (a few seconds)
    if let Err(e) = race_family(ctx, &cons, &mut report, None) {
        report.machinery_errors.push(format!("submission-race family: {e}"));
        return report;
    }
    // (universe, rbf, depth, prefix): the search starts after `prefix` (empty = from the empty pool)
    let sub = |names: &[&str], all: &[&str]| -> Vec<Op> { names.iter().map(|n| Op::Submit(all.iter().position(|x| x == n).unwrap())).collect() };
    let dep_prefix = sub(&["P1", "P2", "Dd", "Q"], &DEPEVICT);
    // a proposed family one empty block away from dropping out of the proposal window (proposed in
    // block 1, window 2..4): the diamond with its tail, and the chain of three with the join
    let mut window_prefix_1 = sub(&["A1", "B", "C", "D", "F"], &DIAMOND);
    window_prefix_1.extend([Op::Mine, Op::Idle, Op::Idle, Op::Idle]);
    let mut window_prefix_0 = sub(&["A1", "A2", "A3", "J"], &NAMES);
    window_prefix_0.extend([Op::Mine, Op::Idle, Op::Idle, Op::Idle]);
    let configs: Vec<(u8, bool, usize, Vec<Op>)> = if ctx.tier.is_thorough() {
        vec![(0, true, 6, vec![]), (1, true, 6, vec![]), (0, false, 6, vec![]), (1, false, 5, vec![]), (2, true, 4, dep_prefix.clone()), (2, false, 3, dep_prefix.clone()), (2, true, 5, vec![]), (1, true, 3, window_prefix_1.clone()), (0, true, 3, window_prefix_0.clone()), (1, false, 3, window_prefix_1.clone())]
    } else {
        vec![(0, true, 5, vec![]), (1, true, 4, vec![]), (0, false, 4, vec![]), (2, true, 2, dep_prefix.clone()), (1, true, 2, window_prefix_1.clone()), (0, true, 2, window_prefix_0.clone())]
    };
    // the search is split by (config, first op, second op) over the worker processes; each worker
    // runs one level-synchronous BFS over all its roots per config, with a shared seen-set (so a
    // state is expanded at the smallest depth this worker reaches it)
    let mut ri = 0u64;
    for (variant, rbf, depth, prefix) in configs {
        let n_txs = PoolUniverse::new(&cons, variant).names.len();
        let mut ops: Vec<Op> = (0..n_txs).map(Op::Submit).collect();
        ops.extend((0..n_txs).map(Op::Remove));
        ops.push(Op::Mine);
        ops.push(Op::Expire);
        ops.push(Op::Idle);
        let firsts: Vec<Op> = ops.iter().cloned().filter(|op| matches!(op, Op::Submit(_) | Op::Mine | Op::Idle) || prefix.contains(&match op { Op::Remove(i) => Op::Submit(*i), o => *o })).collect();
        let mut seen: HashSet<u64> = HashSet::new();
        let mut frontier: Vec<Vec<Op>> = vec![];
        let mut slot: Option<Driver> = None;
        for first in &firsts {
            for second in &ops {
                if let Op::Remove(i) = second {
                    if *first != Op::Submit(*i) && !prefix.contains(&Op::Submit(*i)) {
                        continue;
                    }
                }
                ri += 1;
                if !ctx.mine(ri) {
                    continue;
                }
                let mut h = prefix.clone();
                h.push(*first);
                h.push(*second);
                match replay_history(ctx, &cons, rbf, variant, &h, &mut report, &mut slot) {
                    Ok(Some(f)) => {
                        if seen.insert(f) {
                            report.states.insert(f);
                            frontier.push(h);
                        }
                    }
                    Ok(None) => {}
                    Err(e) => {
                        report.machinery_errors.push(format!("{h:?}: {e}"));
                        return report;
                    }
                }
            }
        }
        for d in 3..=depth {
            let mut next = vec![];
            for h in &frontier {
                for op in &ops {
                    if ctx.out_of_time() {
                        report.cap_hit = Some(format!("wall budget reached at depth {d} (universe {variant}, rbf={rbf})"));
                        return report;
                    }
                    // pruning that cannot hide behaviour: removing a tx that never was submitted in
                    // this history is a no-op
                    if let Op::Remove(i) = op {
                        if !h.iter().any(|o| *o == Op::Submit(*i)) {
                            continue;
                        }
                    }
                    let mut nh = h.clone();
                    nh.push(*op);
                    match replay_history(ctx, &cons, rbf, variant, &nh, &mut report, &mut slot) {
                        Ok(Some(f)) => {
                            if seen.insert(f) {
                                report.states.insert(f);
                                next.push(nh);
                            }
                        }
                        Ok(None) => {}
                        Err(e) => {
                            report.machinery_errors.push(format!("{nh:?}: {e}"));
                            return report;
                        }
                    }
                }
            }
            report.max_counter(&format!("max_depth_completed_u{variant}_rbf{}", rbf as u8), d as u64);
            frontier = next;
            if frontier.is_empty() {
                break;
            }
        }
        if let Some(d) = slot.take() {
            d.node.destroy();
        }
    }
    report
}
