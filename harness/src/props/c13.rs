//! C13 — every block template handed to miners would be accepted by the node itself.
//!
//! Explicit-state search over operation histories on a real node with pool + block assembler in
//! worlds whose block limits are reachable (3 transactions' worth of bytes or cycles, 3
//! proposals).  After EVERY operation the node's template is requested (immediately, possibly
//! still naming the previous tip, and again once it names the current tip), sealed the way a
//! miner would, and submitted to a twin node (chain only, no pool) positioned on the parent the
//! template names: the twin must accept it.  The template is also judged against the pool dump:
//! every template transaction has all of its pooled ancestors earlier in the template.
use crate::core::*;
use crate::forge::*;
use crate::node::*;
use crate::props::c11::Driver;
use crate::world::*;
use ckb_app_config::TxPoolConfig;
use ckb_chain_spec::consensus::Consensus;
use ckb_jsonrpc_types::BlockTemplate;
use ckb_types::{
    core::{BlockView, FeeRate, TransactionView},
    packed::{self, Byte32, CellDep, ProposalShortId},
    prelude::*,
};
use serde::{Deserialize, Serialize};
use serde_json::{Value, json};
use std::collections::{BTreeMap, HashMap, HashSet};

pub const NAMES: [&str; 9] = ["A1", "A2", "A3", "J", "Cdep", "Dsp", "X", "Y", "R"];

#[derive(Clone, Copy, Debug, Serialize, Deserialize, PartialEq, Eq, Hash)]
pub enum Op {
    Submit(usize),
    /// seal the node's own template and process it
    Mine,
    /// a sibling of the tip (forged on the tip's parent) arrives: an uncle candidate
    Uncle,
    /// two forged empty blocks on the tip's parent: the tip is detached
    Reorg,
    /// a forged block on the tip (another miner's) that proposes X, Y and Dsp: when those are
    /// submitted later they enter the pool already proposed
    Foreign,
    /// a forged block on the tip (another miner's) that embeds, as its uncle, a sibling of the tip
    /// this node has never seen (only the uncle's header travels inside the block)
    ForeignUncle,
    /// the oldest such sibling block itself arrives (a valid side block: an uncle candidate - but one
    /// the main chain already includes)
    LateUncle,
    /// four forged blocks on the block three below the tip (with other timestamps): the last three
    /// blocks are detached; when the fork point lies below an epoch boundary the new branch enters
    /// the epoch with statistics of its own
    DeepReorg,
}

#[derive(Clone, Copy, Debug, Serialize, Deserialize, PartialEq, Eq, Hash)]
pub enum Limit {
    Bytes(u64),
    Cycles(u64),
    Loose,
    /// no tight limit, dynamic difficulty: epochs of 4, 8, 16 blocks, each with the target its
    /// branch's statistics give (two branches forking below an epoch boundary enter equally
    /// numbered epochs with different targets)
    LooseDynamic,
}

fn world(limit: Limit) -> WorldOpts {
    let mut w = WorldOpts::default();
    w.max_block_proposals_limit = Some(3);
    match limit {
        // header + cellbase + extension take 478 bytes, a proposal 10, an uncle 228, a universe
        // transaction 243 / 280 / 332
        Limit::Bytes(l) => w.max_block_bytes = Some(l),
        // always_success costs 537 cycles
        Limit::Cycles(l) => w.max_block_cycles = Some(l),
        Limit::Loose => {}
        Limit::LooseDynamic => {
            w.permanent_difficulty = false;
            w.genesis_compact_target = ckb_types::utilities::difficulty_to_compact(ckb_types::U256::from(1u64 << 24));
        }
    }
    w
}

fn pool_config() -> TxPoolConfig {
    let mut c = TxPoolConfig::default();
    c.min_fee_rate = FeeRate::from_u64(1_000);
    c.max_ancestors_count = 4;
    c
}

fn universe(cons: &Consensus) -> BTreeMap<&'static str, TransactionView> {
    let g = genesis_cells(cons);
    let a1 = simple_tx(cons, &g[0..1], 2, 1_000_000, 1);
    let a2 = simple_tx(cons, &[out(&a1, 0)], 1, 1_100_000, 2);
    let a3 = simple_tx(cons, &[out(&a2, 0)], 1, 1_200_000, 3);
    let cdep = simple_tx(cons, &g[2..3], 1, 800_000, 8).as_advanced_builder().cell_dep(CellDep::new_builder().out_point(g[3].0.clone()).build()).build();
    let dsp = simple_tx(cons, &g[3..4], 1, 700_000, 9);
    let j = simple_tx(cons, &[out(&a1, 1), out(&cdep, 0)], 1, 900_000, 5);
    let x = simple_tx(cons, &g[4..5], 1, 2_000_000, 10);
    let y = simple_tx(cons, &g[5..6], 1, 600_000, 11);
    let r = simple_tx(cons, &g[0..1], 1, 9_000_000, 6);
    let mut m = BTreeMap::new();
    for (n, t) in NAMES.iter().zip([a1, a2, a3, j, cdep, dsp, x, y, r]) {
        m.insert(*n, t);
    }
    m
}

type Sink = std::sync::Arc<std::sync::Mutex<Vec<(String, BlockTemplate)>>>;

/// At the gates between the phases of a tip change (blank template for the new tip / pool updated /
/// template refilled) a template is requested, exactly as a miner polling at that moment would.
fn install_gate(drv: &Driver, sink: &Sink) {
    let shared = drv.node.shared.clone();
    let sink = std::sync::Arc::clone(sink);
    ckb_tx_pool::verif::set_gate(Some(Box::new(move |point| {
        if point.starts_with("reorg:") {
            if let Ok(Ok(tpl)) = shared.get_block_template(None, None, None) {
                sink.lock().unwrap().push((point.to_string(), tpl));
            }
        }
    })));
}

struct Runner {
    sink: Sink,
    limit: Limit,
    cons: Consensus,
    txs: BTreeMap<&'static str, TransactionView>,
    drv: Driver,
    twin: Forge,
    nonce: u128,
    boots: u64,
}

fn seal(tpl: BlockTemplate, nonce: u128) -> BlockView {
    let b = block_from_template(tpl, None);
    b.as_advanced_builder().nonce(nonce).build()
}

impl Runner {
    fn new(ctx: &Ctx, limit: Limit) -> Result<Runner, String> {
        let cons = consensus(&world(limit));
        set_time(time_for_height(0));
        let twin = Forge::new(&ctx.scratch.join(format!("c13-twin-{limit:?}")), &cons)?;
        let drv = Driver::boot_with(&ctx.scratch.join(format!("c13-pool-{limit:?}-0")), &cons, pool_config(), true)?;
        let txs = universe(&cons);
        let sink: Sink = Default::default();
        install_gate(&drv, &sink);
        Ok(Runner { sink, limit, cons, txs, drv, twin, nonce: 1, boots: 0 })
    }

    fn name_of(&self, id: &ProposalShortId) -> String {
        self.txs.iter().find(|(_, t)| &t.proposal_short_id() == id).map(|(n, _)| n.to_string()).unwrap_or_else(|| "?".into())
    }

    fn reset(&mut self, ctx: &Ctx) -> Result<(), String> {
        if self.drv.resets >= 300 {
            self.boots += 1;
            let clock = self.drv.clock;
            let fresh = Driver::boot_with(&ctx.scratch.join(format!("c13-pool-{:?}-{}", self.limit, self.boots)), &self.cons, pool_config(), true)?;
            let old = std::mem::replace(&mut self.drv, fresh);
            old.node.destroy();
            self.drv.clock = clock;
            install_gate(&self.drv, &self.sink);
        }
        self.drv.reset()?;
        self.twin.forget();
        Ok(())
    }

    /// judge one template against the twin and the pool dump
    fn check_template(&mut self, tpl: BlockTemplate, stale: bool, trace: &[String], label: &Value, report: &mut Report) -> Result<Option<BlockView>, String> {
        self.nonce += 1;
        let block = seal(tpl.clone(), self.nonce);
        let parent = block.parent_hash();
        report.evaluations += 1;
        let names: Vec<String> = block.transactions().iter().skip(1).map(|t| self.name_of(&t.proposal_short_id())).collect();
        let describe = format!("template on parent #{} with txs {:?}, {} proposals, {} uncles{}", block.number() - 1, names, block.data().proposals().len(), block.data().uncles().len(), if stale { " (requested right after the operation, still naming the previous tip)" } else { "" });
        // the twin node: same chain up to the named parent, no pool
        self.twin.goto(&parent).map_err(|e| format!("twin: {e}"))?;
        let verdict = self.twin.node().process(&block);
        match &verdict {
            Ok(true) => {}
            Ok(false) => report.violation("template-refused/already-known", format!("after {}: {describe}: the twin answered Ok(false)", trace.join(", ")), label.clone()),
            Err(e) => {
                let s = e.to_string();
                // e.g. "Block(ExceededMaximumBlockBytes(..." -> "Block-ExceededMaximumBlockBytes"
                let kind: String = s.split(|c: char| !c.is_ascii_alphanumeric()).filter(|t| t.chars().next().map(|c| c.is_ascii_uppercase()).unwrap_or(false)).take(2).collect::<Vec<_>>().join("-");
                report.violation(format!("template-refused/{kind}"), format!("after {}: {describe}: refused by the node's own verification: {s}", trace.join(", ")), label.clone());
            }
        }
        // limits, from the template alone
        let size = block.data().serialized_size_without_uncle_proposals() + block.data().uncles().as_slice().len() + block.data().proposals().len() * 10;
        let _ = size;
        if block.data().proposals().len() as u64 > self.cons.max_block_proposals_limit() {
            report.violation("template/too-many-proposals", format!("after {}: {describe}", trace.join(", ")), label.clone());
        }
        // every template tx has all its pooled ancestors earlier in the template
        if !stale {
            let d = self.drv.dump()?;
            let position: HashMap<Byte32, usize> = block.transactions().iter().enumerate().map(|(i, t)| (t.hash(), i)).collect();
            for (i, t) in block.transactions().iter().enumerate().skip(1) {
                if let Some(e) = d.entries.iter().find(|e| e.tx.hash() == t.hash()) {
                    for p in &e.parents {
                        if let Some(pe) = d.entries.iter().find(|x| &x.id == p) {
                            match position.get(&pe.tx.hash()) {
                                Some(pi) if *pi < i => {}
                                Some(_) => report.violation("template/child-before-parent", format!("after {}: {describe}: {} comes before its parent {}", trace.join(", "), self.name_of(&e.id), self.name_of(p)), label.clone()),
                                None => report.violation("template/missing-ancestor", format!("after {}: {describe}: {} is in the template without its pooled parent {}", trace.join(", "), self.name_of(&e.id), self.name_of(p)), label.clone()),
                            }
                        }
                    }
                }
            }
            let left_out = d.entries.iter().filter(|e| e.status == "proposed" && !position.contains_key(&e.tx.hash())).count();
            if left_out > 0 {
                report.count("templates_leaving_a_proposed_tx_out", 1);
            }
            // no two template txs spend the same cell
            let mut spent = HashSet::new();
            for t in block.transactions().iter().skip(1) {
                for i in t.input_pts_iter() {
                    if !spent.insert(i) {
                        report.violation("template/double-spend", format!("after {}: {describe}", trace.join(", ")), label.clone());
                    }
                }
            }
        }
        if std::env::var("C13_SIZES").is_ok() {
            if let Ok(d) = self.drv.dump() {
                println!("pool: {:?}", d.entries.iter().map(|e| (self.name_of(&e.id), e.status.clone(), e.parents.iter().map(|p| self.name_of(p)).collect::<Vec<_>>())).collect::<Vec<_>>());
            }
            println!("sizes: total {} without-uncle-proposals {} cellbase {} txs {:?} proposals {} uncles {} ext {:?} after {:?}", block.data().as_slice().len(), block.data().serialized_size_without_uncle_proposals(), block.transactions()[0].data().as_slice().len(), block.transactions().iter().skip(1).map(|t| (self.name_of(&t.proposal_short_id()), t.data().serialized_size_in_block())).collect::<Vec<_>>(), block.data().proposals().len(), block.data().uncles().len(), block.extension().map(|e| e.len()), trace.last());
        }
        if block.transactions().len() > 1 {
            report.count("templates_with_transactions", 1);
        }
        if !block.data().uncles().is_empty() {
            report.count("templates_with_uncles", 1);
        }
        if block.transactions().len() > 3 {
            report.count("templates_with_three_or_more_txs", 1);
        }
        report.outcomes.insert(fp(&(block.transactions().len(), block.data().proposals().len(), block.data().uncles().len(), block.epoch().index() == 0)));
        Ok(if verdict.is_ok() { Some(block) } else { None })
    }

    /// `check_from`: templates are requested and judged after every operation with index >= check_from
    /// (the prefix was judged when it was a history of its own)
    fn replay(&mut self, ctx: &Ctx, hist: &[Op], check_from: usize, report: &mut Report) -> Result<Option<u64>, String> {
        self.reset(ctx)?;
        let label = json!({"limit": self.limit, "history": hist});
        let mut trace: Vec<String> = vec![];
        let mut ok = true;
        let before = report.violations.len();
        // sibling blocks embedded as uncles by foreign blocks and not yet delivered themselves
        let mut late: Vec<BlockView> = vec![];
        for (step, op) in hist.iter().enumerate() {
            let tip = self.drv.node.tip();
            match op {
                Op::ForeignUncle => {
                    // the uncle (a sibling of the tip) must belong to the epoch of the block embedding it
                    if tip.number() == 0 || tip.epoch().index() + 1 >= tip.epoch().length() {
                        return Ok(None);
                    }
                    self.drv.clock += BLOCK_INTERVAL_MS;
                    set_time(self.drv.clock);
                    let u = self.twin.build_on(&tip.parent_hash(), &BlockSpec { miner: 6, timestamp: Some(self.drv.clock - 2 - late.len() as u64), ..Default::default() })?;
                    let b = self.twin.build_on(&tip.hash(), &BlockSpec { miner: 8, uncles: vec![u.as_uncle()], timestamp: Some(self.drv.clock), ..Default::default() })?;
                    self.drv.node.process(&b).map_err(|e| format!("forged block with an unseen uncle refused: {e}"))?;
                    trace.push(format!("foreign block #{} embeds an unseen sibling of #{} as uncle", b.number(), tip.number()));
                    late.push(u);
                }
                Op::DeepReorg => {
                    if tip.number() < 4 {
                        return Ok(None);
                    }
                    self.drv.clock += BLOCK_INTERVAL_MS;
                    set_time(self.drv.clock);
                    let main = self.drv.node.main_chain();
                    let mut parent = main[tip.number() as usize - 3].hash();
                    let mut last = None;
                    for j in 0..4u64 {
                        // later than the detached blocks' timestamps, increasing, not in the future
                        let b = self.twin.build_on(&parent, &BlockSpec { miner: 5, timestamp: Some(self.drv.clock - (3 - j) * 1_000 - 1), ..Default::default() })?;
                        self.drv.node.process(&b).map_err(|e| format!("forged block of the deep reorganisation refused: {e}"))?;
                        parent = b.hash();
                        last = Some(b);
                    }
                    if self.drv.node.tip().hash() != last.as_ref().unwrap().hash() {
                        return Err("the forged branch of the deep reorganisation did not become the main chain".into());
                    }
                    trace.push(format!("deep reorg: #{}..#{} detached, 4 forged blocks attached", tip.number() - 2, tip.number()));
                }
                Op::LateUncle => {
                    if late.is_empty() {
                        return Ok(None);
                    }
                    let u = late.remove(0);
                    self.drv.node.process(&u).map_err(|e| format!("late uncle block refused: {e}"))?;
                    trace.push(format!("the sibling block #{} (already embedded as an uncle) arrives", u.number()));
                }
                Op::Submit(i) => {
                    let tx = self.txs[NAMES[*i]].clone();
                    let res = self.drv.node.shared.tx_pool_controller().submit_local_tx(tx).map_err(|e| e.to_string())?;
                    trace.push(format!("submit {} ({})", NAMES[*i], if res.is_ok() { "accepted" } else { "rejected" }));
                }
                Op::Mine => {
                    self.drv.clock += BLOCK_INTERVAL_MS;
                    set_time(self.drv.clock);
                    let tpl = self.drv.node.template()?;
                    self.nonce += 1;
                    let block = seal(tpl, self.nonce);
                    trace.push(format!("mine #{} (txs {:?}, {} proposals, {} uncles)", block.number(), block.transactions().iter().skip(1).map(|t| self.name_of(&t.proposal_short_id())).collect::<Vec<_>>(), block.data().proposals().len(), block.data().uncles().len()));
                    self.twin.learn(&block);
                    if let Err(e) = self.drv.node.process(&block) {
                        // the template check of the previous step has reported it; this history ends here
                        report.count("mine_refused", 1);
                        let _ = e;
                        return Ok(None);
                    }
                }
                Op::Foreign => {
                    self.drv.clock += BLOCK_INTERVAL_MS;
                    set_time(self.drv.clock);
                    let proposals: Vec<ProposalShortId> = ["X", "Y", "Dsp"].iter().map(|n| self.txs[n].proposal_short_id()).collect();
                    // the twin must be able to reach the tip: it has learnt every block of this history
                    let b = self.twin.build_on(&tip.hash(), &BlockSpec { miner: 8, proposals, timestamp: Some(self.drv.clock), ..Default::default() })?;
                    self.drv.node.process(&b).map_err(|e| format!("forged block refused: {e}"))?;
                    trace.push(format!("foreign block #{} proposes X, Y, Dsp", b.number()));
                }
                Op::Uncle | Op::Reorg => {
                    if tip.number() == 0 {
                        return Ok(None);
                    }
                    self.drv.clock += BLOCK_INTERVAL_MS;
                    set_time(self.drv.clock);
                    let parent = tip.parent_hash();
                    let u = self.twin.build_on(&parent, &BlockSpec { miner: 7, timestamp: Some(self.drv.clock - 1), ..Default::default() })?;
                    self.drv.node.process(&u).map_err(|e| format!("forged sibling refused: {e}"))?;
                    if *op == Op::Reorg {
                        let u2 = self.twin.build_on(&u.hash(), &BlockSpec { miner: 7, timestamp: Some(self.drv.clock), ..Default::default() })?;
                        self.drv.node.process(&u2).map_err(|e| format!("forged block refused: {e}"))?;
                        if self.drv.node.tip().hash() != u2.hash() {
                            return Err("forged branch did not become the main chain".into());
                        }
                        trace.push(format!("reorg: #{} detached, 2 forged blocks attached", tip.number()));
                    } else {
                        trace.push(format!("sibling of #{} arrives", tip.number()));
                    }
                }
            }
            report.transitions += 1;
            if step < check_from {
                self.drv.node.wait_pool_synced()?;
                self.sink.lock().unwrap().clear();
                continue;
            }
            // templates a miner would have got between the phases of the tip change this operation caused
            self.drv.node.wait_pool_synced()?;
            let at_gates: Vec<(String, BlockTemplate)> = self.sink.lock().unwrap().drain(..).collect();
            for (point, tpl) in at_gates {
                let p: Byte32 = tpl.parent_hash.clone().into();
                if self.twin.known.contains_key(&p) {
                    report.count(&format!("templates_at_gate {point}"), 1);
                    let mut t2 = trace.clone();
                    t2.push(format!("[template requested at {point}]"));
                    self.check_template(tpl, true, &t2, &label, report)?;
                }
            }
            // a template requested right away (may still name the previous tip: it must be valid there)
            let now_tip = self.drv.node.tip().hash();
            if let Ok(Ok(tpl0)) = self.drv.node.shared.get_block_template(None, None, None) {
                let p: Byte32 = tpl0.parent_hash.clone().into();
                if p != now_tip && self.twin.known.contains_key(&p) {
                    report.count("stale_templates_checked", 1);
                    self.check_template(tpl0, true, &trace, &label, report)?;
                }
            }
            self.drv.node.wait_pool_synced()?;
            let tpl = self.drv.node.template()?;
            self.check_template(tpl, false, &trace, &label, report)?;
            if report.violations.len() > before {
                ok = false;
            }
        }
        // state fingerprint: pool (entries, stage, links), chain content, uncle candidates are a
        // function of the sibling blocks delivered (in the chain digest via the trace of ops)
        let d = self.drv.dump()?;
        let names: BTreeMap<ProposalShortId, String> = self.txs.iter().map(|(n, t)| (t.proposal_short_id(), n.to_string())).collect();
        let mut pool: Vec<(String, String, Vec<String>)> = d.entries.iter().map(|e| (names.get(&e.id).cloned().unwrap_or_default(), e.status.clone(), {
            let mut ps: Vec<String> = e.parents.iter().map(|p| names.get(p).cloned().unwrap_or_default()).collect();
            ps.sort();
            ps
        })).collect();
        pool.sort();
        let chain: Vec<(Vec<String>, Vec<String>, usize, u8)> = self
            .drv
            .node
            .main_chain()
            .iter()
            .skip(1)
            .map(|b| {
                let miner = b.transactions()[0].outputs().get(0).map(|o| o.lock().args().raw_data().first().cloned().unwrap_or(0)).unwrap_or(0);
                (b.transactions().iter().skip(1).map(|t| names.get(&t.proposal_short_id()).cloned().unwrap_or_default()).collect(), {
                    // the assembler emits proposals in hash-set order: the set is what matters
                    let mut ps: Vec<String> = b.data().proposals().into_iter().map(|p| names.get(&p).cloned().unwrap_or_default()).collect();
                    ps.sort();
                    ps
                }, b.data().uncles().len(), miner)
            })
            .collect();
        // siblings delivered and not yet included as uncles
        let siblings: Vec<usize> = hist.iter().enumerate().filter(|(_, o)| matches!(o, Op::Uncle | Op::Reorg)).map(|(i, _)| hist[..i].iter().filter(|o| matches!(o, Op::Mine | Op::Foreign)).count()).collect();
        let embedded: Vec<(usize, bool)> = hist.iter().enumerate().filter(|(_, o)| matches!(o, Op::ForeignUncle | Op::LateUncle | Op::DeepReorg)).map(|(i, o)| (hist[..i].iter().filter(|o| matches!(o, Op::Mine | Op::Foreign | Op::ForeignUncle)).count(), *o == Op::LateUncle)).collect();
        let f = fp(&(self.limit, &pool, &chain, &siblings, &embedded));
        if let Ok(path) = std::env::var("C13_LOG") {
            use std::io::Write;
            if let Ok(mut fh) = std::fs::OpenOptions::new().create(true).append(true).open(format!("{path}.{}", ctx.shard)) {
                let _ = writeln!(fh, "{:?} {:?} => {:?} | {:?} | {:?}", self.limit, hist, pool, chain, siblings);
            }
        }
        report.traces += 1;
        if pool.iter().any(|(_, s, _)| s == "proposed") || !siblings.is_empty() {
            report.nontrivial.insert(f);
        }
        if report.samples.len() < 3 && hist.len() >= 4 {
            report.sample(json!({"limit": self.limit, "history": hist, "trace": trace}));
        }
        Ok(if ok { Some(f) } else { None })
    }
}

/// (world, BFS depth from each seed).  Byte limits sit on packing boundaries of the universe:
/// 478 (header, cellbase, extension) + 855 (X, A1, Cdep) = 1333, + 10 per proposal, + 228 per uncle.
fn worlds(tier: Tier) -> Vec<(Limit, usize)> {
    let mut w = vec![];
    if tier.is_thorough() {
        w.push((Limit::Bytes(1_600), 5));
        w.push((Limit::Cycles(537 * 3 + 100), 4));
        w.push((Limit::Loose, 4));
        w.push((Limit::LooseDynamic, 3));
        // every even byte limit across the 3-transaction boundary with 0..3 proposals, and with one uncle
        for l in (1_326..=1_366).step_by(2) {
            w.push((Limit::Bytes(l), 3));
        }
        for l in (1_554..=1_594).step_by(4) {
            w.push((Limit::Bytes(l), 3));
        }
        for l in [537 * 3 - 1, 537 * 3, 537 * 3 + 1, 537 * 2, 537 * 4] {
            w.push((Limit::Cycles(l), 3));
        }
        // three 243-byte transactions arriving already proposed (478 + 729 = 1207)
        for l in (1_200..=1_240).step_by(2) {
            w.push((Limit::Bytes(l), 3));
        }
    } else {
        w.push((Limit::Bytes(1_600), 2));
        w.push((Limit::Bytes(1_338), 2));
        w.push((Limit::Bytes(1_212), 2));
        w.push((Limit::Cycles(537 * 3), 2));
        w.push((Limit::Loose, 2));
        w.push((Limit::LooseDynamic, 2));
    }
    w
}

fn seeds() -> Vec<Vec<Op>> {
    vec![
        vec![],
        // four independent/related txs proposed and inside the window: more than a block can take
        vec![Op::Submit(0), Op::Submit(6), Op::Submit(7), Op::Submit(4), Op::Mine, Op::Mine],
        // a chain and a join, proposed
        vec![Op::Submit(0), Op::Submit(1), Op::Submit(4), Op::Submit(3), Op::Mine, Op::Mine],
        // just before the epoch boundary (4-block epochs) with one tx in flight
        vec![Op::Submit(6), Op::Mine, Op::Mine, Op::Mine],
        // a new tip at which three proposed txs AND unproposed pending txs exist (the assembler's
        // full rebuild has to account proposals and transactions together)
        vec![Op::Submit(0), Op::Submit(6), Op::Submit(7), Op::Submit(4), Op::Mine, Op::Submit(5), Op::Submit(3), Op::Submit(1), Op::Mine],
        // ids proposed by someone else, inside the window, before the transactions arrive
        vec![Op::Foreign, Op::Mine, Op::Submit(0), Op::Submit(6), Op::Submit(7)],
        // the same with an uncle candidate
        vec![Op::Submit(0), Op::Submit(6), Op::Submit(7), Op::Submit(4), Op::Mine, Op::Submit(5), Op::Submit(3), Op::Submit(1), Op::Uncle, Op::Mine],
        // a foreign block has embedded an uncle this node has not seen yet
        vec![Op::Mine, Op::ForeignUncle],
        // inside the second epoch (genesis epoch: blocks 0..3), a template for the next block built
        vec![Op::Mine, Op::Mine, Op::Mine, Op::Mine, Op::Mine],
    ]
}

pub fn meta(tier: Tier) -> Meta {
    Meta {
        id: "C13",
        level: "model_checking",
        rule: "state = operation history over {Submit(t) for 9 designed transactions (chain of three, a join, a dep user and the dep cell's spender, two independent ones, a conflicting replacement), Mine (seal and process the node's own template), Uncle (a forged sibling of the tip arrives), Reorg (two forged blocks on the tip's parent detach the tip), Foreign (a forged block on the tip proposes three of the transactions before they are submitted), ForeignUncle (a forged block on the tip embeds as uncle a sibling of the tip this node has not seen), LateUncle (that sibling block itself arrives), DeepReorg (four forged blocks on the block three below the tip)} replayed on a real node with tx-pool and block assembler, in a family of worlds: block byte limits on and around the packing boundaries of the universe (three transactions with 0..3 proposals, with an uncle), block cycle limits on and around 2, 3, 4 transactions, no tight limit, and no tight limit with dynamic difficulty (epochs of 4, 8, 16 blocks whose targets follow each branch's own statistics) (proposal limit 3 in all; 4-block epochs; proposal window 2..4); BFS from eight seed histories (empty; a foreign block that embedded an unseen uncle; ids proposed by a foreign block before the transactions arrive; four proposed txs; chain + join proposed; one block before the epoch boundary; a fresh tip with three proposed and several unproposed pending txs, without and with an uncle candidate), dedup on (pool entries with stage and links, chain content, siblings delivered). After EVERY operation: the template returned immediately (if it still names the previous tip it is checked on that parent) and the template naming the current tip are sealed (dummy PoW, fresh nonce) and processed by a twin node (chain only) positioned on the named parent: must be accepted; and against the pool dump: every template tx has all its pooled parents earlier in the template, no cell is spent twice, proposals within the limit. non-trivial = state with a proposed tx or an uncle candidate.",
        assumptions: &["template requests are made right after each operation, at quiescence, and at the two gates between the phases of every tip change (blank template / pool updated / template refilled); other moments relative to the assembler's message processing are whatever the real threads produce", "notify scripts / HTTP notification of templates are outside"],
        bounds: json!({"worlds_and_depth_from_seed": worlds(tier).iter().map(|(l, d)| format!("{l:?}:{d}")).collect::<Vec<_>>(), "seeds": seeds().len()}),
    }
}

pub fn run(ctx: &Ctx) -> Report {
    let mut report = Report::new();
    if let Some(path) = &ctx.replay {
        let v: Value = load_replay_case(path);
        let hist: Vec<Op> = serde_json::from_value(v["history"].clone()).expect("history");
        let limit: Limit = serde_json::from_value(v["limit"].clone()).expect("limit");
        match Runner::new(ctx, limit) {
            Ok(mut r) => {
                if let Err(e) = r.replay(ctx, &hist, 0, &mut report) {
                    report.machinery_errors.push(e);
                }
            }
            Err(e) => report.machinery_errors.push(e),
        }
        report.outcomes.insert(0);
        report.outcomes.insert(1);
        return report;
    }
    let mut ops: Vec<Op> = (0..NAMES.len()).map(Op::Submit).collect();
    ops.extend([Op::Mine, Op::Uncle, Op::Reorg, Op::Foreign, Op::ForeignUncle, Op::LateUncle, Op::DeepReorg]);
    let mut ri = 0u64;
    for (limit, depth) in worlds(ctx.tier) {
        let mut runner: Option<Runner> = None;
        let mut seen: HashSet<u64> = HashSet::new();
        let mut frontier: Vec<Vec<Op>> = vec![];
        // roots: (seed, first op) round-robin over the workers
        for seed in seeds() {
            for op in &ops {
                ri += 1;
                if !ctx.mine(ri) {
                    continue;
                }
                if runner.is_none() {
                    runner = match Runner::new(ctx, limit) {
                        Ok(r) => Some(r),
                        Err(e) => {
                            report.machinery_errors.push(e);
                            return report;
                        }
                    };
                }
                let mut h = seed.clone();
                h.push(*op);
                // the seed's own steps are judged once (with its first extension)
                let from = if *op == ops[0] { 0 } else { seed.len() };
                match runner.as_mut().unwrap().replay(ctx, &h, from, &mut report) {
                    Ok(Some(f)) => {
                        if seen.insert(f) {
                            report.states.insert(f);
                            frontier.push(h);
                        }
                    }
                    Ok(None) => {}
                    Err(e) => {
                        report.machinery_errors.push(format!("{h:?}: {e}"));
                        return report;
                    }
                }
            }
        }
        for d in 2..=depth {
            let mut next = vec![];
            for h in &frontier {
                for op in &ops {
                    if ctx.out_of_time() {
                        report.cap_hit = Some(format!("wall budget reached at depth {d} ({limit:?})"));
                        return report;
                    }
                    let mut nh = h.clone();
                    nh.push(*op);
                    match runner.as_mut().unwrap().replay(ctx, &nh, nh.len() - 1, &mut report) {
                        Ok(Some(f)) => {
                            if seen.insert(f) {
                                report.states.insert(f);
                                next.push(nh);
                            }
                        }
                        Ok(None) => {}
                        Err(e) => {
                            report.machinery_errors.push(format!("{nh:?}: {e}"));
                            return report;
                        }
                    }
                }
            }
            report.max_counter(&format!("max_depth_completed_{limit:?}"), d as u64);
            frontier = next;
            if frontier.is_empty() {
                break;
            }
        }
        if let Some(r) = runner.take() {
            r.drv.node.destroy();
        }
    }
    report
}
