//! C10 — freezing old blocks is invisible to every chain query and survives crashes.
//!
//! A real node with the freezer enabled and a twin without it receive the same deliveries (a
//! five-epoch chain with transactions, an uncle, proposals and side-chain blocks at heights that
//! become frozen).  After every delivery a freeze pass is run synchronously on the freezing node
//! and a query battery over every block / transaction / cell is compared between the two.
//! Crash family: a child process is killed at every point of the freeze + wipe-out sequence
//! (before each data write, between data and index write, before the fsync, before each
//! database batch); the directory is re-opened and must answer like the twin and continue.
use crate::core::*;
use crate::forge::*;
use crate::node::*;
use crate::props::c02::TxUniverse;
use crate::world::*;
use ckb_chain_spec::consensus::Consensus;
use ckb_store::ChainStore;
use ckb_traits::ExtensionProvider;
use ckb_types::{core::BlockView, packed, prelude::*};
use serde::{Deserialize, Serialize};
use serde_json::{Value, json};
use std::collections::BTreeMap;
use std::path::Path;
use std::process::Command;

pub const CHAIN_LEN: u64 = 17;

pub struct Universe {
    pub main: Vec<BlockView>,
    /// (deliver after main height, block)
    pub sides: Vec<(u64, BlockView)>,
    pub txs: Vec<packed::Byte32>,
}

pub fn build(forge: &mut Forge, cons: &Consensus) -> Result<Universe, String> {
    build_len(forge, cons, CHAIN_LEN, true)
}

/// `with_uncle`: in the dynamic world an uncle sends the next epoch's length to the formula's lower
/// bound (300 blocks), so that universe has none
pub fn build_len(forge: &mut Forge, cons: &Consensus, chain_len: u64, with_uncle: bool) -> Result<Universe, String> {
    let txu = TxUniverse::new(cons);
    let cells = genesis_cells(cons);
    let late = simple_tx(cons, &cells[5..6], 2, 7_000_000, 11);
    let mut main: Vec<BlockView> = vec![];
    let mut sides = vec![];
    let mut parent = cons.genesis_hash();
    let mut uncle: Option<BlockView> = None;
    for h in 1..=chain_len {
        let mut spec = BlockSpec { miner: 1, ..Default::default() };
        match h {
            1 => spec.proposals = vec![txu.txs["T1"].proposal_short_id(), txu.txs["T2"].proposal_short_id(), txu.txs["Ta"].proposal_short_id()],
            2 => {
                // an uncle candidate: sibling of block 2
                uncle = Some(forge.build_on(&parent, &BlockSpec { miner: 9, ts_offset: 9, proposals: vec![packed::ProposalShortId::new([7; 10])], ..Default::default() })?);
            }
            3 => {
                spec.txs = vec![txu.txs["T1"].clone(), txu.txs["T2"].clone()];
                if with_uncle {
                    spec.uncles = vec![uncle.as_ref().unwrap().as_uncle()];
                }
            }
            4 => spec.txs = vec![txu.txs["Ta"].clone()],
            9 => spec.proposals = vec![late.proposal_short_id()],
            11 => spec.txs = vec![late.clone()],
            _ => {}
        }
        // side-chain blocks: at heights 3, 4 and 11 (where the main block carries transactions and
        // the competitor only a cellbase), two at heights 5,6, one at 10, one at 13
        if h == 3 || h == 4 || h == 5 || h == 10 || h == 11 || h == 13 {
            let s1 = forge.build_on(&parent, &BlockSpec { miner: 5, ts_offset: 5, ..Default::default() })?;
            sides.push((h, s1.clone()));
            if h == 5 {
                let s2 = forge.build_on(&s1.hash(), &BlockSpec { miner: 5, ts_offset: 5, ..Default::default() })?;
                sides.push((h + 1, s2));
            }
        }
        let b = forge.build_on(&parent, &spec)?;
        parent = b.hash();
        main.push(b);
    }
    forge.goto(&parent)?;
    let txs = vec![txu.txs["T1"].hash(), txu.txs["T2"].hash(), txu.txs["Ta"].hash(), late.hash()];
    Ok(Universe { main, sides, txs })
}

/// delivery order: main blocks in order, each side block right after the main block of its height
pub fn deliveries(u: &Universe) -> Vec<(String, BlockView)> {
    let mut out = vec![];
    for b in &u.main {
        out.push((format!("M{}", b.number()), b.clone()));
        for (after, s) in &u.sides {
            if *after == b.number() {
                out.push((format!("S{}", s.number()), s.clone()));
            }
        }
    }
    out
}

fn opt<T: AsRef<[u8]>>(v: Option<T>) -> String {
    match v {
        Some(b) => hex(b.as_ref()),
        None => "None".into(),
    }
}

/// Every query the property names, over every block / tx / cell of the universe.
/// Only blocks delivered so far are queried (`upto` deliveries): asking the store about a hash
/// it has never seen would leave negative entries in its read caches, which is C14's subject.
pub fn battery<S: ChainStore>(s: &S, u: &Universe, cons: &Consensus, upto: usize) -> BTreeMap<String, String> {
    let mut m = BTreeMap::new();
    let mut blocks: Vec<(String, BlockView)> = vec![("G".into(), cons.genesis_block().clone())];
    blocks.extend(deliveries(u).into_iter().take(upto));
    let tip = s.get_tip_header().map(|h| h.hash()).unwrap_or_default();
    for (name, b) in &blocks {
        let h = b.hash();
        m.insert(format!("{name}/get_block"), opt(s.get_block(&h).map(|x| x.data().as_slice().to_vec())));
        m.insert(format!("{name}/get_packed_block"), opt(s.get_packed_block(&h).map(|x| x.as_slice().to_vec())));
        m.insert(format!("{name}/get_block_header"), opt(s.get_block_header(&h).map(|x| x.data().as_slice().to_vec())));
        m.insert(format!("{name}/get_packed_block_header"), opt(s.get_packed_block_header(&h).map(|x| x.as_slice().to_vec())));
        m.insert(format!("{name}/get_block_body"), s.get_block_body(&h).iter().map(|t| hex(t.data().as_slice())).collect::<Vec<_>>().join(","));
        m.insert(format!("{name}/get_block_txs_hashes"), s.get_block_txs_hashes(&h).iter().map(|t| hex(t.as_slice())).collect::<Vec<_>>().join(","));
        m.insert(format!("{name}/get_cellbase"), opt(s.get_cellbase(&h).map(|x| x.data().as_slice().to_vec())));
        m.insert(format!("{name}/get_block_uncles"), opt(s.get_block_uncles(&h).map(|x| x.data().as_slice().to_vec())));
        m.insert(format!("{name}/get_block_proposal_txs_ids"), opt(s.get_block_proposal_txs_ids(&h).map(|x| x.as_slice().to_vec())));
        m.insert(format!("{name}/get_block_extension"), opt(s.get_block_extension(&h).map(|x| x.as_slice().to_vec())));
        m.insert(format!("{name}/ExtensionProvider"), opt(s.borrow_as_data_loader().get_block_extension(&h).map(|x| x.as_slice().to_vec())));
        m.insert(format!("{name}/get_block_ext"), s.get_block_ext(&h).map(|e| format!("{:#x}/{}/{:?}/{:?}", e.total_difficulty, e.total_uncles_count, e.verified, e.txs_fees)).unwrap_or("None".into()));
        m.insert(format!("{name}/get_block_number"), format!("{:?}", s.get_block_number(&h)));
        m.insert(format!("{name}/is_main_chain"), format!("{}", s.is_main_chain(&h)));
        m.insert(format!("{name}/block_exists"), format!("{}", s.block_exists(&h)));
        m.insert(format!("{name}/get_block_epoch"), opt(s.get_block_epoch(&h).map(|e| Into::<packed::EpochExt>::into(&e).as_slice().to_vec())));
        m.insert(format!("{name}/get_ancestor_from_tip"), opt(s.get_ancestor(&tip, b.number()).map(|x| x.hash().as_slice().to_vec())));
        m.insert(format!("n{}/get_block_hash", b.number()), opt(s.get_block_hash(b.number()).map(|x| x.as_slice().to_vec())));
        for (ti, tx) in b.transactions().iter().enumerate() {
            for oi in 0..tx.outputs().len() {
                let op = packed::OutPoint::new(tx.hash(), oi as u32);
                m.insert(format!("{name}/tx{ti}/out{oi}/get_cell"), s.get_cell(&op).map(|c| format!("{}/{:?}/{}", hex(c.cell_output.as_slice()), c.transaction_info.map(|i| (i.block_number, i.index)), c.data_bytes)).unwrap_or("None".into()));
                // "live cell reads": data is asked for live cells only (the cell-data read cache keeps
                // entries of spent cells; whether that is acceptable is C14's question, not C10's)
                if s.get_cell(&op).is_some() {
                    m.insert(format!("{name}/tx{ti}/out{oi}/get_cell_data"), s.get_cell_data(&op).map(|(d, h)| format!("{}/{}", hex(&d), hex(h.as_slice()))).unwrap_or("None".into()));
                }
            }
        }
    }
    for (i, tx) in u.txs.iter().enumerate() {
        m.insert(format!("T{i}/get_transaction"), s.get_transaction(tx).map(|(t, h)| format!("{}@{}", hex(t.data().as_slice()), hex(h.as_slice()))).unwrap_or("None".into()));
        m.insert(format!("T{i}/get_transaction_info"), s.get_transaction_info(tx).map(|i| format!("{}/{}/{}", hex(i.block_hash.as_slice()), i.block_number, i.index)).unwrap_or("None".into()));
        m.insert(format!("T{i}/get_transaction_with_info"), s.get_transaction_with_info(tx).map(|(t, i)| format!("{}@{}", hex(t.data().as_slice()), i.block_number)).unwrap_or("None".into()));
    }
    m
}

/// keys whose answers legitimately differ: everything about a side-chain block at a frozen height
fn exempt(key: &str, u: &Universe, frozen_below: u64) -> bool {
    if let Some(rest) = key.strip_prefix('S') {
        let n: u64 = rest.split('/').next().unwrap_or("0").parse().unwrap_or(0);
        let _ = u;
        return n < frozen_below;
    }
    false
}

fn compare_battery(tag: &str, f: &BTreeMap<String, String>, n: &BTreeMap<String, String>, u: &Universe, frozen_below: u64, report: &mut Report, label: &Value) {
    for (k, want) in n {
        if exempt(k, u, frozen_below) {
            continue;
        }
        let got = f.get(k).cloned().unwrap_or_default();
        report.count("queries_compared", 1);
        if &got != want {
            let getter = k.rsplit('/').next().unwrap_or(k).to_string();
            let short = |s: &str| if s.len() > 60 { format!("{}..({} hex chars)", &s[..40], s.len()) } else { s.to_string() };
            report.violation(
                format!("{tag}/{getter}"),
                format!("{k}: freezing node answers {}, never-frozen twin answers {} (blocks below {frozen_below} frozen)", short(&got), short(want)),
                label.clone(),
            );
        }
    }
}

/// world-independent form: the number of the last block of the epoch two before the tip's, read
/// from the main chain's headers (0 while the tip is in epoch 0..=2)
fn expected_threshold_of(main: &[BlockView]) -> u64 {
    let e = main.last().map(|b| b.epoch().number()).unwrap_or(0);
    if e <= 2 {
        return 0;
    }
    main.iter().find(|b| b.number() > 0 && b.epoch().number() == e - 1).map(|b| b.number() - 1).unwrap_or(0)
}

fn expected_threshold(tip: u64) -> u64 {
    // 4-block epochs: epoch e = tip / 4; freeze acts when e > 2: threshold = number of the last
    // block of epoch e-2 = 4*(e-1) - 1; the freezer then holds blocks 1..threshold-1
    let e = tip / 4;
    if e <= 2 { 0 } else { 4 * (e - 1) - 1 }
}

fn freezer_number(node: &Node) -> u64 {
    node.shared.store().freezer().map(|f| f.number()).unwrap_or(0)
}

fn check_policy(node: &Node, tip: u64, prev_number: u64, report: &mut Report, label: &Value) -> u64 {
    let num = freezer_number(node);
    let th = expected_threshold_of(&node.main_chain());
    if !node.shared.consensus().permanent_difficulty() || tip == 0 {
        // (dynamic world: only the general form applies)
    } else if th != expected_threshold(tip) {
        report.violation("reference/threshold-forms-disagree", format!("tip {tip}: {th} vs {}", expected_threshold(tip)), label.clone());
    }
    if th > 0 && num > th.max(1) {
        report.violation("policy/too-young-block-frozen", format!("tip {tip}: freezer holds blocks below {num}, the two-epoch threshold is {th}"), label.clone());
    }
    if th == 0 && num > 1 {
        report.violation("policy/frozen-before-threshold", format!("tip {tip}: freezer number {num} although the chain has not passed two epochs"), label.clone());
    }
    if num < prev_number {
        report.violation("policy/freezer-went-backwards", format!("freezer number {prev_number} -> {num}"), label.clone());
    }
    num
}

fn freezing_opts(cons: &Consensus, dir: &Path) -> NodeOpts {
    let mut o = NodeOpts::new(cons.clone());
    o.ancient = Some(dir.join("ancient"));
    let mut sc = ckb_app_config::StoreConfig::default();
    sc.freezer_enable = true;
    o.store_config = Some(sc);
    o
}

pub fn meta(_tier: Tier) -> Meta {
    Meta {
        id: "C10",
        level: "fault_enumeration",
        rule: "history family: after every delivery of a 17-block five-epoch chain (txs, uncle, proposals, side blocks at heights 3,4,5,6,10,11,13 (3,4,11 compete with transaction-bearing main blocks)) a synchronous freeze pass runs on the freezing node; the full query battery (every getter the property names, for every block, tx and cell; store and snapshot) is compared with a twin that never freezes; a restart is inserted after every pass that froze something. crash family: a child is killed at EVERY point of a freeze+wipe pass (freezer points before data / between data and index / before fsync, and every database batch write), for the first pass (tip 12) and the second (tip 16); the parent re-opens, compares the battery, runs the next pass, extends the chain. power-loss family: the child runs under an fsync-logging interposer with a 1500-byte data-file limit; every subset of unsynced freezer-file tails is lost at the crash points from the fsync on (thorough: all). I/O-error family: the n-th write(2) to the index file / the data files during the pass fails once with ENOSPC, for every n; a pass reporting success is followed by three more passes in the same process, one reporting an error ends freezing for that process; restart; judged like a crash image. non-trivial = comparisons made while at least one block is frozen; distinct = (family, tip or crash point).",
        assumptions: &["flat world, 4-block epochs", "process-crash model", "answers about side-chain blocks at frozen heights are exempt (the statement says they are removed)"],
        bounds: json!({"chain_length": CHAIN_LEN, "crash_points": "all of pass 1 and pass 2", "restarts": "after every pass that froze"}),
    }
}

#[derive(Clone, Debug, Serialize, Deserialize)]
pub struct FreezeRunSpec {
    pub blocks_hex: Vec<String>,
    /// deliver this many blocks, running a normal freeze pass after each; then one more pass that
    /// is killed at its `crash_at`-th point
    pub deliver: usize,
}

fn hex_block(b: &BlockView) -> String {
    hex(b.data().as_slice())
}
fn block_from_hex(s: &str) -> BlockView {
    let bytes: Vec<u8> = (0..s.len()).step_by(2).map(|i| u8::from_str_radix(&s[i..i + 2], 16).unwrap()).collect();
    packed::Block::from_compatible_slice(&bytes).expect("block").into_view()
}

static KINDS: std::sync::Mutex<Vec<&'static str>> = std::sync::Mutex::new(vec![]);

fn point_hook(kind: &'static str) {
    if let Ok(mut k) = KINDS.lock() {
        k.push(kind);
    }
    ckb_db::verif::point(kind)
}

/// child: `ckbmc freezerun <spec.json> <dir> <crash_at>`
pub fn freezerun_main(args: &[String]) -> i32 {
    let spec: FreezeRunSpec = serde_json::from_str(&std::fs::read_to_string(&args[0]).expect("spec")).expect("json");
    let dir = Path::new(&args[1]);
    let crash_at: u64 = args[2].parse().unwrap();
    let _ = ckb_freezer::VERIF_POINT.set(point_hook);
    if let Some(sz) = std::env::var("VERIF_FREEZER_FILE_SIZE").ok().and_then(|s| s.parse::<u64>().ok()) {
        ckb_freezer::VERIF_MAX_FILE_SIZE.store(sz, std::sync::atomic::Ordering::SeqCst);
    }
    let cons = consensus(&WorldOpts::default());
    set_time(time_for_height(1));
    let node = match Node::boot(dir, &freezing_opts(&cons, dir)) {
        Ok(n) => n,
        Err(e) => {
            eprintln!("freezerun boot: {e}");
            return 3;
        }
    };
    let _ = node.wait_startup();
    let blocks: Vec<BlockView> = spec.blocks_hex.iter().map(|h| block_from_hex(h)).collect();
    for (i, b) in blocks.iter().take(spec.deliver).enumerate() {
        set_time(b.timestamp());
        if let Err(e) = node.process(b) {
            eprintln!("freezerun: block refused: {e}");
            return 3;
        }
        // all passes but the last run to completion
        if i + 1 < spec.deliver {
            if let Err(e) = node.shared.verif_freeze_once() {
                eprintln!("freezerun: freeze pass failed: {e}");
                return 3;
            }
        }
    }
    let before = ckb_db::verif::POINTS.load(std::sync::atomic::Ordering::SeqCst);
    KINDS.lock().unwrap().clear();
    if crash_at > 0 {
        ckb_db::verif::CRASH_AT.store(before + crash_at, std::sync::atomic::Ordering::SeqCst);
    }
    // I/O-error family: a write of this pass fails once (the interposer reads the variable)
    let iofail = std::env::var("VERIF_IOFAIL_SPEC").ok();
    if let Some(spec) = &iofail {
        // "sync@<substring>:<n>" fails the n-th fsync, anything else the n-th write
        match spec.strip_prefix("sync@") {
            Some(rest) => unsafe { std::env::set_var("VERIF_IOFAIL_SYNC", rest) },
            None => unsafe { std::env::set_var("VERIF_IOFAIL", spec) },
        }
    }
    let r = node.shared.verif_freeze_once();
    if iofail.is_some() {
        unsafe { std::env::set_var("VERIF_IOFAIL", "") };
        unsafe { std::env::set_var("VERIF_IOFAIL_SYNC", "") };
        // the production freezer thread ends at the first pass that returns an error and keeps
        // ticking otherwise: the next passes of this process
        let mut more = 0;
        if r.is_ok() {
            for _ in 0..3 {
                more += 1;
                if node.shared.verif_freeze_once().is_err() {
                    break;
                }
            }
        }
        println!("IOFAIL pass={} later_passes={more}", if r.is_ok() { "ok" } else { "err" });
    }
    let after = ckb_db::verif::POINTS.load(std::sync::atomic::Ordering::SeqCst);
    println!("POINTS {} RESULT {:?}", after - before, r.map_err(|e| e.to_string()));
    // positions (1-based, within the pass) of the freezer's own points; database writes are not named
    let kinds = KINDS.lock().unwrap().clone();
    println!("FREEZER-POINT-KINDS {}", kinds.join(","));
    use std::io::Write;
    let _ = std::io::stdout().flush();
    unsafe extern "C" {
        fn _exit(code: i32) -> !;
    }
    unsafe { _exit(0) }
}

fn run_child(exe: &Path, spec: &Path, dir: &Path, crash_at: u64) -> Result<(i32, u64, String), String> {
    let out = Command::new(exe).arg("freezerun").arg(spec).arg(dir).arg(crash_at.to_string()).output().map_err(|e| e.to_string())?;
    let code = out.status.code().unwrap_or(-1);
    let so = String::from_utf8_lossy(&out.stdout).to_string();
    let points = so.lines().find_map(|l| l.strip_prefix("POINTS ").and_then(|r| r.split_whitespace().next()).and_then(|p| p.parse().ok())).unwrap_or(0);
    if code != 0 && code != 86 {
        return Err(format!("child exit {code}: {}", String::from_utf8_lossy(&out.stderr).lines().rev().take(6).collect::<Vec<_>>().join(" | ")));
    }
    Ok((code, points, so))
}

pub fn run(ctx: &Ctx) -> Report {
    let mut report = Report::new();
    let cons = consensus(&WorldOpts::default());
    set_time(time_for_height(1));
    let _ = ckb_freezer::VERIF_POINT.set(point_hook);
    let mut forge = match Forge::new(&ctx.scratch.join("forge"), &cons) {
        Ok(f) => f,
        Err(e) => {
            report.machinery_errors.push(e);
            return report;
        }
    };
    let u = match build(&mut forge, &cons) {
        Ok(u) => u,
        Err(e) => {
            report.machinery_errors.push(format!("universe: {e}"));
            return report;
        }
    };
    drop(forge);
    let dl = deliveries(&u);
    let replay: Option<Value> = ctx.replay.as_ref().map(|p| load_replay_case(p));
    if replay.is_some() {
        report.outcomes.insert(0);
    }
    let want_family = replay.as_ref().and_then(|v| v["family"].as_str().map(|s| s.to_string()));

    // ---------------- history family (shard 0 only: it is one long history)
    if (ctx.shard == 0 && replay.is_none()) || want_family.as_deref() == Some("history") {
        if let Err(e) = history_family(ctx, &cons, &u, &dl, &mut report) {
            report.machinery_errors.push(format!("history family: {e}"));
            return report;
        }
    }
    // ---------------- history family in the dynamic-difficulty world (epochs of 4, 8, 16 blocks: the
    // two-epoch threshold moves by a different amount at every epoch boundary)
    if (ctx.shard == 1 % ctx.shards && replay.is_none()) || want_family.as_deref() == Some("history-dynamic") {
        let mut go = || -> Result<(), String> {
            let mut w = WorldOpts::default();
            w.permanent_difficulty = false;
            w.genesis_compact_target = ckb_types::utilities::difficulty_to_compact(ckb_types::U256::from(1u64 << 24));
            let dcons = consensus(&w);
            set_time(time_for_height(1));
            let mut forge = Forge::new(&ctx.scratch.join("forge-dyn"), &dcons)?;
            let du = build_len(&mut forge, &dcons, 34, false)?;
            drop(forge);
            let ddl = deliveries(&du);
            let lens: std::collections::BTreeSet<u64> = du.main.iter().map(|b| b.epoch().length()).collect();
            if lens.len() < 3 {
                return Err(format!("the dynamic world gave epoch lengths {lens:?}"));
            }
            history_family_in(ctx, &dcons, &du, &ddl, "history-dynamic", &mut report)
        };
        if let Err(e) = go() {
            report.machinery_errors.push(format!("history family (dynamic world): {e}"));
            return report;
        }
    }
    // ---------------- history family with small data files, one process for all passes, a reader between passes
    if (ctx.shard == 2 % ctx.shards && replay.is_none()) || want_family.as_deref() == Some("history-small-files-no-restart") {
        if let Err(e) = history_family_in(ctx, &cons, &u, &dl, "history-small-files-no-restart", &mut report) {
            report.machinery_errors.push(format!("history family (small files, no restart): {e}"));
            return report;
        }
    }
    // ---------------- crash family
    if replay.is_none() || want_family.as_deref() == Some("crash") {
        let only: Option<(usize, u64)> = replay.as_ref().map(|v| (v["deliver"].as_u64().unwrap() as usize, v["crash_at"].as_u64().unwrap()));
        if let Err(e) = crash_family(ctx, &cons, &u, &dl, only, &mut report) {
            report.machinery_errors.push(format!("crash family: {e}"));
        }
    }
    // ---------------- I/O-error family
    if replay.is_none() || want_family.as_deref() == Some("io-error") {
        if let Err(e) = io_error_family(ctx, &cons, &u, &dl, replay.as_ref(), &mut report) {
            report.machinery_errors.push(format!("I/O-error family: {e}"));
        }
    }
    // ---------------- power-loss family
    if replay.is_none() || want_family.as_deref() == Some("power-loss") {
        if let Err(e) = power_loss_family(ctx, &cons, &u, &dl, replay.as_ref(), &mut report) {
            report.machinery_errors.push(format!("power-loss family: {e}"));
        }
    }
    report
}

fn twin_at(ctx: &Ctx, cons: &Consensus, dl: &[(String, BlockView)], upto: usize, tag: &str) -> Result<Node, String> {
    let dir = ctx.scratch.join(format!("twin-{tag}"));
    let _ = std::fs::remove_dir_all(&dir);
    let twin = Node::boot(&dir, &NodeOpts::new(cons.clone()))?;
    twin.wait_startup()?;
    for (_, b) in dl.iter().take(upto) {
        twin.process(b).map_err(|e| format!("twin refused: {e}"))?;
    }
    Ok(twin)
}

fn history_family(ctx: &Ctx, cons: &Consensus, u: &Universe, dl: &[(String, BlockView)], report: &mut Report) -> Result<(), String> {
    history_family_in(ctx, cons, u, dl, "history", report)
}

fn history_family_in(ctx: &Ctx, cons: &Consensus, u: &Universe, dl: &[(String, BlockView)], fam: &str, report: &mut Report) -> Result<(), String> {
    // variant "small-files-no-restart": 1500-byte data files (every pass rolls over), the process
    // lives through all passes, and between two passes a reader fetches a frozen block that is not
    // the newest item of the head file
    let small = fam.contains("small-files");
    let restarts = !fam.contains("no-restart");
    if small {
        ckb_freezer::VERIF_MAX_FILE_SIZE.store(POWER_LOSS_FILE_SIZE, std::sync::atomic::Ordering::SeqCst);
    }
    let r = match std::panic::catch_unwind(std::panic::AssertUnwindSafe(|| history_family_body(ctx, cons, u, dl, fam, restarts, report))) {
        Ok(r) => r,
        Err(p) => {
            let msg = p.downcast_ref::<String>().cloned().or_else(|| p.downcast_ref::<&str>().map(|s| s.to_string())).unwrap_or_default();
            report.violation("history/node-panicked", format!("{fam}: the freezing node panicked while blocks were delivered, frozen and read: {msg}"), json!({"family": fam}));
            Ok(())
        }
    };
    if small {
        ckb_freezer::VERIF_MAX_FILE_SIZE.store(0, std::sync::atomic::Ordering::SeqCst);
    }
    r
}

fn history_family_body(ctx: &Ctx, cons: &Consensus, u: &Universe, dl: &[(String, BlockView)], fam: &str, restarts: bool, report: &mut Report) -> Result<(), String> {
    let fdir = ctx.scratch.join(format!("freezing-{fam}"));
    let _ = std::fs::remove_dir_all(&fdir);
    let mut f = Node::boot(&fdir, &freezing_opts(cons, &fdir))?;
    f.wait_startup()?;
    let twin = twin_at(ctx, cons, dl, 0, fam)?;
    let mut prev_number = freezer_number(&f);
    for (i, (name, b)) in dl.iter().enumerate() {
        set_time(b.timestamp());
        f.process(b).map_err(|e| format!("freezing node refused {name}: {e}"))?;
        twin.process(b).map_err(|e| format!("twin refused {name}: {e}"))?;
        report.transitions += 1;
        let label = json!({"family": fam, "after": name, "step": i});
        let pass = std::panic::catch_unwind(std::panic::AssertUnwindSafe(|| f.shared.verif_freeze_once()));
        match pass {
            Ok(Ok(())) => {}
            Ok(Err(e)) => report.violation("freeze-pass-error", format!("freeze pass after {name} failed: {e}"), label.clone()),
            Err(_) => {
                report.violation("freeze-pass-panicked", format!("freeze pass after {name} panicked"), label.clone());
                return Ok(());
            }
        }
        let tipn = f.tip().number();
        let num = check_policy(&f, tipn, prev_number, report, &label);
        let froze = num > prev_number;
        prev_number = num;
        let fb = match std::panic::catch_unwind(std::panic::AssertUnwindSafe(|| battery(f.shared.store(), u, cons, i + 1))) {
            Ok(b) => b,
            Err(_) => {
                report.violation("history/query-panicked", format!("a chain query panicked after the freeze pass that followed {name} (freezer number {num})"), label.clone());
                return Ok(());
            }
        };
        let tb = battery(twin.shared.store(), u, cons, i + 1);
        compare_battery("store", &fb, &tb, u, num, report, &label);
        let fs = battery(f.shared.snapshot().as_ref(), u, cons, i + 1);
        compare_battery("snapshot", &fs, &tb, u, num, report, &label);
        report.evaluations += 1;
        report.states.insert(fp(&(fam, tipn, num)));
        report.outcomes.insert(fp(&(num, fb.values().filter(|v| v.as_str() == "None").count())));
        if num > 1 {
            report.nontrivial.insert(fp(&(fam, i)));
        }
        if !restarts && num > 3 {
            // a reader between two passes: a frozen block that is not the newest one
            let snap = f.shared.snapshot();
            // (the newest frozen block is number num - 1; the reader takes the two below it, the
            // nearer one last)
            for n in [num - 3, num - 2] {
                if let Some(h) = snap.get_block_hash(n) {
                    let _ = std::panic::catch_unwind(std::panic::AssertUnwindSafe(|| f.shared.store().get_block(&h)));
                    report.count("reads_between_freeze_passes", 1);
                }
            }
        }
        if froze && restarts {
            // restart: answers must survive a re-open
            f.shutdown();
            f = Node::boot(&fdir, &freezing_opts(cons, &fdir)).map_err(|e| format!("re-open after freezing failed: {e}"))?;
            f.wait_startup()?;
            report.count("restarts_after_freeze", 1);
            let fb2 = battery(f.shared.store(), u, cons, i + 1);
            compare_battery("after-restart", &fb2, &tb, u, num, report, &label);
            if freezer_number(&f) != num {
                report.violation("policy/freezer-number-changed-by-restart", format!("freezer number {num} -> {} across restart", freezer_number(&f)), label.clone());
            }
            report.sample(json!({"family": fam, "after": name, "freezer_number": num, "queries": fb.len()}));
        }
    }
    report.traces += 1;
    f.shutdown();
    twin.shutdown();
    Ok(())
}

/// Re-opens the node directory `dir` left by an interrupted freeze pass, compares the query battery
/// with the twins, runs the next pass, extends the chain to the end and compares again.
#[allow(clippy::too_many_arguments)]
fn recover_and_judge(cons: &Consensus, u: &Universe, dl: &[(String, BlockView)], dir: &Path, deliver: usize, fam: &str, what: &str, label: &Value, tb_same: &BTreeMap<String, String>, tb_full: &BTreeMap<String, String>, sample: bool, report: &mut Report) -> Result<(), String> {
    set_time(dl[deliver - 1].1.timestamp());
    let booted = std::panic::catch_unwind(|| Node::boot(dir, &freezing_opts(cons, dir)));
    let f = match booted {
        Ok(Ok(f)) => f,
        Ok(Err(e)) => {
            report.violation(format!("{fam}/reopen-failed"), format!("re-open after {what} failed: {e}"), label.clone());
            return Ok(());
        }
        Err(_) => {
            report.violation(format!("{fam}/reopen-panicked"), format!("re-open after {what} panicked"), label.clone());
            return Ok(());
        }
    };
    f.wait_startup()?;
    let num = freezer_number(&f);
    let q = std::panic::catch_unwind(std::panic::AssertUnwindSafe(|| battery(f.shared.store(), u, cons, deliver)));
    match q {
        Ok(fb) => compare_battery(&format!("{fam}-recovered"), &fb, tb_same, u, num, report, label),
        Err(_) => {
            report.violation(format!("{fam}/query-panicked"), format!("a chain query panicked after {what}"), label.clone());
            f.shutdown();
            return Ok(());
        }
    }
    // the next run continues
    let pass = std::panic::catch_unwind(std::panic::AssertUnwindSafe(|| f.shared.verif_freeze_once()));
    match pass {
        Ok(Ok(())) => {}
        Ok(Err(e)) => report.violation(format!("{fam}/next-pass-error"), format!("the freeze pass after {what} failed: {e}"), label.clone()),
        Err(_) => report.violation(format!("{fam}/next-pass-panicked"), format!("the freeze pass after {what} panicked"), label.clone()),
    }
    let tipn = f.tip().number();
    let num2 = check_policy(&f, tipn, num, report, label);
    if num2 != expected_threshold(tipn).max(1) {
        report.violation(format!("{fam}/next-pass-did-not-continue"), format!("after {what} and one more pass the freezer holds blocks below {num2}, expected {}", expected_threshold(tipn)), label.clone());
    }
    let q = std::panic::catch_unwind(std::panic::AssertUnwindSafe(|| battery(f.shared.store(), u, cons, deliver)));
    if let Ok(fb) = q {
        compare_battery(&format!("{fam}-after-next-pass"), &fb, tb_same, u, num2, report, label);
    }
    // extend the chain to the end, with passes
    let mut ok = true;
    for (name, b) in dl.iter().skip(deliver) {
        set_time(b.timestamp());
        if let Err(e) = f.process(b) {
            report.violation(format!("{fam}/valid-block-refused-after-recovery"), format!("{name} refused after recovery: {e}"), label.clone());
            ok = false;
            break;
        }
        let _ = std::panic::catch_unwind(std::panic::AssertUnwindSafe(|| f.shared.verif_freeze_once()));
    }
    if ok {
        let num3 = freezer_number(&f);
        if let Ok(fb) = std::panic::catch_unwind(std::panic::AssertUnwindSafe(|| battery(f.shared.store(), u, cons, dl.len()))) {
            compare_battery(&format!("{fam}-final"), &fb, tb_full, u, num3, report, label);
        }
    }
    report.evaluations += 1;
    report.traces += 1;
    report.transitions += (dl.len() - deliver) as u64 + 2;
    report.states.insert(fp(&(label.to_string(), num)));
    report.outcomes.insert(fp(&(num, num2)));
    report.nontrivial.insert(fp(&label.to_string()));
    if sample {
        report.sample(json!({"case": label, "freezer_number_at_reopen": num, "after_next_pass": num2}));
    }
    f.shutdown();
    Ok(())
}

fn crash_family(ctx: &Ctx, cons: &Consensus, u: &Universe, dl: &[(String, BlockView)], only: Option<(usize, u64)>, report: &mut Report) -> Result<(), String> {
    let exe = std::env::current_exe().map_err(|e| e.to_string())?;
    // pass 1 happens at the delivery that makes the tip 12, pass 2 at tip 16
    let idx_of = |n: u64| dl.iter().position(|(name, _)| name == &format!("M{n}")).unwrap() + 1;
    let passes: Vec<usize> = match only {
        Some((d, _)) => vec![d],
        None => vec![idx_of(12), idx_of(16)],
    };
    for deliver in passes {
        let spec = FreezeRunSpec { blocks_hex: dl.iter().map(|(_, b)| hex_block(b)).collect(), deliver };
        let spec_file = ctx.scratch.join(format!("fspec-{deliver}.json"));
        std::fs::write(&spec_file, serde_json::to_string(&spec).unwrap()).unwrap();
        let dir = ctx.scratch.join(format!("fdata-{deliver}"));
        let _ = std::fs::remove_dir_all(&dir);
        let (code, points, so) = run_child(&exe, &spec_file, &dir, 0)?;
        if code != 0 || points == 0 {
            return Err(format!("crash-free freeze child: exit {code}, {points} points: {so}"));
        }
        report.max_counter("max_points_per_pass", points);
        let twin = twin_at(ctx, cons, dl, dl.len(), &format!("crash-{deliver}"))?;
        // the twin for the first comparison must be at the same tip: build a second one
        let twin_same = twin_at(ctx, cons, dl, deliver, &format!("crash-same-{deliver}"))?;
        let tb_same = battery(twin_same.shared.store(), u, cons, deliver);
        let tb_full = battery(twin.shared.store(), u, cons, dl.len());
        let ns: Vec<u64> = match only {
            Some((_, n)) => vec![n],
            None => (1..=points).collect(),
        };
        for n in ns {
            if only.is_none() && !ctx.mine(deliver as u64 * 1000 + n) {
                continue;
            }
            if ctx.out_of_time() {
                report.cap_hit = Some(format!("wall budget reached at pass {deliver} point {n}"));
                return Ok(());
            }
            let _ = std::fs::remove_dir_all(&dir);
            let (code, _, _) = run_child(&exe, &spec_file, &dir, n)?;
            if code != 86 {
                report.count("children_finished_before_crash_point", 1);
                continue;
            }
            let label = json!({"family": "crash", "deliver": deliver, "crash_at": n});
            let what = format!("a crash at point {n} of the freeze pass");
            recover_and_judge(cons, u, dl, &dir, deliver, "crash", &what, &label, &tb_same, &tb_full, n == 1 || n == points, report)?;
        }
        twin.shutdown();
        twin_same.shutdown();
    }
    Ok(())
}

// ---------------------------------------------------------------------------------------
// Power-loss family.  The crash family kills the process: whatever it had written is still in the
// files.  A machine crash also loses what no completed fsync covers.  The child runs under an
// LD_PRELOAD interposer that logs every successful fsync / fdatasync with the file's size at that
// moment; after the child has been killed at a point of the pass (or has finished it), every
// freezer file whose final size exceeds its size at its last logged fsync has a tail that may be
// gone.  Every subset of those files is cut back to its last synced size (a never-synced newest
// data file may also be missing), plus each single file to the middle of its unsynced tail; the
// database directory is left as the child left it (the first wipe-out batch is a synced write, and
// kernel write-back may well have flushed the write-ahead log before the freezer's pages).  The
// freezer's data-file limit is lowered so that a pass rolls over several times.

pub const POWER_LOSS_FILE_SIZE: u64 = 1500;

fn fsynclog_so() -> Result<std::path::PathBuf, String> {
    let p = std::env::var("VERIF_FSYNCLOG_SO").map(std::path::PathBuf::from).unwrap_or_else(|_| std::path::PathBuf::from("/verif/harness/target/fsynclog.so"));
    if p.is_file() { Ok(p) } else { Err(format!("{} not built (bin/check builds it from harness/fsynclog.c)", p.display())) }
}

fn run_child_logged(exe: &Path, spec: &Path, dir: &Path, crash_at: u64, log: &Path) -> Result<(i32, u64, String), String> {
    let _ = std::fs::remove_file(log);
    let out = Command::new(exe)
        .arg("freezerun")
        .arg(spec)
        .arg(dir)
        .arg(crash_at.to_string())
        .env("LD_PRELOAD", fsynclog_so()?)
        .env("FSYNCLOG", log)
        .env("VERIF_FREEZER_FILE_SIZE", POWER_LOSS_FILE_SIZE.to_string())
        .output()
        .map_err(|e| e.to_string())?;
    let code = out.status.code().unwrap_or(-1);
    let so = String::from_utf8_lossy(&out.stdout).to_string();
    let points = so.lines().find_map(|l| l.strip_prefix("POINTS ").and_then(|r| r.split_whitespace().next()).and_then(|p| p.parse().ok())).unwrap_or(0);
    if code != 0 && code != 86 {
        return Err(format!("child exit {code}: {}", String::from_utf8_lossy(&out.stderr).lines().rev().take(6).collect::<Vec<_>>().join(" | ")));
    }
    Ok((code, points, so))
}

/// file name -> (size at the last logged fsync, final size) for the freezer directory
fn durable_and_final(dir: &Path, log: &Path) -> Result<BTreeMap<String, (u64, u64)>, String> {
    let ancient = dir.join("ancient");
    let mut synced: BTreeMap<String, u64> = BTreeMap::new();
    let text = std::fs::read_to_string(log).map_err(|e| format!("fsync log {}: {e} (is the interposer loaded?)", log.display()))?;
    let mut any = false;
    for line in text.lines() {
        let mut it = line.split(' ');
        let (_, path, size) = (it.next(), it.next().unwrap_or(""), it.next().and_then(|s| s.parse::<u64>().ok()).unwrap_or(0));
        any = true;
        let pth = Path::new(path);
        if pth.starts_with(&ancient) {
            if let Some(name) = pth.file_name().and_then(|n| n.to_str()) {
                synced.insert(name.to_string(), size);
            }
        }
    }
    if !any {
        return Err("the fsync log is empty: the interposer saw no fsync at all".into());
    }
    let mut out = BTreeMap::new();
    // the freezer keeps its files in a sub-directory of `ancient`
    fn walk(d: &Path, synced: &BTreeMap<String, u64>, out: &mut BTreeMap<String, (u64, u64)>) {
        if let Ok(rd) = std::fs::read_dir(d) {
            for e in rd.flatten() {
                let p = e.path();
                if p.is_dir() {
                    walk(&p, synced, out);
                } else if let (Some(name), Ok(md)) = (p.file_name().and_then(|n| n.to_str()), e.metadata()) {
                    if name == "INDEX" || name.starts_with("blk") {
                        let fin = md.len();
                        out.insert(name.to_string(), (synced.get(name).cloned().unwrap_or(0).min(fin), fin));
                    }
                }
            }
        }
    }
    walk(&ancient, &synced, &mut out);
    Ok(out)
}

fn find_file(root: &Path, name: &str) -> Option<std::path::PathBuf> {
    for e in std::fs::read_dir(root).ok()?.flatten() {
        let p = e.path();
        if p.is_dir() {
            if let Some(f) = find_file(&p, name) {
                return Some(f);
            }
        } else if p.file_name().and_then(|n| n.to_str()) == Some(name) {
            return Some(p);
        }
    }
    None
}

/// cut: file name -> Some(new length) or None (file missing)
type Cuts = BTreeMap<String, Option<u64>>;

fn loss_patterns(files: &BTreeMap<String, (u64, u64)>) -> Vec<Cuts> {
    let loose: Vec<(&String, u64, u64)> = files.iter().filter(|(_, (d, f))| d < f).map(|(n, (d, f))| (n, *d, *f)).collect();
    let newest_data = files.keys().filter(|n| n.starts_with("blk")).max().cloned();
    let mut out: Vec<Cuts> = vec![];
    let k = loose.len().min(7);
    // every subset of the files with an unsynced tail is cut back to its synced size
    for mask in 0u32..(1 << k) {
        let mut c = Cuts::new();
        for (i, (n, d, _)) in loose.iter().enumerate().take(k) {
            if mask & (1 << i) != 0 {
                c.insert((*n).clone(), Some(*d));
            }
        }
        out.push(c.clone());
        // ... and the newest data file, if it was never synced, may not exist at all
        if let Some(nd) = &newest_data {
            if c.get(nd) == Some(&Some(0)) {
                let mut c2 = c.clone();
                c2.insert(nd.clone(), None);
                out.push(c2);
            }
        }
    }
    // each single file cut inside its unsynced tail
    for (n, d, f) in &loose {
        for l in [(d + f) / 2, f - 1] {
            if l > *d && l < *f {
                let mut c = Cuts::new();
                c.insert((*n).clone(), Some(l));
                out.push(c);
            }
        }
    }
    out
}

// ---------------------------------------------------------------------------------------
// I/O-error family.  Not a crash: one write of the freeze pass fails (a disk that is full for a
// moment: ENOSPC from the interposer, once) and the process lives on.  For the n-th write to the
// index file and to the data files, every n of the pass: the pass runs with the fault; if it
// reports success the freezer thread of a real node keeps ticking (three more passes in the same
// process), if it reports an error that thread ends; then the node is restarted and judged like a
// crash image (every getter against the never-freezing twin, the next pass, the extended chain).
fn io_error_family(ctx: &Ctx, cons: &Consensus, u: &Universe, dl: &[(String, BlockView)], replay: Option<&Value>, report: &mut Report) -> Result<(), String> {
    let exe = std::env::current_exe().map_err(|e| e.to_string())?;
    let idx_of = |n: u64| dl.iter().position(|(name, _)| name == &format!("M{n}")).unwrap() + 1;
    let only: Option<(usize, String, u64)> = replay.map(|v| (v["deliver"].as_u64().unwrap() as usize, v["target"].as_str().unwrap_or("INDEX").to_string(), v["nth_write"].as_u64().unwrap()));
    let passes: Vec<usize> = match &only {
        Some((d, _, _)) => vec![*d],
        None => vec![idx_of(12), idx_of(16)],
    };
    ckb_freezer::VERIF_MAX_FILE_SIZE.store(POWER_LOSS_FILE_SIZE, std::sync::atomic::Ordering::SeqCst);
    let r = (|| -> Result<(), String> {
        let mut unit = 0u64;
        for deliver in passes {
            let spec = FreezeRunSpec { blocks_hex: dl.iter().map(|(_, b)| hex_block(b)).collect(), deliver };
            let spec_file = ctx.scratch.join(format!("iospec-{deliver}.json"));
            std::fs::write(&spec_file, serde_json::to_string(&spec).unwrap()).unwrap();
            let twin = twin_at(ctx, cons, dl, dl.len(), &format!("io-{deliver}"))?;
            let twin_same = twin_at(ctx, cons, dl, deliver, &format!("io-same-{deliver}"))?;
            let tb_same = battery(twin_same.shared.store(), u, cons, deliver);
            let tb_full = battery(twin.shared.store(), u, cons, dl.len());
            for target in ["INDEX", "blk", "fsync-blk", "fsync-INDEX"] {
                if let Some((_, t, _)) = &only {
                    if t != target {
                        continue;
                    }
                }
                let mut n = 0u64;
                loop {
                    n += 1;
                    if let Some((_, _, on)) = &only {
                        if n != *on {
                            if n > *on {
                                break;
                            }
                            continue;
                        }
                    }
                    if n > 200 {
                        return Err(format!("more than 200 writes to {target} in one pass?"));
                    }
                    unit += 1;
                    // (every shard has to learn where the writes of the pass end: the children are cheap,
                    // the judgement of an image is sharded)
                    let dir = ctx.scratch.join(format!("iodata-{deliver}-{target}-{n}"));
                    let log = ctx.scratch.join(format!("iolog-{deliver}-{target}-{n}.log"));
                    let _ = std::fs::remove_dir_all(&dir);
                    let _ = std::fs::remove_file(&log);
                    let out = Command::new(&exe)
                        .arg("freezerun")
                        .arg(&spec_file)
                        .arg(&dir)
                        .arg("0")
                        .env("LD_PRELOAD", fsynclog_so()?)
                        .env("FSYNCLOG", &log)
                        .env("VERIF_FREEZER_FILE_SIZE", POWER_LOSS_FILE_SIZE.to_string())
                        .env("VERIF_IOFAIL_SPEC", match target {
                            "INDEX" => format!("ancient/INDEX:{n}"),
                            "blk" => format!("ancient/blk:{n}"),
                            "fsync-blk" => format!("sync@ancient/blk:{n}"),
                            _ => format!("sync@ancient/INDEX:{n}"),
                        })
                        .output()
                        .map_err(|e| e.to_string())?;
                    let so = String::from_utf8_lossy(&out.stdout).to_string();
                    if out.status.code() != Some(0) {
                        // a panic of the node on an I/O error is a finding of its own
                        let err = String::from_utf8_lossy(&out.stderr).lines().rev().take(4).collect::<Vec<_>>().join(" | ");
                        report.violation("io-error/process-died", format!("the {n}-th write to {target} of the freeze pass at delivery {deliver} fails once with ENOSPC: the process exits with {:?}: {err}", out.status.code()), json!({"family": "io-error", "deliver": deliver, "target": target, "nth_write": n}));
                        let _ = std::fs::remove_dir_all(&dir);
                        continue;
                    }
                    let fired = std::fs::read_to_string(&log).map(|t| t.lines().any(|l| l.starts_with("iofail ") || l.starts_with("syncfail "))).unwrap_or(false);
                    if !fired {
                        // the pass has fewer than n writes to this target
                        let _ = std::fs::remove_dir_all(&dir);
                        let _ = std::fs::remove_file(&log);
                        report.max_counter(&format!("max_io_error_writes_to_{target}_per_pass"), n - 1);
                        if n == 1 {
                            return Err(format!("no write to {target} was seen in the pass at delivery {deliver}"));
                        }
                        break;
                    }
                    let outcome = so.lines().find_map(|l| l.strip_prefix("IOFAIL ")).unwrap_or("").to_string();
                    report.outcomes.insert(fp(&("io-error", outcome.clone())));
                    if only.is_none() && !ctx.mine(unit) {
                        let _ = std::fs::remove_dir_all(&dir);
                        let _ = std::fs::remove_file(&log);
                        continue;
                    }
                    if ctx.out_of_time() {
                        report.cap_hit = Some(format!("wall budget reached in the I/O-error family at pass {deliver}, write {n} to {target}"));
                        let _ = std::fs::remove_dir_all(&dir);
                        return Ok(());
                    }
                    let label = json!({"family": "io-error", "deliver": deliver, "target": target, "nth_write": n, "file_size_limit": POWER_LOSS_FILE_SIZE, "what_the_process_did": outcome});
                    let what = match target {
                        "INDEX" | "blk" => format!("the {n}-th write to the freezer's {} during the freeze pass fails once with ENOSPC ({outcome}), the process lives on and is restarted later", if target == "INDEX" { "index file" } else { "data files" }),
                        _ => format!("the {n}-th fsync of the freezer's {} during the freeze pass fails once with EIO ({outcome}), the process lives on and is restarted later", if target == "fsync-INDEX" { "index file" } else { "data files" }),
                    };
                    recover_and_judge(cons, u, dl, &dir, deliver, "io-error", &what, &label, &tb_same, &tb_full, n == 1, report)?;
                    report.count("io_error_images", 1);
                    let _ = std::fs::remove_dir_all(&dir);
                    let _ = std::fs::remove_file(&log);
                }
            }
            twin.shutdown();
            twin_same.shutdown();
        }
        Ok(())
    })();
    ckb_freezer::VERIF_MAX_FILE_SIZE.store(0, std::sync::atomic::Ordering::SeqCst);
    r
}

fn power_loss_family(ctx: &Ctx, cons: &Consensus, u: &Universe, dl: &[(String, BlockView)], replay: Option<&Value>, report: &mut Report) -> Result<(), String> {
    let exe = std::env::current_exe().map_err(|e| e.to_string())?;
    let idx_of = |n: u64| dl.iter().position(|(name, _)| name == &format!("M{n}")).unwrap() + 1;
    let only: Option<(usize, u64, Cuts)> = replay.map(|v| (v["deliver"].as_u64().unwrap() as usize, v["crash_at"].as_u64().unwrap(), serde_json::from_value(v["cuts"].clone()).unwrap_or_default()));
    let passes: Vec<usize> = match &only {
        Some((d, _, _)) => vec![*d],
        None => vec![idx_of(12), idx_of(16)],
    };
    ckb_freezer::VERIF_MAX_FILE_SIZE.store(POWER_LOSS_FILE_SIZE, std::sync::atomic::Ordering::SeqCst);
    let r = (|| -> Result<(), String> {
        let mut unit = 0u64;
        for deliver in passes {
            let spec = FreezeRunSpec { blocks_hex: dl.iter().map(|(_, b)| hex_block(b)).collect(), deliver };
            let spec_file = ctx.scratch.join(format!("pspec-{deliver}.json"));
            std::fs::write(&spec_file, serde_json::to_string(&spec).unwrap()).unwrap();
            let dir = ctx.scratch.join(format!("pdata-{deliver}"));
            let work = ctx.scratch.join(format!("pwork-{deliver}"));
            let log = ctx.scratch.join(format!("fsync-{deliver}.log"));
            let _ = std::fs::remove_dir_all(&dir);
            let (code, points, so) = run_child_logged(&exe, &spec_file, &dir, 0, &log)?;
            if code != 0 || points == 0 {
                return Err(format!("crash-free child: exit {code}, {points} points: {so}"));
            }
            let kinds: Vec<String> = so.lines().find_map(|l| l.strip_prefix("FREEZER-POINT-KINDS ")).map(|k| k.split(',').map(|s| s.to_string()).collect()).unwrap_or_default();
            let n_files = durable_and_final(&dir, &log)?.keys().filter(|n| n.starts_with("blk")).count();
            report.max_counter("max_power_loss_data_files", n_files as u64);
            if n_files < 2 {
                return Err(format!("the pass at delivery {deliver} did not roll over to a second data file (limit {POWER_LOSS_FILE_SIZE} bytes)"));
            }
            // crash points: 0 = the pass ran to completion (freeze, fsync, wipe-out); quick: the points
            // from the fsync on; thorough: every point
            let first_sync = kinds.iter().position(|k| k == "freezer-before-sync").map(|p| p as u64 + 1).unwrap_or(1);
            let ns: Vec<u64> = match &only {
                Some((_, n, _)) => vec![*n],
                None => {
                    let mut v = vec![0u64];
                    if ctx.tier.is_thorough() {
                        v.extend(1..=points);
                    } else {
                        v.extend(first_sync..=points);
                    }
                    v
                }
            };
            let twin = twin_at(ctx, cons, dl, dl.len(), &format!("pl-{deliver}"))?;
            let twin_same = twin_at(ctx, cons, dl, deliver, &format!("pl-same-{deliver}"))?;
            let tb_same = battery(twin_same.shared.store(), u, cons, deliver);
            let tb_full = battery(twin.shared.store(), u, cons, dl.len());
            for n in ns {
                // the child is run by every shard that owns at least one pattern of this point; cheap
                let mut child_done = false;
                let mut files = BTreeMap::new();
                let patterns: Vec<Cuts> = match &only {
                    Some((_, _, c)) => vec![c.clone()],
                    None => vec![],
                };
                let mut pats = patterns;
                let mut ensure_child = |files: &mut BTreeMap<String, (u64, u64)>, child_done: &mut bool| -> Result<bool, String> {
                    if *child_done {
                        return Ok(true);
                    }
                    let _ = std::fs::remove_dir_all(&dir);
                    let (code, _, _) = run_child_logged(&exe, &spec_file, &dir, n, &log)?;
                    if n > 0 && code != 86 {
                        return Ok(false);
                    }
                    *files = durable_and_final(&dir, &log)?;
                    *child_done = true;
                    Ok(true)
                };
                if only.is_none() {
                    // the patterns depend on the files, which depend on the point: run the child once to learn them
                    if !ensure_child(&mut files, &mut child_done)? {
                        report.count("children_finished_before_crash_point", 1);
                        continue;
                    }
                    pats = loss_patterns(&files);
                    report.max_counter("max_power_loss_files_with_unsynced_tail", files.values().filter(|(d, f)| d < f).count() as u64);
                } else if !ensure_child(&mut files, &mut child_done)? {
                    return Err("replay: the child finished before the crash point".into());
                }
                for cuts in pats {
                    unit += 1;
                    if only.is_none() && !ctx.mine(unit) {
                        continue;
                    }
                    if ctx.out_of_time() {
                        report.cap_hit = Some(format!("wall budget reached in the power-loss family at pass {deliver} point {n}"));
                        return Ok(());
                    }
                    let _ = std::fs::remove_dir_all(&work);
                    crate::core::copy_dir(&dir, &work)?;
                    for (name, cut) in &cuts {
                        let Some(path) = find_file(&work.join("ancient"), name) else { return Err(format!("file {name} not found in the copy")) };
                        match cut {
                            None => std::fs::remove_file(&path).map_err(|e| e.to_string())?,
                            Some(l) => std::fs::OpenOptions::new().write(true).open(&path).and_then(|f| f.set_len(*l)).map_err(|e| e.to_string())?,
                        }
                    }
                    let label = json!({"family": "power-loss", "deliver": deliver, "crash_at": n, "cuts": cuts, "file_size_limit": POWER_LOSS_FILE_SIZE, "files_synced_and_final": files});
                    let what = if n == 0 {
                        format!("a power loss after the completed freeze pass that loses the unsynced tails {cuts:?}")
                    } else {
                        format!("a power loss at point {n} of the freeze pass that loses the unsynced tails {cuts:?}")
                    };
                    recover_and_judge(cons, u, dl, &work, deliver, "power-loss", &what, &label, &tb_same, &tb_full, cuts.len() == 1 && n == 0, report)?;
                    report.count("power_loss_images", 1);
                    if !cuts.is_empty() {
                        report.count("power_loss_images_with_a_lost_tail", 1);
                    }
                }
            }
            twin.shutdown();
            twin_same.shutdown();
        }
        Ok(())
    })();
    ckb_freezer::VERIF_MAX_FILE_SIZE.store(0, std::sync::atomic::Ordering::SeqCst);
    r
}
