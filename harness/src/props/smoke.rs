//! Smoke run of the node engine (not a property): mines a short chain from templates.
use crate::core::*;
use crate::node::*;
use crate::world::*;
use ckb_store::ChainStore;
use serde_json::json;

pub fn meta(_t: Tier) -> Meta {
    Meta { id: "SMOKE", level: "other", rule: "smoke", assumptions: &[], bounds: json!({}) }
}

pub fn run(ctx: &Ctx) -> Report {
    let mut r = Report::new();
    let cons = consensus(&WorldOpts::default());
    if std::env::var("BOOTPROBE").is_ok() {
        for i in 0..10 {
            let t = std::time::Instant::now();
            let dir = ctx.scratch.join(format!("bp{i}"));
            let node = Node::boot(&dir, &NodeOpts::new(cons.clone())).expect("boot");
            let t1 = t.elapsed();
            node.wait_startup().unwrap();
            let t2 = t.elapsed();
            node.shutdown();
            println!("boot {:?} startup {:?} shutdown {:?}", t1, t2, t.elapsed());
            let t = std::time::Instant::now();
            let node = Node::boot(&dir, &NodeOpts::new(cons.clone())).expect("boot");
            node.wait_startup().unwrap();
            let t1 = t.elapsed();
            node.shutdown();
            println!("   reopen {:?} shutdown {:?}", t1, t.elapsed());
        }
        r.outcomes.insert(1); r.outcomes.insert(2);
        return r;
    }
    let t0 = std::time::Instant::now();
    set_time(time_for_height(0));
    let node = Node::boot(&ctx.scratch.join("smoke"), &NodeOpts::new(cons.clone()).with_pool()).expect("boot");
    node.wait_startup().unwrap();
    println!("boot {:?}", t0.elapsed());
    let cells = genesis_cells(&cons);
    let tx = simple_tx(&cons, &cells[0..1], 2, 1000_000, 1);
    node.submit_tx(&tx).expect("submit");
    for h in 1..=14u64 {
        set_time(time_for_height(h));
        let tpl = node.template().expect("template");
        let block = block_from_template(tpl, None);
        let res = node.process(&block);
        node.wait_pool_synced().unwrap();
        println!("h={h} res={:?} txs={} proposals={} epoch={} ext={:?}", res.map_err(|e| e.to_string()), block.transactions().len(), block.data().proposals().len(), block.epoch(), block.extension().map(|e| e.len()));
        r.evaluations += 1;
        r.outcomes.insert(h);
    }
    println!("tip {} total {:?}", node.tip().number(), t0.elapsed());
    println!("tx info {:?}", node.shared.snapshot().get_transaction_info(&tx.hash()).map(|i| i.block_number));
    r
}
