//! Smoke run of the node engine (not a property): mines a short chain from templates.
use crate::core::*;
use crate::node::*;
use crate::world::*;
use ckb_store::ChainStore;
use serde_json::json;

pub fn meta(_t: Tier) -> Meta {
    Meta { id: "SMOKE", level: "other", rule: "smoke", assumptions: &[], bounds: json!({}) }
}

pub fn run(ctx: &Ctx) -> Report {
    let mut r = Report::new();
    let cons = consensus(&WorldOpts::default());
    if std::env::var("BOOTPROBE").is_ok() {
        for i in 0..40 {
            let t = std::time::Instant::now();
            let dir = ctx.scratch.join(format!("bp{i}"));
            let node = Node::boot(&dir, &NodeOpts::new(cons.clone())).expect("boot");
            let t1 = t.elapsed();
            node.wait_startup().unwrap();
            let t2 = t.elapsed();
            node.shutdown();
            println!("boot {:?} startup {:?} shutdown {:?}", t1, t2, t.elapsed());
            let t = std::time::Instant::now();
            let node = Node::boot(&dir, &NodeOpts::new(cons.clone())).expect("boot");
            node.wait_startup().unwrap();
            let t1 = t.elapsed();
            node.shutdown();
            println!("   reopen {:?} shutdown {:?} rss {:?}", t1, t.elapsed(), std::fs::read_to_string("/proc/self/status").ok().and_then(|t| t.lines().find(|l| l.starts_with("VmRSS")).map(|l| l.to_string())));
            let _ = std::fs::remove_dir_all(&dir);
            println!("   fds {} threads {}", std::fs::read_dir("/proc/self/fd").map(|d| d.count()).unwrap_or(0), std::fs::read_dir("/proc/self/task").map(|d| d.count()).unwrap_or(0));
        }
        let mut names: std::collections::BTreeMap<String, usize> = Default::default();
        for e in std::fs::read_dir("/proc/self/task").unwrap().flatten() {
            let n = std::fs::read_to_string(e.path().join("comm")).unwrap_or_default().trim().to_string();
            *names.entry(n).or_insert(0) += 1;
        }
        println!("threads: {names:?}");
        let mut fds: std::collections::BTreeMap<String, usize> = Default::default();
        for e in std::fs::read_dir("/proc/self/fd").unwrap().flatten() {
            let n = std::fs::read_link(e.path()).map(|p| p.display().to_string()).unwrap_or_default();
            let n = n.split("/bp").next().unwrap_or("").to_string() + n.rsplit('/').next().unwrap_or("");
            *fds.entry(n).or_insert(0) += 1;
        }
        println!("fds: {fds:?}");
        r.outcomes.insert(1); r.outcomes.insert(2);
        return r;
    }
    let t0 = std::time::Instant::now();
    set_time(time_for_height(0));
    let node = Node::boot(&ctx.scratch.join("smoke"), &NodeOpts::new(cons.clone()).with_pool()).expect("boot");
    node.wait_startup().unwrap();
    println!("boot {:?}", t0.elapsed());
    let cells = genesis_cells(&cons);
    let tx = simple_tx(&cons, &cells[0..1], 2, 1000_000, 1);
    node.submit_tx(&tx).expect("submit");
    for h in 1..=14u64 {
        set_time(time_for_height(h));
        let tpl = node.template().expect("template");
        let block = block_from_template(tpl, None);
        let res = node.process(&block);
        node.wait_pool_synced().unwrap();
        println!("h={h} res={:?} txs={} proposals={} epoch={} ext={:?}", res.map_err(|e| e.to_string()), block.transactions().len(), block.data().proposals().len(), block.epoch(), block.extension().map(|e| e.len()));
        r.evaluations += 1;
        r.outcomes.insert(h);
    }
    println!("tip {} total {:?}", node.tip().number(), t0.elapsed());
    println!("tx info {:?}", node.shared.snapshot().get_transaction_info(&tx.hash()).map(|i| i.block_number));
    r
}
