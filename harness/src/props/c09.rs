//! C09 — the freezer never loses or corrupts a frozen item, whatever crash interrupts it.
//!
//! Engine: explicit-state BFS over operation histories on the real `FreezerFiles` /
//! `Freezer` (state = on-disk image + last-synced marks), and for every reached state the
//! exhaustive set of crash images: head data file and INDEX cut independently to every byte
//! length between their last synced and final sizes, plus "new head file absent".
use crate::core::*;
use ckb_freezer::{Freezer, FreezerFilesBuilder, VERIF_MAX_FILE_SIZE};
use ckb_types::{core::BlockBuilder, core::BlockView, packed, prelude::*};
use rayon::prelude::*;
use serde::{Deserialize, Serialize};
use serde_json::{Value, json};
use std::collections::{BTreeMap, HashSet};
use std::path::{Path, PathBuf};
use std::sync::atomic::Ordering;

const MAX_FILE: u64 = 40;

#[derive(Clone, Copy, Debug, Serialize, Deserialize, PartialEq, Eq, Hash)]
pub enum Op {
    Append(u32),
    Truncate(u64),
    Reopen,
    Sync,
    /// a read between writes (reads must not disturb later appends)
    Retrieve(u64),
    /// the next fsync of one of the freezer's files fails once with EIO (not a crash: the process
    /// lives on; an operation that reports the error has not happened, and can be repeated)
    FailNextSync,
}

#[derive(Clone, Debug, Serialize, Deserialize, PartialEq, Eq, Hash)]
struct SyncMark {
    head_id: u32,
    head_len: u64,
    index_len: u64,
}

type Disk = BTreeMap<String, Vec<u8>>;

fn item_bytes(no: u64, size: u32) -> Vec<u8> {
    // first half incompressible-ish, second half constant: snappy output length differs
    // from the input length in the compression-on configuration
    (0..size)
        .map(|j| {
            if j < size / 2 + 1 {
                (no.wrapping_mul(131) as u32 ^ j.wrapping_mul(29).wrapping_add(size) ^ 0x5a) as u8
            } else {
                0xEE
            }
        })
        .collect()
}

fn read_disk(dir: &Path) -> Disk {
    let mut d = Disk::new();
    if let Ok(rd) = std::fs::read_dir(dir) {
        for e in rd.flatten() {
            let name = e.file_name().to_string_lossy().to_string();
            if name == "FLOCK" {
                continue;
            }
            d.insert(name, std::fs::read(e.path()).unwrap_or_default());
        }
    }
    d
}

fn write_disk(dir: &Path, d: &Disk) {
    let _ = std::fs::remove_dir_all(dir);
    std::fs::create_dir_all(dir).unwrap();
    for (n, b) in d {
        std::fs::write(dir.join(n), b).unwrap();
    }
}

fn blk(id: u32) -> String {
    format!("blk{id:06}")
}

/// (file_id, end_offset) per index entry, entry 0 is the default one.
fn parse_index(bytes: &[u8]) -> Vec<(u32, u64)> {
    bytes
        .chunks_exact(12)
        .map(|c| {
            (
                u32::from_le_bytes(c[0..4].try_into().unwrap()),
                u64::from_le_bytes(c[4..12].try_into().unwrap()),
            )
        })
        .collect()
}

fn mark_of(disk: &Disk) -> SyncMark {
    let idx = disk.get("INDEX").cloned().unwrap_or_default();
    let entries = parse_index(&idx);
    let head_id = entries.last().map(|e| e.0).unwrap_or(0);
    SyncMark {
        head_id,
        head_len: disk.get(&blk(head_id)).map(|b| b.len() as u64).unwrap_or(0),
        index_len: idx.len() as u64,
    }
}

struct Outcome {
    disk: Disk,
    mark: SyncMark,
    reference: Vec<Vec<u8>>,
    /// a crash-free disagreement with the reference list
    problem: Option<(String, String)>,
    last_is_append: bool,
    /// hidden in-memory state the disk image cannot show: the most recent read since the last
    /// mutating operation (file handles cached by the freezer share their cursor)
    pending_read: Option<u64>,
    /// in-memory state of the live object (verif hook), part of the state fingerprint
    mem: (u64, u32, u64, u64, u32, Vec<u32>),
    /// data files the head has left behind since the last sync point whose last OBSERVED fsync
    /// covers less than their final size: (file name, bytes covered)
    left_behind_unsynced: Vec<(String, u64)>,
    /// an injected fsync failure is still pending (hidden state: part of the fingerprint)
    armed: bool,
}

/// Replays `hist` on a fresh directory with the real FreezerFiles; checks every return value
/// against the reference list.
fn replay_files(dir: &Path, compression: bool, hist: &[Op]) -> Outcome {
    let _ = std::fs::remove_dir_all(dir);
    let open = || {
        FreezerFilesBuilder::new(dir.to_path_buf())
            .max_file_size(MAX_FILE)
            .enable_compression(compression)
            .build()
            .and_then(|mut f| f.preopen().map(|_| f))
    };
    let mut reference: Vec<Vec<u8>> = vec![];
    let mut problem = None;
    let mut files = match open() {
        Ok(f) => f,
        Err(e) => {
            return Outcome {
                disk: Disk::new(),
                mark: SyncMark { head_id: 0, head_len: 0, index_len: 0 },
                reference,
                problem: Some(("crashfree-open".into(), format!("initial open failed: {e}"))),
                last_is_append: false,
                pending_read: None,
                mem: Default::default(),
                left_behind_unsynced: vec![],
                armed: false,
            };
        }
    };
    let mut mark = mark_of(&read_disk(dir));
    let mut last_read: Option<u64> = None;
    fsync_watch::enable();
    fsync_watch::forget(dir);
    // the observation must work before anything is concluded from its silence: a probe file is
    // written and synced through std, and the registry has to show it
    {
        static PROBED: std::sync::OnceLock<bool> = std::sync::OnceLock::new();
        let ok = *PROBED.get_or_init(|| {
            use std::io::Write;
            let _ = std::fs::create_dir_all(dir);
            let probe = dir.join("fsync-probe");
            let seen = std::fs::File::create(&probe).and_then(|mut f| f.write_all(b"probe").and_then(|_| f.sync_all())).is_ok() && fsync_watch::synced_under(dir).get("fsync-probe") == Some(&5);
            let _ = std::fs::remove_file(&probe);
            fsync_watch::forget(dir);
            seen
        });
        if !ok {
            problem.get_or_insert(("machinery/fsync-not-observed".into(), "the executable's fsync interposer does not see std's File::sync_all: durability of left-behind files cannot be observed".into()));
        }
    }
    // sizes of all files at the last sync point (sync / truncate / reopen), as before; observed
    // fsyncs since then raise them
    let mut at_mark: Disk = read_disk(dir);
    for (step, op) in hist.iter().enumerate() {
        match *op {
            Op::FailNextSync => {
                fsync_watch::fail_next(dir);
            }
            Op::Append(size) => {
                let no = reference.len() as u64 + 1;
                let data = item_bytes(no, size);
                let was_armed = fsync_watch::armed(dir);
                match std::panic::catch_unwind(std::panic::AssertUnwindSafe(|| files.append(no, &data))) {
                    Ok(Ok(())) => reference.push(data),
                    Ok(Err(e)) => {
                        if was_armed && !fsync_watch::armed(dir) {
                            // the injected fsync failure surfaced: the item was not appended
                        } else {
                            problem.get_or_insert(("crashfree-append".into(), format!("step {step}: append({no}) failed: {e}")));
                            break;
                        }
                    }
                    Err(_) => {
                        problem.get_or_insert(("crashfree-panic".into(), format!("step {step}: append({no}) panicked")));
                        break;
                    }
                }
            }
            Op::Truncate(k) => {
                if let Err(e) = files.truncate(k) {
                    problem.get_or_insert(("crashfree-truncate".into(), format!("step {step}: truncate({k}) failed: {e}")));
                    break;
                }
                if k >= 1 && (k as usize) < reference.len() {
                    reference.truncate(k as usize);
                }
                mark = mark_of(&read_disk(dir));
                at_mark = read_disk(dir);
                fsync_watch::forget(dir);
            }
            Op::Sync => {
                let was_armed = fsync_watch::armed(dir);
                if let Err(e) = files.sync_all() {
                    if was_armed && !fsync_watch::armed(dir) {
                        // the injected failure: nothing was promised durable by this call
                        continue;
                    }
                    problem.get_or_insert(("crashfree-sync".into(), format!("step {step}: sync failed: {e}")));
                    break;
                }
                mark = mark_of(&read_disk(dir));
                at_mark = read_disk(dir);
                fsync_watch::forget(dir);
            }
            Op::Retrieve(k) => {
                match files.retrieve(k) {
                    Ok(Some(got)) if (k as usize) <= reference.len() && k >= 1 && got == reference[k as usize - 1] => {}
                    Ok(None) if k < 1 || (k as usize) > reference.len() => {}
                    other => {
                        problem.get_or_insert(("crashfree-retrieve".into(), format!("step {step}: retrieve({k}) = {:?}", other.map(|o| o.map(|b| hex(&b))).map_err(|e| e.to_string()))));
                        break;
                    }
                }
                last_read = Some(k);
            }
            Op::Reopen => {
                drop(files);
                let was_armed = fsync_watch::armed(dir);
                let mut opened = open();
                if opened.is_err() && was_armed && !fsync_watch::armed(dir) {
                    // the injected fsync failure surfaced in the open path: the open is repeated
                    opened = open();
                }
                files = match opened {
                    Ok(f) => f,
                    Err(e) => {
                        problem.get_or_insert(("crashfree-reopen".into(), format!("step {step}: reopen failed: {e}")));
                        return Outcome { disk: read_disk(dir), mark, reference, problem, last_is_append: false, pending_read: None, mem: Default::default(), left_behind_unsynced: vec![], armed: false };
                    }
                };
                mark = mark_of(&read_disk(dir));
                at_mark = read_disk(dir);
                fsync_watch::forget(dir);
            }
        }
        // crash-free conformance with the reference after every step
        let n = files.number().saturating_sub(1);
        if n != reference.len() as u64 {
            problem.get_or_insert(("crashfree-count".into(), format!("step {step} {op:?}: number()-1 = {n}, reference has {}", reference.len())));
            break;
        }
        for (i, want) in reference.iter().enumerate() {
            match std::panic::catch_unwind(std::panic::AssertUnwindSafe(|| files.retrieve(i as u64 + 1))) {
                Ok(Ok(Some(got))) if &got == want => {}
                Ok(other) => {
                    problem.get_or_insert(("crashfree-retrieve".into(), format!("step {step} {op:?}: retrieve({}) = {:?}, want {} bytes", i + 1, other.map(|o| o.map(|b| hex(&b))), want.len())));
                }
                Err(_) => {
                    problem.get_or_insert(("crashfree-panic".into(), format!("step {step} {op:?}: retrieve({}) panicked", i + 1)));
                }
            }
        }
        match files.retrieve(reference.len() as u64 + 1) {
            Ok(None) => {}
            other => {
                problem.get_or_insert(("crashfree-retrieve-beyond".into(), format!("step {step}: retrieve(n+1) = {:?}", other.map(|o| o.map(|b| b.len())))));
            }
        }
        if problem.is_some() {
            break;
        }
        // the checker's own reads must not hide read-after-effects: leave the object as the
        // history left it by repeating the history's most recent read (if it is still valid)
        if let (Op::Retrieve(_), Some(k)) = (op, last_read) {
            let _ = files.retrieve(k);
        }
    }
    let mem = files.verif_state();
    drop(files);
    let armed = fsync_watch::armed(dir);
    fsync_watch::disarm(dir);
    let disk = read_disk(dir);
    // data files that are no longer the head: what does their last fsync cover?
    let observed = fsync_watch::synced_under(dir);
    let fin = mark_of(&disk);
    let mut left_behind_unsynced = vec![];
    for (name, bytes) in &disk {
        if !name.starts_with("blk") || *name == blk(fin.head_id) {
            continue;
        }
        let covered = observed.get(name).copied().unwrap_or(0).max(at_mark.get(name).map(|b| b.len() as u64).unwrap_or(0)).min(bytes.len() as u64);
        if covered < bytes.len() as u64 {
            left_behind_unsynced.push((name.clone(), covered));
        }
    }
    Outcome {
        armed,
        left_behind_unsynced,
        mem,
        disk,
        mark,
        reference,
        problem,
        last_is_append: matches!(hist.last(), Some(Op::Append(_))),
        pending_read: match hist.last() {
            Some(Op::Retrieve(k)) => Some(*k),
            _ => None,
        },
    }
}

#[derive(Clone, Debug, Serialize, Deserialize)]
struct Cut {
    /// None = head data file absent
    data_len: Option<u64>,
    index_len: u64,
    /// a data file the head has left behind, cut back into the part no observed fsync covers
    #[serde(default)]
    old: Option<(String, u64)>,
}

/// All crash images of `o` per the property's quantifier.
fn crash_cuts(o: &Outcome) -> Vec<Cut> {
    let fin = mark_of(&o.disk);
    let mut cuts = vec![];
    let data_lens: Vec<Option<u64>> = if fin.head_id == o.mark.head_id {
        (o.mark.head_len.min(fin.head_len)..=fin.head_len).map(Some).collect()
    } else {
        std::iter::once(None).chain((0..=fin.head_len).map(Some)).collect()
    };
    let lo = o.mark.index_len.min(fin.index_len);
    for d in &data_lens {
        for i in lo..=fin.index_len {
            cuts.push(Cut { data_len: *d, index_len: i, old: None });
        }
    }
    // power loss: everything written later reached the disk, the unsynced tail of a file the head
    // has left behind did not
    for (name, covered) in &o.left_behind_unsynced {
        let full = o.disk.get(name).map(|b| b.len() as u64).unwrap_or(0);
        for l in [*covered, (*covered + full) / 2, full.saturating_sub(1)] {
            if l < full {
                for i in [fin.index_len, lo] {
                    cuts.push(Cut { data_len: Some(fin.head_len), index_len: i, old: Some((name.clone(), l)) });
                }
            }
        }
    }
    cuts
}

fn apply_cut(o: &Outcome, cut: &Cut) -> Disk {
    let fin = mark_of(&o.disk);
    let mut d = o.disk.clone();
    let head = blk(fin.head_id);
    match cut.data_len {
        None => {
            d.remove(&head);
        }
        Some(l) => {
            if let Some(b) = d.get_mut(&head) {
                b.truncate(l as usize);
            }
        }
    }
    if let Some(b) = d.get_mut("INDEX") {
        b.truncate(cut.index_len as usize);
    }
    if let Some((name, l)) = &cut.old {
        if let Some(b) = d.get_mut(name) {
            b.truncate(*l as usize);
        }
    }
    d
}

/// Number of items whose data and index entry are both fully present in the image.
fn fully_written(o: &Outcome, cut: &Cut) -> u64 {
    let fin = mark_of(&o.disk);
    let entries = parse_index(o.disk.get("INDEX").map(|v| v.as_slice()).unwrap_or(&[]));
    let mut n = 0u64;
    for (k, (fid, end)) in entries.iter().enumerate().skip(1) {
        let idx_ok = cut.index_len >= 12 * (k as u64 + 1);
        let data_ok = if *fid == fin.head_id {
            matches!(cut.data_len, Some(l) if l >= *end)
        } else {
            match &cut.old {
                Some((name, l)) if *name == blk(*fid) => *l >= *end,
                _ => true,
            }
        };
        if idx_ok && data_ok {
            n = k as u64;
        } else {
            break;
        }
    }
    n
}

/// Recovery oracle on one crash image.  Returns (kind, message) on failure and an outcome
/// digest (recovered n) on success.
fn check_recovery(dir: &Path, compression: bool, o: &Outcome, cut: &Cut) -> Result<u64, (String, String)> {
    let image = apply_cut(o, cut);
    write_disk(dir, &image);
    let rolled = mark_of(&o.disk).head_id != o.mark.head_id;
    let class = if rolled { "rollover" } else { "same-file" };
    let open = || {
        FreezerFilesBuilder::new(dir.to_path_buf())
            .max_file_size(MAX_FILE)
            .enable_compression(compression)
            .build()
            .and_then(|mut f| f.preopen().map(|_| f))
    };
    let mut files = open().map_err(|e| (format!("reopen-error/{class}"), format!("reopen after crash failed: {e}")))?;
    let n = files.number().saturating_sub(1);
    let lower = fully_written(o, cut);
    if n > o.reference.len() as u64 {
        return Err((format!("phantom-items/{class}"), format!("recovered n={n} > appended {}", o.reference.len())));
    }
    for i in 1..=n {
        match files.retrieve(i) {
            Ok(Some(got)) if got == o.reference[i as usize - 1] => {}
            other => {
                return Err((
                    format!("corrupt-item/{class}"),
                    format!("after recovery n={n}: retrieve({i}) = {:?}, want {}", other.map(|x| x.map(|b| hex(&b))).map_err(|e| e.to_string()), hex(&o.reference[i as usize - 1])),
                ));
            }
        }
    }
    if n < lower {
        return Err((
            format!("lost-items/{class}"),
            format!("recovered n={n} but {lower} items had data and index entry fully written"),
        ));
    }
    match files.retrieve(n + 1) {
        Ok(None) => {}
        other => return Err((format!("retrieve-beyond/{class}"), format!("retrieve(n+1) = {:?}", other.map(|x| x.map(|b| b.len())).map_err(|e| e.to_string())))),
    }
    // subsequent appends and retrievals work on that prefix
    let mut items: Vec<Vec<u8>> = o.reference[..n as usize].to_vec();
    for size in [13u32, 39] {
        let no = items.len() as u64 + 1;
        let data = item_bytes(no + 1000, size);
        files
            .append(no, &data)
            .map_err(|e| (format!("append-after-recovery/{class}"), format!("append({no}) after recovery failed: {e}")))?;
        items.push(data);
    }
    let verify_all = |files: &mut ckb_freezer::FreezerFiles, tag: &str| -> Result<(), (String, String)> {
        if files.number() != items.len() as u64 + 1 {
            return Err((format!("{tag}/{class}"), format!("number()={} want {}", files.number(), items.len() + 1)));
        }
        for (i, want) in items.iter().enumerate() {
            match files.retrieve(i as u64 + 1) {
                Ok(Some(got)) if &got == want => {}
                other => {
                    return Err((format!("{tag}/{class}"), format!("retrieve({}) = {:?}", i + 1, other.map(|x| x.map(|b| hex(&b))).map_err(|e| e.to_string()))));
                }
            }
        }
        Ok(())
    };
    verify_all(&mut files, "read-after-recovery-append")?;
    files.sync_all().map_err(|e| (format!("sync-after-recovery/{class}"), e.to_string()))?;
    drop(files);
    let mut files = open().map_err(|e| (format!("second-reopen-error/{class}"), e.to_string()))?;
    verify_all(&mut files, "unstable-after-second-reopen")?;
    Ok(n)
}

fn thread_dir(ctx: &Ctx, tag: &str) -> PathBuf {
    let idx = rayon::current_thread_index().unwrap_or(0);
    ctx.scratch.join(format!("{tag}-{idx}"))
}

fn alphabet(tier: Tier, n_items: usize) -> Vec<Op> {
    let sizes: &[u32] = if tier.is_thorough() { &[1, 13, 39, 40, 41] } else { &[13, 39, 1, 41] };
    let mut ops: Vec<Op> = sizes.iter().map(|s| Op::Append(*s)).collect();
    ops.push(Op::Sync);
    ops.push(Op::Reopen);
    if n_items >= 1 {
        ops.push(Op::FailNextSync);
    }
    for k in 1..n_items as u64 {
        ops.push(Op::Truncate(k));
    }
    if n_items >= 2 {
        ops.push(Op::Retrieve(1));
        ops.push(Op::Retrieve(n_items as u64 - 1));
    }
    ops
}

struct Expanded {
    hist: Vec<Op>,
    state_fp: u64,
    n_items: usize,
    report: Report,
}

fn explore_one(ctx: &Ctx, compression: bool, hist: Vec<Op>) -> Expanded {
    let mut report = Report::new();
    let dir = thread_dir(ctx, "c09");
    let o = replay_files(&dir.join("live"), compression, &hist);
    report.transitions += hist.len() as u64;
    report.traces += 1;
    let state_fp = fp(&(&o.disk, &o.mark, compression, o.pending_read, &o.mem, o.armed));
    if let Some((kind, msg)) = &o.problem {
        if kind.starts_with("machinery/") {
            report.machinery_errors.push(msg.clone());
        } else {
            report.violation(
                format!("files/{kind}"),
                msg.clone(),
                json!({"family": "files", "compression": compression, "history": hist}),
            );
        }
    }
    Expanded { hist, state_fp, n_items: o.reference.len(), report }
}

/// crash enumeration for one (new) state
fn crash_one(ctx: &Ctx, compression: bool, hist: &[Op]) -> Report {
    let mut report = Report::new();
    let dir = thread_dir(ctx, "c09");
    let o = replay_files(&dir.join("live"), compression, hist);
    if o.problem.is_some() {
        return report;
    }
    let cuts = if o.last_is_append { crash_cuts(&o) } else { vec![Cut { data_len: Some(mark_of(&o.disk).head_len), index_len: mark_of(&o.disk).index_len, old: None }] };
    if o.last_is_append && mark_of(&o.disk).head_id != o.mark.head_id {
        report.count(if o.left_behind_unsynced.is_empty() { "rollover_states_whose_left_behind_files_are_covered_by_an_observed_fsync" } else { "rollover_states_with_an_unsynced_left_behind_file" }, 1);
    }
    for cut in &cuts {
        report.evaluations += 1;
        report.transitions += 1;
        let torn = cut.data_len != Some(mark_of(&o.disk).head_len) || cut.index_len != mark_of(&o.disk).index_len || cut.old.is_some();
        match check_recovery(&dir.join("crash"), compression, &o, cut) {
            Ok(n) => {
                report.outcomes.insert(fp(&(n, o.reference.len() as u64 - n)));
                if torn {
                    report.nontrivial.insert(fp(&(hist, cut.data_len, cut.index_len, compression)));
                }
                if n < o.reference.len() as u64 {
                    report.count("recoveries_dropping_items", 1);
                }
            }
            Err((kind, msg)) => {
                report.violation(
                    format!("files/{kind}"),
                    msg,
                    json!({"family": "files", "compression": compression, "history": hist, "cut": cut}),
                );
            }
        }
    }
    if !cuts.is_empty() && report.samples.is_empty() {
        report.sample(json!({"family":"files","compression": compression, "history": hist, "crash_images": cuts.len(), "first_cut": cuts.first(), "last_cut": cuts.last()}));
    }
    report
}

fn bfs_files(ctx: &Ctx, compression: bool, depth: usize, report: &mut Report) {
    bfs_files_from(ctx, compression, &[], depth, report)
}

/// the search started from the state `prefix` reaches (start from non-initial states too: here a
/// head file that was rolled over to inside this process and already holds two items)
fn bfs_files_from(ctx: &Ctx, compression: bool, prefix: &[Op], depth: usize, report: &mut Report) {
    let mut seen: HashSet<u64> = HashSet::new();
    let mut frontier: Vec<(Vec<Op>, usize)> = vec![];
    {
        let e = explore_one(ctx, compression, prefix.to_vec());
        seen.insert(e.state_fp);
        frontier.push((prefix.to_vec(), e.n_items));
        report.merge(e.report);
    }
    for d in 1..=depth {
        if ctx.out_of_time() {
            report.cap_hit = Some(format!("wall budget reached before depth {d} (compression={compression})"));
            return;
        }
        let mut cands: Vec<Vec<Op>> = vec![];
        for (h, n_items) in &frontier {
            for op in alphabet(ctx.tier, *n_items) {
                let mut nh = h.clone();
                nh.push(op);
                cands.push(nh);
            }
        }
        let expanded: Vec<Expanded> = cands.into_par_iter().map(|h| explore_one(ctx, compression, h)).collect();
        let mut next = vec![];
        let mut fresh: Vec<Vec<Op>> = vec![];
        for e in expanded {
            report.merge(e.report);
            if seen.insert(e.state_fp) {
                report.states.insert(e.state_fp);
                fresh.push(e.hist.clone());
                next.push((e.hist, e.n_items));
            }
        }
        // crash images of every new state
        let done = std::sync::atomic::AtomicBool::new(false);
        let reports: Vec<Report> = fresh
            .par_iter()
            .map(|h| {
                if ctx.out_of_time() {
                    done.store(true, Ordering::SeqCst);
                    return Report::new();
                }
                crash_one(ctx, compression, h)
            })
            .collect();
        for r in reports {
            report.merge(r);
        }
        report.max_counter(&format!("max_depth_completed_compression_{compression}"), d as u64);
        if done.load(Ordering::SeqCst) {
            report.cap_hit = Some(format!("wall budget reached inside depth {d} (compression={compression})"));
            return;
        }
        frontier = next;
    }
}

// ---------------------------------------------------------------------------------------
// Freezer level: real packed blocks through Freezer::{open, freeze, retrieve, truncate}

fn block_chain(len: usize) -> Vec<BlockView> {
    let mut out: Vec<BlockView> = vec![];
    let mut parent = packed::Byte32::zero();
    for n in 0..len {
        let mut b = BlockBuilder::default().number(n as u64).parent_hash(parent.clone()).timestamp(1000 + n as u64);
        if n % 2 == 1 {
            // a proposal id and an extension so that items differ in size and in the extra field
            b = b.proposal(packed::ProposalShortId::new([n as u8; 10])).extension(Some(packed::Bytes::from(vec![n as u8; 32])));
        }
        let blk = b.build();
        parent = blk.hash();
        out.push(blk);
    }
    out
}

#[derive(Clone, Copy, Debug, Serialize, Deserialize, PartialEq, Eq, Hash)]
pub enum FOp {
    Freeze(u64),
    Truncate(u64),
    Reopen,
}

fn freezer_family(ctx: &Ctx, report: &mut Report, depth: usize) {
    // file limit chosen so that ~2 blocks fit into one data file
    VERIF_MAX_FILE_SIZE.store(700, Ordering::SeqCst);
    let chain = block_chain(12);
    let mut hists: Vec<Vec<FOp>> = vec![vec![]];
    let mut all: Vec<Vec<FOp>> = vec![];
    for _ in 0..depth {
        let mut next = vec![];
        for h in &hists {
            for op in [FOp::Freeze(1), FOp::Freeze(2), FOp::Freeze(3), FOp::Reopen, FOp::Truncate(1), FOp::Truncate(2), FOp::Truncate(3)] {
                let mut nh = h.clone();
                nh.push(op);
                next.push(nh);
            }
        }
        all.extend(next.iter().cloned());
        hists = next;
    }
    let capped = std::sync::atomic::AtomicBool::new(false);
    let reports: Vec<Report> = all
        .par_iter()
        .map(|h| {
            if ctx.out_of_time() {
                capped.store(true, Ordering::SeqCst);
                return Report::new();
            }
            freezer_one(ctx, &chain, h)
        })
        .collect();
    for r in reports {
        report.merge(r);
    }
    if capped.load(Ordering::SeqCst) {
        report.cap_hit = Some("wall budget reached in Freezer-level family".into());
    }
    VERIF_MAX_FILE_SIZE.store(0, Ordering::SeqCst);
}

fn freezer_one(ctx: &Ctx, chain: &[BlockView], hist: &[FOp]) -> Report {
    let mut report = Report::new();
    let dir = thread_dir(ctx, "c09f").join("live");
    let _ = std::fs::remove_dir_all(&dir);
    std::fs::create_dir_all(&dir).unwrap();
    let case = |extra: Value| json!({"family": "freezer", "history": hist, "detail": extra});
    let mut fz = match Freezer::open(dir.clone()) {
        Ok(f) => f,
        Err(e) => {
            report.violation("freezer/open", format!("open failed: {e}"), case(json!(null)));
            return report;
        }
    };
    // reference: number of frozen blocks (items 1..n are chain[1..=n]); item 0 is genesis slot
    let mut n_ref: u64 = 0; // freezer.number() == n_ref + 1 when non-empty, else 1
    let mut mark = mark_of(&read_disk(&dir));
    let mut last_freeze = false;
    report.traces += 1;
    for (step, op) in hist.iter().enumerate() {
        report.transitions += 1;
        last_freeze = false;
        match *op {
            FOp::Freeze(k) => {
                let number = fz.number();
                let threshold = (number + k).min(chain.len() as u64);
                let res = fz.freeze(threshold, |n| chain.get(n as usize).cloned());
                match res {
                    Ok(map) => {
                        let want: u64 = threshold.saturating_sub(number.max(1)).max(0);
                        let _ = want;
                        n_ref = threshold.max(1) - 1;
                        if map.len() as u64 != threshold.saturating_sub(number) {
                            report.violation("freezer/freeze-result", format!("step {step}: freeze returned {} entries for range {number}..{threshold}", map.len()), case(json!(null)));
                        }
                        // freeze syncs before returning: mark moves; the crash images are taken
                        // *as if the sync had not happened yet* for the tail written by this call
                        last_freeze = threshold > number;
                    }
                    Err(e) => {
                        report.violation("freezer/freeze-error", format!("step {step}: freeze failed: {e}"), case(json!(null)));
                        return report;
                    }
                }
            }
            FOp::Truncate(k) => {
                if let Err(e) = fz.truncate(k) {
                    report.violation("freezer/truncate-error", format!("step {step}: truncate({k}) failed: {e}"), case(json!(null)));
                    return report;
                }
                if k > 0 && k < n_ref {
                    n_ref = k;
                }
            }
            FOp::Reopen => {
                drop(fz);
                fz = match Freezer::open(dir.clone()) {
                    Ok(f) => f,
                    Err(e) => {
                        report.violation("freezer/reopen-error", format!("step {step}: reopen failed: {e}"), case(json!(null)));
                        return report;
                    }
                };
            }
        }
        if !last_freeze {
            mark = mark_of(&read_disk(&dir));
        }
        // conformance
        let num = fz.number();
        if num != n_ref + 1 {
            report.violation("freezer/count", format!("step {step} {op:?}: number()={num} want {}", n_ref + 1), case(json!(null)));
            return report;
        }
        for i in 1..=n_ref {
            match fz.retrieve(i) {
                Ok(Some(raw)) if raw.as_slice() == chain[i as usize].data().as_slice() => {}
                other => {
                    report.violation("freezer/retrieve", format!("step {step} {op:?}: retrieve({i}) wrong: {:?}", other.map(|o| o.map(|b| b.len())).map_err(|e| e.to_string())), case(json!(null)));
                    return report;
                }
            }
        }
    }
    drop(fz);
    if !last_freeze {
        report.evaluations += 1;
        report.outcomes.insert(fp(&("nofreeze", n_ref)));
        return report;
    }
    // crash images of the last freeze: the tail written by it, cut everywhere
    let disk = read_disk(&dir);
    let reference: Vec<Vec<u8>> = (1..=n_ref).map(|i| chain[i as usize].data().as_slice().to_vec()).collect();
    let o = Outcome { disk, mark, reference, problem: None, last_is_append: true, pending_read: None, mem: Default::default(), left_behind_unsynced: vec![], armed: false };
    let cuts = crash_cuts(&o);
    let crash_dir = thread_dir(ctx, "c09f").join("crash");
    for cut in &cuts {
        report.evaluations += 1;
        let image = apply_cut(&o, cut);
        write_disk(&crash_dir, &image);
        let lower = fully_written_compressed(&o, cut);
        let class = if mark_of(&o.disk).head_id != o.mark.head_id { "rollover" } else { "same-file" };
        let replay = json!({"family": "freezer", "history": hist, "cut": cut});
        match Freezer::open(crash_dir.clone()) {
            Err(e) => report.violation(format!("freezer/reopen-after-crash/{class}"), format!("{e}"), replay),
            Ok(fz) => {
                let n = fz.number().saturating_sub(1);
                let mut ok = true;
                if n > n_ref {
                    report.violation(format!("freezer/phantom-items/{class}"), format!("n={n} > {n_ref}"), replay.clone());
                    ok = false;
                }
                for i in 1..=n.min(n_ref) {
                    match fz.retrieve(i) {
                        Ok(Some(raw)) if raw == o.reference[i as usize - 1] => {}
                        other => {
                            report.violation(format!("freezer/corrupt-item/{class}"), format!("retrieve({i}) after recovery: {:?}", other.map(|x| x.map(|b| b.len())).map_err(|e| e.to_string())), replay.clone());
                            ok = false;
                            break;
                        }
                    }
                }
                if ok && n < lower {
                    report.violation(format!("freezer/lost-items/{class}"), format!("recovered n={n}, fully written {lower}"), replay.clone());
                    ok = false;
                }
                if ok {
                    // freezing continues from the recovered tip (parent linkage re-derived)
                    let number = fz.number();
                    let threshold = (number + 2).min(chain.len() as u64);
                    match fz.freeze(threshold, |k| chain.get(k as usize).cloned()) {
                        Ok(_) => {
                            for i in 1..threshold {
                                match fz.retrieve(i) {
                                    Ok(Some(raw)) if raw.as_slice() == chain[i as usize].data().as_slice() => {}
                                    other => {
                                        report.violation(format!("freezer/read-after-recovery-freeze/{class}"), format!("retrieve({i}): {:?}", other.map(|x| x.map(|b| b.len())).map_err(|e| e.to_string())), replay.clone());
                                        break;
                                    }
                                }
                            }
                        }
                        Err(e) => report.violation(format!("freezer/freeze-after-recovery/{class}"), format!("{e}"), replay.clone()),
                    }
                    report.outcomes.insert(fp(&("f", n, n_ref - n)));
                    report.nontrivial.insert(fp(&(hist, cut.data_len, cut.index_len)));
                }
            }
        }
    }
    report.sample(json!({"family": "freezer", "history": hist, "crash_images": cuts.len()}));
    report.states.insert(fp(&(&o.disk, &o.mark)));
    report
}

fn fully_written_compressed(o: &Outcome, cut: &Cut) -> u64 {
    fully_written(o, cut)
}

// ---------------------------------------------------------------------------------------

fn depths(tier: Tier) -> (usize, usize) {
    let d = std::env::var("C09_DEPTH").ok().and_then(|s| s.parse().ok());
    let f = std::env::var("C09_FDEPTH").ok().and_then(|s| s.parse().ok());
    if tier.is_thorough() { (d.unwrap_or(6), f.unwrap_or(4)) } else { (d.unwrap_or(4), f.unwrap_or(2)) }
}

pub fn meta(tier: Tier) -> Meta {
    Meta {
        id: "C09",
        level: "fault_enumeration",
        rule: "BFS over all histories of {Append(size), Truncate(k), Sync, Reopen, Retrieve(k), FailNextSync (the next fsync of one of the freezer's files fails once with EIO; an operation that reports the error has not happened and may be repeated)} on the real FreezerFiles (max_file_size=40, compression off and on), states deduplicated by on-disk image + last-synced marks; for every new state every crash image: head data file cut to every byte length in [synced, final] (or absent / 0..final when the head rolled over since the last sync) x INDEX cut to every byte length in [synced, final]; each image is reopened with the real repair code and judged against the reference item list. A second search starts from the state after Append(39) Append(13) Append(13) (a head file the process has rolled over to, holding two items; depth 2, thorough 4). Files the head has left behind since the last sync point are covered by what the process itself is OBSERVED to fsync (the executable interposes fsync / fdatasync and records the file size at every completed call): a left-behind file whose last observed fsync covers less than its final size is additionally cut back into the uncovered part (with the newer files and the index complete). Second family: the same through Freezer::{open,freeze,retrieve,truncate} on real packed blocks with a 700-byte file limit. A case is non-trivial iff the image is torn (at least one of the two files shorter than final); distinct = distinct (history, cut).",
        assumptions: &[
            "only the head data file and INDEX are torn (as the property's quantifier states); older data files are intact",
            "truncate and reopen are treated as sync points",
            "states are deduplicated by on-disk image + last-synced marks + the live object's in-memory state (item count, head id/bytes/cursor, tail id, cached file ids, read through a verif hook): two histories are merged only if all of these agree",
        ],
        bounds: json!({
            "max_file_size": MAX_FILE,
            "item_sizes": if tier.is_thorough() { json!([1,13,39,40,41]) } else { json!([13,39,1,41]) },
            "history_depth_files": depths(tier).0,
            "history_depth_freezer": depths(tier).1,
            "cut_granularity": "1 byte",
        }),
    }
}

pub fn run(ctx: &Ctx) -> Report {
    let mut report = Report::new();
    if let Some(path) = &ctx.replay {
        replay(ctx, &load_replay_case(path), &mut report);
        return report;
    }
    let (depth, fdepth) = depths(ctx.tier);
    let t = std::time::Instant::now();
    bfs_files(ctx, false, depth, &mut report);
    // from a head file rolled over to inside this process that holds two items
    bfs_files_from(ctx, false, &[Op::Append(39), Op::Append(13), Op::Append(13)], if ctx.tier.is_thorough() { 4 } else { 2 }, &mut report);
    report.count("wall_ms_files_nocompress", t.elapsed().as_millis() as u64);
    let t = std::time::Instant::now();
    bfs_files(ctx, true, depth, &mut report);
    report.count("wall_ms_files_compress", t.elapsed().as_millis() as u64);
    let t = std::time::Instant::now();
    freezer_family(ctx, &mut report, fdepth);
    report.count("wall_ms_freezer", t.elapsed().as_millis() as u64);
    report
}

fn replay(ctx: &Ctx, case: &Value, report: &mut Report) {
    let family = case["family"].as_str().unwrap_or("files");
    if family == "files" {
        let hist: Vec<Op> = serde_json::from_value(case["history"].clone()).expect("history");
        let compression = case["compression"].as_bool().unwrap_or(false);
        let dir = ctx.scratch.join("replay");
        let o = replay_files(&dir.join("live"), compression, &hist);
        report.traces += 1;
        report.evaluations += 1;
        if let Some((kind, msg)) = &o.problem {
            report.violation(format!("files/{kind}"), msg.clone(), case.clone());
            return;
        }
        if let Ok(cut) = serde_json::from_value::<Cut>(case["cut"].clone()) {
            match check_recovery(&dir.join("crash"), compression, &o, &cut) {
                Ok(n) => println!("replay: recovery ok, n={n}"),
                Err((kind, msg)) => report.violation(format!("files/{kind}"), msg, case.clone()),
            }
        }
    } else {
        let hist: Vec<FOp> = serde_json::from_value(case["history"].clone()).expect("history");
        VERIF_MAX_FILE_SIZE.store(700, Ordering::SeqCst);
        let chain = block_chain(12);
        let r = freezer_one(ctx, &chain, &hist);
        report.merge(r);
    }
    // replays have a single outcome by construction
    report.outcomes.insert(1);
    report.outcomes.insert(2);
}
