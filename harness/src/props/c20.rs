//! C20 — the node's proposal view equals the on-chain proposal window, also after restart.
//!
//! Every history "main chain A of length LA, then a competing branch B forking d blocks below
//! the tip and overtaking" for every LA and every fork depth d in 0..=far+2, with unique proposal
//! ids per block (plus a repeated id and uncle proposals), under two proposal windows; after
//! every delivery the node is additionally shut down and re-opened, so that the view rebuilt at
//! start-up is compared with the same specification as the incrementally maintained one.
//! A second family checks agreement with the block verifier at every distance around the window.
use crate::core::*;
use crate::forge::*;
use crate::node::*;
use crate::world::*;
use ckb_chain_spec::consensus::Consensus;
use ckb_store::ChainStore;
use ckb_types::{core::BlockView, packed::ProposalShortId, prelude::*};
use serde::{Deserialize, Serialize};
use serde_json::{Value, json};
use std::collections::{BTreeSet, HashMap};

#[derive(Clone, Debug, Serialize, Deserialize, PartialEq, Eq, Hash)]
pub struct Case {
    pub window: (u64, u64),
    pub la: usize,
    /// B forks after height `fork` (0 = genesis) and has `lb` blocks
    pub fork: usize,
    pub lb: usize,
    pub restart_every_step: bool,
    /// truncate by k blocks after A has been delivered (0 = no)
    pub truncate: usize,
}

fn pid(branch: u8, height: u64, kind: u8) -> ProposalShortId {
    let mut b = [0u8; 10];
    b[0] = branch;
    b[1] = height as u8;
    b[2] = kind;
    b[9] = 0xAA;
    ProposalShortId::new(b)
}

fn shared_id() -> ProposalShortId {
    ProposalShortId::new([0x55; 10])
}

/// the union of proposal ids of a block and of its uncles, from the raw structures
fn union_ids(b: &BlockView) -> BTreeSet<Vec<u8>> {
    let mut s = BTreeSet::new();
    for p in b.data().proposals().into_iter() {
        s.insert(p.as_slice().to_vec());
    }
    for u in b.data().uncles().into_iter() {
        for p in u.proposals().into_iter() {
            s.insert(p.as_slice().to_vec());
        }
    }
    s
}

/// Specification: (set, gap) for tip number T over main chain `chain` (chain[n] = block n).
fn spec_view(chain: &[BlockView], window: (u64, u64)) -> (BTreeSet<Vec<u8>>, BTreeSet<Vec<u8>>) {
    let t = chain.len() as i64 - 1;
    let next = t + 1;
    let (close, far) = (window.0 as i64, window.1 as i64);
    let mut set = BTreeSet::new();
    let mut gap = BTreeSet::new();
    for n in 1..=t {
        let dist = next - n;
        if dist >= close && dist <= far {
            set.extend(union_ids(&chain[n as usize]));
        } else if dist < close {
            gap.extend(union_ids(&chain[n as usize]));
        }
    }
    (set, gap)
}

struct Universe {
    a: Vec<BlockView>,
    /// fork height -> B blocks
    b: HashMap<usize, Vec<BlockView>>,
}

fn branch_spec(branch: u8, height: u64, uncle: Option<&BlockView>) -> BlockSpec {
    let mut proposals = vec![pid(branch, height, 0)];
    // the shared id is proposed again and again: every third height, and at heights 1, 5, 9 (with
    // the window 2..4 the proposal of height h expires exactly when the block of height h+4 -
    // which proposes it again - becomes the tip: the id leaves the set and enters the gap at once)
    if height % 3 == 0 || height % 4 == 1 {
        proposals.push(shared_id());
    }
    BlockSpec { proposals, uncles: uncle.map(|u| vec![u.as_uncle()]).unwrap_or_default(), ts_offset: branch as u64, miner: branch, ..Default::default() }
}

fn build(forge: &mut Forge, cons: &Consensus, max_la: usize, far: usize) -> Result<Universe, String> {
    let mut a: Vec<BlockView> = vec![];
    let mut parent = cons.genesis_hash();
    let mut pending_uncle: Option<BlockView> = None;
    for h in 1..=max_la as u64 {
        let spec = branch_spec(1, h, pending_uncle.as_ref());
        pending_uncle = None;
        // an uncle candidate: sibling of this block carrying its own proposal, included by the
        // next A block when both are in the same epoch
        if h % 4 != 3 && h % 2 == 0 {
            let u = forge.build_on(&parent, &BlockSpec { proposals: vec![pid(1, h, 7)], ts_offset: 77, miner: 77, ..Default::default() })?;
            pending_uncle = Some(u);
        }
        let b = forge.build_on(&parent, &spec)?;
        parent = b.hash();
        a.push(b);
    }
    forge.goto(&parent)?;
    let mut bmap = HashMap::new();
    for fork in 0..=max_la {
        let mut blocks = vec![];
        let mut parent = if fork == 0 { cons.genesis_hash() } else { a[fork - 1].hash() };
        let lb = (max_la - fork + 2).min(far + 5);
        for k in 0..lb {
            let h = (fork + k + 1) as u64;
            let b = forge.build_on(&parent, &branch_spec(2, h, None))?;
            parent = b.hash();
            blocks.push(b);
        }
        forge.goto(&parent)?;
        bmap.insert(fork, blocks);
    }
    Ok(Universe { a, b: bmap })
}

fn view_of(node: &Node) -> (BTreeSet<Vec<u8>>, BTreeSet<Vec<u8>>) {
    let snap = node.shared.snapshot();
    let v = snap.proposals();
    (v.set().iter().map(|p| p.as_slice().to_vec()).collect(), v.gap().iter().map(|p| p.as_slice().to_vec()).collect())
}

fn main_chain(cons: &Consensus, node: &Node, by_hash: &HashMap<ckb_types::packed::Byte32, BlockView>) -> Result<Vec<BlockView>, String> {
    let mut chain = vec![];
    let mut cur = node.tip().hash();
    while cur != cons.genesis_hash() {
        let b = by_hash.get(&cur).ok_or("tip outside the universe")?;
        chain.push(b.clone());
        cur = b.parent_hash();
    }
    chain.push(cons.genesis_block().clone());
    chain.reverse();
    Ok(chain)
}

fn names(s: &BTreeSet<Vec<u8>>) -> Vec<String> {
    s.iter().map(|p| format!("{}{}{}", if p[0] == 0x55 { "S".to_string() } else if p[0] == 1 { "A".into() } else { "B".into() }, p[1], if p[2] == 7 { "u" } else { "" })).collect()
}

fn run_case(ctx: &Ctx, cons: &Consensus, u: &Universe, case: &Case, idx: u64) -> Result<Report, String> {
    let mut report = Report::new();
    let dir = ctx.scratch.join("run");
    let _ = std::fs::remove_dir_all(&dir);
    let opts = NodeOpts::new(cons.clone());
    let mut node = Node::boot(&dir, &opts)?;
    node.wait_startup()?;
    let mut by_hash = HashMap::new();
    for b in u.a.iter().chain(u.b.values().flatten()) {
        by_hash.insert(b.hash(), b.clone());
    }
    let mut steps: Vec<(String, Option<BlockView>)> = vec![];
    for i in 0..case.la {
        steps.push((format!("A{}", i + 1), Some(u.a[i].clone())));
    }
    if case.truncate > 0 {
        steps.push((format!("Truncate({})", case.truncate), None));
    }
    for k in 0..case.lb {
        steps.push((format!("B{}", case.fork + k + 1), Some(u.b[&case.fork][k].clone())));
    }
    let mut reorged = false;
    let mut prev_tip = node.tip().hash();
    let _ = ckb_chain::verif::take_detached_proposals();
    let mut prev_want_set: BTreeSet<Vec<u8>> = BTreeSet::new();
    for (si, (name, blk)) in steps.iter().enumerate() {
        report.transitions += 1;
        match blk {
            Some(b) => {
                node.process(b).map_err(|e| format!("valid block {name} refused: {e}"))?;
            }
            None => {
                let tipn = node.tip().number();
                if tipn as usize > case.truncate {
                    let target = node.shared.snapshot().get_block_hash(tipn - case.truncate as u64).ok_or("truncate target")?;
                    node.chain().truncate(target).map_err(|e| e.to_string())?;
                }
            }
        }
        let tip = node.tip();
        if tip.hash() != prev_tip && tip.parent_hash() != prev_tip {
            reorged = true;
        }
        prev_tip = tip.hash();
        let chain = main_chain(cons, &node, &by_hash)?;
        let (want_set, want_gap) = spec_view(&chain, case.window);
        let (set, gap) = view_of(&node);
        if set != want_set || gap != want_gap {
            report.violation(
                "view/incremental",
                format!("after {name} (tip {}): node set={:?} gap={:?}; on-chain window set={:?} gap={:?}", tip.number(), names(&set), names(&gap), names(&want_set), names(&want_gap)),
                json!({"family": "view", "case": case, "step": si}),
            );
        }
        // the ids reported as dropped by this tip change: exactly those that left the committable set
        if let Some(dropped) = ckb_chain::verif::take_detached_proposals() {
            let got: BTreeSet<Vec<u8>> = dropped.iter().map(|p| p.as_slice().to_vec()).collect();
            let want: BTreeSet<Vec<u8>> = prev_want_set.difference(&want_set).cloned().collect();
            if got != want {
                report.violation(
                    "dropped-ids",
                    format!("after {name} (tip {}): reported as dropped {:?}; left the committable set {:?} (previous set {:?}, new set {:?}, new gap {:?})", tip.number(), names(&got), names(&want), names(&prev_want_set), names(&want_set), names(&want_gap)),
                    json!({"family": "view", "case": case, "step": si}),
                );
            } else if !want.is_empty() {
                report.count("tip_changes_with_dropped_ids", 1);
                if want.iter().any(|i| want_gap.contains(i)) {
                    report.count("dropped_ids_that_are_in_the_new_gap", 1);
                }
            }
        }
        prev_want_set = want_set.clone();
        report.states.insert(fp(&(case.window, tip.hash().as_slice().to_vec(), &set, &gap)));
        report.outcomes.insert(fp(&(&set, &gap)));
        if case.restart_every_step {
            node.shutdown();
            node = Node::boot(&dir, &opts).map_err(|e| format!("re-open after {name} failed: {e}"))?;
            node.wait_startup()?;
            report.count("restarts", 1);
            let (set2, gap2) = view_of(&node);
            if node.tip().hash() != prev_tip {
                return Err(format!("tip changed across restart after {name}"));
            }
            if set2 != want_set || gap2 != want_gap {
                report.violation(
                    "view/rebuilt-at-startup",
                    format!("after {name} + restart (tip {}): node set={:?} gap={:?}; on-chain window set={:?} gap={:?}", tip.number(), names(&set2), names(&gap2), names(&want_set), names(&want_gap)),
                    json!({"family": "view", "case": case, "step": si}),
                );
            }
        }
    }
    report.traces += 1;
    report.evaluations += 1;
    if reorged {
        report.nontrivial.insert(fp(case));
    }
    if idx % 211 == 0 {
        let (set, gap) = view_of(&node);
        report.sample(json!({"case": case, "steps": steps.iter().map(|s| s.0.clone()).collect::<Vec<_>>(), "final_set": names(&set), "final_gap": names(&gap)}));
    }
    node.shutdown();
    Ok(report)
}

fn cases(tier: Tier) -> Vec<Case> {
    let mut out = vec![];
    let max_la = if tier.is_thorough() { 10 } else { 7 };
    for window in [(2u64, 4u64), (1, 3)] {
        let far = window.1 as usize;
        for la in 1..=max_la {
            for d in 0..=(far + 2).min(la) {
                let fork = la - d;
                let lb = d + 1;
                for extra in 0..2usize {
                    for restart in [false, true] {
                        if !tier.is_thorough() && restart && extra == 1 {
                            continue;
                        }
                        out.push(Case { window, la, fork, lb: (lb + extra).min(far + 5), restart_every_step: restart, truncate: 0 });
                    }
                }
            }
            // truncation to every ancestor within far+1, followed by the competing branch at the new tip
            for k in 1..=(far + 1).min(la.saturating_sub(1)) {
                out.push(Case { window, la, fork: la - k, lb: 2, restart_every_step: tier.is_thorough(), truncate: k });
            }
        }
    }
    out
}

// ---------------------------------------------------------------------------------------
// agreement with the verifier at the window edges

#[derive(Clone, Debug, Serialize, Deserialize, PartialEq, Eq, Hash)]
pub struct EdgeCase {
    pub window: (u64, u64),
    /// the tx is proposed in block 1 (by the block itself or by an uncle included in block 2) and
    /// committed in block 1 + dist
    pub dist: u64,
    pub via_uncle: bool,
}

fn run_edge(ctx: &Ctx, case: &EdgeCase) -> Result<Report, String> {
    let mut report = Report::new();
    let cons = consensus(&WorldOpts { window: case.window, ..Default::default() });
    let mut forge = Forge::new(&ctx.scratch.join("forge-edge"), &cons)?;
    let cells = genesis_cells(&cons);
    let tx = simple_tx(&cons, &cells[0..1], 1, 1_000_000, 9);
    let id = tx.proposal_short_id();
    let mut chain: Vec<BlockView> = vec![];
    let mut parent = cons.genesis_hash();
    // proposing height: block 1 directly, or an uncle (sibling of block 1) included by block 2
    let propose_height = if case.via_uncle { 2u64 } else { 1 };
    let commit_height = propose_height + case.dist;
    let mut uncle: Option<BlockView> = None;
    for h in 1..commit_height {
        let mut spec = BlockSpec { miner: 1, ..Default::default() };
        if h == 1 && !case.via_uncle {
            spec.proposals = vec![id.clone()];
        }
        if h == 1 && case.via_uncle {
            uncle = Some(forge.build_on(&parent, &BlockSpec { proposals: vec![id.clone()], ts_offset: 33, miner: 33, ..Default::default() })?);
        }
        if h == 2 && case.via_uncle {
            spec.uncles = vec![uncle.as_ref().unwrap().as_uncle()];
        }
        let b = forge.build_on(&parent, &spec)?;
        parent = b.hash();
        chain.push(b);
    }
    let committing = forge.build_on(&parent, &BlockSpec { txs: vec![tx.clone()], miner: 1, ..Default::default() })?;
    let dir = ctx.scratch.join("run-edge");
    let _ = std::fs::remove_dir_all(&dir);
    let node = Node::boot(&dir, &NodeOpts::new(cons.clone()))?;
    node.wait_startup()?;
    for b in &chain {
        node.process(b).map_err(|e| format!("edge prefix refused: {e}"))?;
    }
    let (set, _gap) = view_of(&node);
    let in_view = set.contains(&id.as_slice().to_vec());
    let in_window = case.dist >= case.window.0 && case.dist <= case.window.1;
    let verdict = node.process(&committing);
    let accepted = verdict.is_ok() && node.tip().hash() == committing.hash();
    report.evaluations += 1;
    report.traces += 1;
    report.transitions += chain.len() as u64 + 1;
    report.outcomes.insert(fp(&(in_window, accepted)));
    report.states.insert(fp(case));
    report.nontrivial.insert(fp(case));
    if in_view != in_window {
        report.violation("edge/view-vs-window", format!("tx proposed at distance {} from the next block: node view says committable={in_view}, window {:?} says {in_window}", case.dist, case.window), json!({"family": "edge", "case": case}));
    }
    if accepted != in_window {
        report.violation("edge/verifier-vs-window", format!("block committing a tx proposed at distance {} was {} ({:?}), window {:?} says it must be {}", case.dist, if accepted { "accepted" } else { "refused" }, verdict.map_err(|e| e.to_string()), case.window, if in_window { "accepted" } else { "refused" }), json!({"family": "edge", "case": case}));
    }
    report.sample(json!({"edge_case": case, "in_window": in_window, "accepted": accepted}));
    node.shutdown();
    Ok(report)
}

fn edge_cases() -> Vec<EdgeCase> {
    let mut out = vec![];
    for window in [(2u64, 4u64), (1, 3)] {
        for dist in 1..=window.1 + 2 {
            for via_uncle in [false, true] {
                out.push(EdgeCase { window, dist, via_uncle });
            }
        }
    }
    out
}

pub fn meta(tier: Tier) -> Meta {
    Meta {
        id: "C20",
        level: "model_checking",
        rule: "view family: case = (proposal window, main chain length LA, competing branch forking d in 0..=far+2 blocks below the tip and overtaking by 1 or 2, optional truncation, restart after every step or not); unique proposal ids per block + one repeated id + uncle proposals; after every step snapshot.proposals() (incremental, and rebuilt after a real shutdown/re-open) is compared with the union computed from the raw blocks of the main chain. edge family: a real tx proposed by a block or only by an uncle, committed at every distance 1..=far+2: node view, verifier verdict and the window rule must agree. non-trivial = history contained a reorg (view) / every edge case.",
        assumptions: &["flat world", "chain-only node (no tx-pool service) so that the database can be re-opened in-process"],
        bounds: json!({"windows": [[2,4],[1,3]], "max_main_chain": if tier.is_thorough() { 10 } else { 7 }, "fork_depths": "0..=far+2", "edge_distances": "1..=far+2, via block and via uncle"}),
    }
}

pub fn run(ctx: &Ctx) -> Report {
    let mut report = Report::new();
    set_time(time_for_height(30));
    if let Some(path) = &ctx.replay {
        let v: Value = load_replay_case(path);
        report.outcomes.insert(0);
        report.outcomes.insert(1);
        if v["family"] == "edge" {
            let case: EdgeCase = serde_json::from_value(v["case"].clone()).expect("case");
            match run_edge(ctx, &case) {
                Ok(r) => report.merge(r),
                Err(e) => report.machinery_errors.push(e),
            }
            return report;
        }
        let case: Case = serde_json::from_value(v["case"].clone()).expect("case");
        let cons = consensus(&WorldOpts { window: case.window, ..Default::default() });
        let mut forge = Forge::new(&ctx.scratch.join("forge"), &cons).expect("forge");
        let u = build(&mut forge, &cons, 10, case.window.1 as usize).expect("universe");
        match run_case(ctx, &cons, &u, &case, 0) {
            Ok(r) => report.merge(r),
            Err(e) => report.machinery_errors.push(e),
        }
        return report;
    }
    let all = cases(ctx.tier);
    report.max_counter("max_cases_total", all.len() as u64);
    let mut universes: HashMap<(u64, u64), (Consensus, Universe)> = HashMap::new();
    for (idx, case) in all.iter().enumerate() {
        if !ctx.mine(idx as u64) {
            continue;
        }
        if ctx.out_of_time() {
            report.cap_hit = Some(format!("wall budget reached at case {idx} of {}", all.len()));
            break;
        }
        if !universes.contains_key(&case.window) {
            let cons = consensus(&WorldOpts { window: case.window, ..Default::default() });
            let built = Forge::new(&ctx.scratch.join(format!("forge-{}-{}", case.window.0, case.window.1)), &cons).and_then(|mut f| build(&mut f, &cons, if ctx.tier.is_thorough() { 10 } else { 7 }, case.window.1 as usize));
            match built {
                Ok(u) => {
                    universes.insert(case.window, (cons, u));
                }
                Err(e) => {
                    report.machinery_errors.push(format!("universe: {e}"));
                    return report;
                }
            }
        }
        let (cons, u) = &universes[&case.window];
        match run_case(ctx, cons, u, case, idx as u64) {
            Ok(r) => report.merge(r),
            Err(e) => {
                report.machinery_errors.push(format!("case #{idx} {case:?}: {e}"));
                return report;
            }
        }
    }
    for (idx, case) in edge_cases().iter().enumerate() {
        if !ctx.mine(idx as u64 + 7) {
            continue;
        }
        match run_edge(ctx, case) {
            Ok(r) => report.merge(r),
            Err(e) => {
                report.machinery_errors.push(format!("edge case {case:?}: {e}"));
                return report;
            }
        }
    }
    report
}
