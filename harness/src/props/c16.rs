//! C16 — bytes from peers can be rejected but never crash the node or forge a block.
//!
//! (A) decode sweep: every byte string of length 0..=2, and every truncation / single-byte
//!     substitution / header-word replacement / bit flip of the 27 zoo messages (raw and inside a
//!     compressed frame), pushed through decompression, compatible decoding (the production
//!     mode) and a full accessor walk incl. the context-free verifiers, under catch_unwind;
//! (B) compact-block reconstruction with the real Relayer on a real pool: every prefilled index
//!     subset containing 0 x every pool-availability subset x every peer-supplied subset (incl. a
//!     foreign tx) x short-id / proposal / extension tampering; the result must be the announced
//!     block, a precise missing report, a collision or an error - never a different block.
use crate::core::*;
use crate::node::*;
use crate::world::*;
use crate::zoo;
use ckb_network::compress::{compress, decompress};
use ckb_sync::{Relayer, SyncShared};
use ckb_types::{
    bytes::{Bytes, BytesMut},
    core::{BlockBuilder, BlockView, TransactionView},
    packed,
    prelude::*,
};
use ckb_verification::{BlockVerifier, NonContextualTransactionVerifier};
use ckb_verification_traits::Verifier;
use rayon::prelude::*;
use serde_json::{Value, json};
use std::collections::HashSet;
use std::sync::Arc;

fn walk_tx(tx: &packed::Transaction, cons: &ckb_chain_spec::consensus::Consensus) {
    let v = tx.clone().into_view();
    let _ = (v.hash(), v.witness_hash(), v.proposal_short_id(), v.data().serialized_size_in_block(), v.is_cellbase(), v.outputs_capacity());
    for i in v.inputs().into_iter() {
        let _: u64 = i.since().into();
        let _ = i.previous_output().to_cell_key();
    }
    for (o, d) in v.outputs_with_data_iter() {
        let _ = (o.occupied_capacity(ckb_types::core::Capacity::bytes(d.len()).unwrap_or(ckb_types::core::Capacity::zero())), o.lock().calc_script_hash(), o.type_().to_opt().map(|t| t.calc_script_hash()));
    }
    let _ = NonContextualTransactionVerifier::new(&v, cons).verify();
    let _ = format!("{tx}");
}

fn walk_block(b: &packed::Block, cons: &ckb_chain_spec::consensus::Consensus) {
    let _ = (b.count_extra_fields(), b.serialized_size_without_uncle_proposals());
    let v = b.clone().into_view();
    let _ = (v.hash(), v.calc_transactions_root(), v.calc_extra_hash().extra_hash(), v.union_proposal_ids(), v.extension().map(|e| e.len()));
    for u in v.uncles().into_iter() {
        let _ = (u.hash(), u.data().proposals().len());
    }
    let _ = BlockVerifier::new(cons).verify(&v);
    let cb = packed::CompactBlock::build_from_block(&v, &HashSet::new());
    let _ = ckb_sync::verif::compact_block_verify(&cb);
    for tx in b.transactions().into_iter() {
        walk_tx(&tx, cons);
    }
}

fn walk_compact(cb: &packed::CompactBlock) {
    let _ = (cb.calc_header_hash(), cb.txs_len(), cb.block_short_ids().len(), cb.short_id_indexes().len(), cb.extension().map(|e| e.len()));
    let st = ckb_sync::verif::compact_block_verify(cb);
    if st.is_ok() {
        // only verified compact blocks reach these in production
        let idx: Vec<u32> = cb.short_id_indexes().iter().map(|i| *i as u32).collect();
        let _ = ckb_sync::verif::block_transactions_verify(cb, &idx, &[]);
        let _ = ckb_sync::verif::block_uncles_verify(cb, &[], &[]);
    }
    let _ = format!("{cb}");
}

/// What the four protocol handlers do with a payload before any chain access.
fn decode_and_walk(family: &str, data: &[u8], cons: &ckb_chain_spec::consensus::Consensus) -> bool {
    match family {
        "Sync" => match packed::SyncMessageReader::from_compatible_slice(data) {
            Ok(m) => {
                match m.to_enum() {
                    packed::SyncMessageUnionReader::SendBlock(r) => {
                        // the production decode boundary (Synchronizer::received): refused here = refused there
                        if ckb_sync::verif::send_block_is_malformed(&r) {
                            return false;
                        }
                        walk_block(&r.block().to_entity(), cons);
                    }
                    other if packed::SyncMessageReader::from_slice(data).is_err() => {
                        // every other arm must also pass strict decoding in production
                        let _ = other;
                        return false;
                    }
                    packed::SyncMessageUnionReader::SendHeaders(r) => {
                        for h in r.headers().iter() {
                            let hv = h.to_entity().into_view();
                            let _ = (hv.hash(), hv.difficulty(), hv.epoch().is_well_formed());
                        }
                    }
                    packed::SyncMessageUnionReader::GetHeaders(r) => {
                        let _ = (r.block_locator_hashes().len(), r.hash_stop().to_entity());
                    }
                    packed::SyncMessageUnionReader::GetBlocks(r) => {
                        let _ = r.block_hashes().iter().map(|h| h.to_entity()).count();
                    }
                    packed::SyncMessageUnionReader::InIBD(_) => {}
                }
                let _ = format!("{}", m.to_entity());
                true
            }
            Err(_) => false,
        },
        "Relay" => match packed::RelayMessageReader::from_compatible_slice(data) {
            Ok(m) => {
                match m.to_enum() {
                    packed::RelayMessageUnionReader::CompactBlock(r) => {
                        // the production decode boundary (Relayer::received)
                        if ckb_sync::verif::compact_block_is_malformed(&r) {
                            return false;
                        }
                        walk_compact(&r.to_entity())
                    }
                    other if packed::RelayMessageReader::from_slice(data).is_err() => {
                        let _ = other;
                        return false;
                    }
                    packed::RelayMessageUnionReader::RelayTransactions(r) => {
                        for t in r.transactions().iter() {
                            let _: u64 = t.cycles().into();
                            walk_tx(&t.transaction().to_entity(), cons);
                        }
                    }
                    packed::RelayMessageUnionReader::BlockTransactions(r) => {
                        for t in r.transactions().iter() {
                            walk_tx(&t.to_entity(), cons);
                        }
                        for u in r.uncles().iter() {
                            let _ = u.to_entity().into_view().hash();
                        }
                    }
                    packed::RelayMessageUnionReader::BlockProposal(r) => {
                        for t in r.transactions().iter() {
                            walk_tx(&t.to_entity(), cons);
                        }
                    }
                    packed::RelayMessageUnionReader::GetBlockTransactions(r) => {
                        let _: Vec<u32> = r.indexes().iter().map(|i| i.into()).collect();
                        let _: Vec<u32> = r.uncle_indexes().iter().map(|i| i.into()).collect();
                    }
                    packed::RelayMessageUnionReader::GetBlockProposal(r) => {
                        let _ = r.proposals().iter().map(|p| p.to_entity()).count();
                    }
                    packed::RelayMessageUnionReader::RelayTransactionHashes(r) => {
                        let _ = r.tx_hashes().len();
                    }
                    packed::RelayMessageUnionReader::GetRelayTransactions(r) => {
                        let _ = r.tx_hashes().len();
                    }
                }
                let _ = format!("{}", m.to_entity());
                true
            }
            Err(_) => false,
        },
        "Filter" => match packed::BlockFilterMessageReader::from_compatible_slice(data) {
            Ok(m) => {
                let _ = format!("{}", m.to_entity());
                if let packed::BlockFilterMessageUnionReader::BlockFilters(r) = m.to_enum() {
                    let _ = (r.block_hashes().len(), r.filters().iter().map(|f| f.raw_data().len()).sum::<usize>());
                }
                true
            }
            Err(_) => false,
        },
        _ => match packed::LightClientMessageReader::from_compatible_slice(data) {
            Ok(m) => {
                let _ = format!("{}", m.to_entity());
                match m.to_enum() {
                    packed::LightClientMessageUnionReader::SendLastStateProof(r) => {
                        for h in r.headers().iter() {
                            let vh: ckb_types::utilities::merkle_mountain_range::VerifiableHeader = h.to_entity().into();
                            let _ = (vh.header().hash(), vh.is_valid(0), vh.is_valid(u64::MAX), vh.total_difficulty());
                        }
                    }
                    packed::LightClientMessageUnionReader::SendTransactionsProof(r) => {
                        for fb in r.filtered_blocks().iter() {
                            for t in fb.transactions().iter() {
                                walk_tx(&t.to_entity(), cons);
                            }
                        }
                    }
                    _ => {}
                }
                true
            }
            Err(_) => false,
        },
    }
}

fn mutants(bytes: &[u8]) -> Vec<Vec<u8>> {
    let mut out = vec![];
    for cut in 0..bytes.len() {
        out.push(bytes[..cut].to_vec());
    }
    for i in 0..bytes.len() {
        let b = bytes[i];
        for v in [0x00u8, 0x01, 0x7f, 0x80, 0xff, b.wrapping_sub(1), b.wrapping_add(1)] {
            if v != b {
                let mut m = bytes.to_vec();
                m[i] = v;
                out.push(m);
            }
        }
    }
    let len = bytes.len() as u32;
    for w in (0..bytes.len().saturating_sub(3)).step_by(4) {
        for v in [0u32, 1, len.wrapping_sub(1), len, len.wrapping_add(1), 0x7fff_ffff, 0xffff_ffff] {
            let mut m = bytes.to_vec();
            m[w..w + 4].copy_from_slice(&v.to_le_bytes());
            if m != bytes {
                out.push(m);
            }
        }
    }
    if bytes.len() <= 256 {
        for i in 0..bytes.len() {
            for bit in 0..8 {
                let mut m = bytes.to_vec();
                m[i] ^= 1 << bit;
                out.push(m);
            }
        }
    }
    out
}

const FAMILIES: [&str; 4] = ["Sync", "Relay", "Filter", "Light"];

fn decode_family(ctx: &Ctx, report: &mut Report) {
    let cons = consensus(&WorldOpts::default());
    let probe = |family: &str, name: &str, data: Vec<u8>, via: &str, r: &mut Report| {
        r.evaluations += 1;
        let res = std::panic::catch_unwind(std::panic::AssertUnwindSafe(|| decode_and_walk(family, &data, &cons)));
        match res {
            Ok(true) => {
                r.count("decoded", 1);
                r.nontrivial.insert(fp(&(family, &data)));
                r.outcomes.insert(fp(&(family, true)));
            }
            Ok(false) => {
                r.count("rejected", 1);
                r.outcomes.insert(fp(&(family, false)));
            }
            Err(_) => r.violation(format!("decode-panic/{family}/{}", name.split('/').nth(1).unwrap_or(name).split('-').next().unwrap_or("")), format!("decoding / walking a {via} mutant of {name} as a {family} message panicked"), json!({"family": "decode", "reader": family, "seed": name, "via": via, "bytes": hex(&data)})),
        }
    };
    // all byte strings of length 0..=2 into every reader and into decompress
    let mut short: Vec<Vec<u8>> = vec![vec![]];
    for a in 0..=255u8 {
        short.push(vec![a]);
        for b in 0..=255u8 {
            short.push(vec![a, b]);
        }
    }
    for fam in FAMILIES {
        for s in &short {
            probe(fam, "short", s.clone(), "raw", report);
        }
    }
    for s in &short {
        report.evaluations += 1;
        let res = std::panic::catch_unwind(|| decompress(BytesMut::from(&s[..])));
        if res.is_err() {
            report.violation("decompress-panic", "decompress panicked on a short frame".to_string(), json!({"family": "decompress", "bytes": hex(s)}));
        }
    }
    // mutants of every zoo message, raw and compressed
    let msgs = zoo::messages();
    let rs: Vec<Report> = msgs
        .par_iter()
        .map(|(name, bytes)| {
            let mut r = Report::new();
            let own = name.split('/').next().unwrap();
            let cap = if ctx.tier.is_thorough() { usize::MAX } else { 700 };
            if bytes.len() <= cap {
                for m in mutants(bytes) {
                    // every mutant goes to its own reader; a sample of readers gets foreign payloads
                    probe(own, name, m, "raw", &mut r);
                }
                for fam in FAMILIES {
                    if fam != own {
                        probe(fam, name, bytes.clone(), "foreign-reader", &mut r);
                    }
                }
            }
            // the compressed frame of the message (padded above the compression threshold)
            let frame = compress(Bytes::from(bytes.clone()));
            let frame_mutants = if frame.len() <= cap { mutants(&frame) } else { (0..frame.len().min(64)).map(|i| { let mut m = frame.to_vec(); m[i] ^= 0x80; m }).collect() };
            for m in frame_mutants {
                r.evaluations += 1;
                let res = std::panic::catch_unwind(|| decompress(BytesMut::from(&m[..])));
                match res {
                    Err(_) => r.violation("decompress-panic", format!("decompress panicked on a mutated frame of {name}"), json!({"family": "decompress", "seed": name, "bytes": hex(&m)})),
                    Ok(Ok(out)) => {
                        if out.len() > (1 << 23) {
                            r.violation("decompress-oversize", format!("decompress returned {} bytes (> 8 MiB)", out.len()), json!({"family": "decompress", "seed": name, "bytes": hex(&m)}));
                        }
                        probe(own, name, out.to_vec(), "decompressed", &mut r);
                    }
                    Ok(Err(_)) => r.count("frames_rejected", 1),
                }
            }
            r
        })
        .collect();
    for r in rs {
        report.merge(r);
    }
    // a large compressible payload crosses the threshold and must round-trip
    for (name, bytes) in &msgs {
        let mut big = bytes.clone();
        big.extend(std::iter::repeat(0u8).take(2048));
        let frame = compress(Bytes::from(big.clone()));
        match decompress(BytesMut::from(&frame[..])) {
            Ok(out) if out.as_ref() == big.as_slice() => {}
            other => report.violation("compress-roundtrip", format!("compress/decompress of {name} + padding does not round-trip: {:?}", other.map(|o| o.len())), json!({"family": "compress", "seed": name})),
        }
        report.evaluations += 1;
    }
    // what a frame may inflate to: well-formed compressed frames around the 8 MiB bound, through
    // `decompress` and through the production frame decoder (a valid snappy stream of zero bytes is
    // a few hundred KB on the wire, far below every protocol's frame limit)
    {
        use tokio_util::codec::{Decoder, Encoder, length_delimited::LengthDelimitedCodec};
        const LIMIT: usize = 8 << 20;
        for n in [LIMIT - 1, LIMIT, LIMIT + 1, LIMIT + 4096, 2 * LIMIT, 5 * LIMIT] {
            let payload = Bytes::from(vec![0u8; n]);
            let frame = compress(payload.clone());
            report.evaluations += 1;
            let label = json!({"family": "decompress", "inflates_to": n, "frame_bytes": frame.len()});
            match std::panic::catch_unwind(|| decompress(BytesMut::from(&frame[..]))) {
                Err(_) => report.violation("decompress-panic", format!("decompress panicked on a well-formed frame inflating to {n} bytes"), label.clone()),
                Ok(Ok(out)) => {
                    if out.len() > LIMIT {
                        report.violation("decompress-oversize", format!("decompress turned a {}-byte frame into a {}-byte message (the bound is {LIMIT})", frame.len(), out.len()), label.clone());
                    } else if out.as_ref() != payload.as_ref() {
                        report.violation("compress-roundtrip", format!("a frame inflating to {n} bytes does not round-trip"), label.clone());
                    } else {
                        report.nontrivial.insert(fp(&("inflate", n)));
                    }
                }
                Ok(Err(_)) => {
                    if n <= LIMIT {
                        report.violation("decompress-refuses-within-bound", format!("a well-formed frame inflating to {n} bytes (within the {LIMIT}-byte bound) is refused"), label.clone());
                    }
                }
            }
            // the production decoder: a length-delimited frame carrying the same compressed payload
            let mut codec = ckb_network::compress::LengthDelimitedCodecWithCompress::new(true, LengthDelimitedCodec::builder().max_frame_length(4 << 20).new_codec(), 100usize.into());
            let mut wire = BytesMut::new();
            // (the encoder compresses; a payload beyond what an honest peer sends is encoded all the same)
            if codec.encode(payload.clone(), &mut wire).is_err() {
                continue;
            }
            report.evaluations += 1;
            match std::panic::catch_unwind(std::panic::AssertUnwindSafe(|| codec.decode(&mut wire))) {
                Err(_) => report.violation("decompress-panic", format!("the frame decoder panicked on a well-formed frame inflating to {n} bytes"), label.clone()),
                Ok(Ok(Some(out))) => {
                    if out.len() > LIMIT {
                        report.violation("decompress-oversize", format!("the frame decoder turned a frame into a {}-byte message (the bound is {LIMIT})", out.len()), label.clone());
                    }
                }
                Ok(Ok(None)) | Ok(Err(_)) => {
                    if n <= LIMIT {
                        report.violation("decompress-refuses-within-bound", format!("the frame decoder refuses a well-formed frame inflating to {n} bytes"), label.clone());
                    }
                }
            }
        }
    }
    report.sample(json!({"family": "decode", "seed_messages": msgs.iter().map(|m| format!("{} ({} B)", m.0, m.1.len())).collect::<Vec<_>>()}));
}

// ---------------------------------------------------------------------------------------
// (B) reconstruction

fn subsets<T: Clone>(items: &[T]) -> Vec<Vec<T>> {
    (0..(1u32 << items.len())).map(|mask| items.iter().enumerate().filter(|(i, _)| mask & (1 << i) != 0).map(|(_, t)| t.clone()).collect()).collect()
}

fn reconstruct_family(ctx: &Ctx, report: &mut Report) -> Result<(), String> {
    let cons = consensus(&WorldOpts::default());
    set_time(time_for_height(1));
    let dir = ctx.scratch.join("relay-node");
    let _ = std::fs::remove_dir_all(&dir);
    let node = Node::boot(&dir, &NodeOpts::new(cons.clone()).with_pool())?;
    node.wait_startup()?;
    let rx = node.relay_rx.lock().unwrap().take().ok_or("relay receiver")?;
    let sync_shared = Arc::new(SyncShared::new(node.shared.clone(), Default::default(), rx));
    let relayer = Relayer::new(node.chain().clone(), Arc::clone(&sync_shared));
    let cells = genesis_cells(&cons);
    let txs: Vec<TransactionView> = (0..3).map(|i| simple_tx(&cons, &cells[i..i + 1], 1, 1_000_000 + i as u64, 20 + i as u8)).collect();
    let foreign = simple_tx(&cons, &cells[4..5], 1, 9_000_000, 99);
    // the announced block: cellbase-shaped tx + 3 txs, 2 proposals, an extension (no uncles: an
    // unknown uncle hash would be reported missing, which is exercised separately below)
    let cellbase = cons.genesis_block().transactions()[0].clone();
    let block: BlockView = BlockBuilder::default()
        .number(1u64)
        .parent_hash(cons.genesis_hash())
        .timestamp(time_for_height(1))
        .compact_target(cons.genesis_block().compact_target())
        .transaction(cellbase.clone())
        .transactions(txs.clone())
        .proposal(packed::ProposalShortId::new([1; 10]))
        .proposal(packed::ProposalShortId::new([2; 10]))
        .extension(Some(Bytes::from(vec![5u8; 32]).pack()))
        .build();
    let announced_hash = block.hash();
    let handle = node.shared.async_handle().clone();
    let pool = node.shared.tx_pool_controller().clone();
    let mut in_pool: HashSet<usize> = HashSet::new();

    #[derive(Clone, Debug, serde::Serialize)]
    enum Tamper {
        None,
        ShortIdForeign(usize),
        ProposalsChanged,
        ExtensionChanged,
        ExtensionRemoved,
    }
    let tampers = [Tamper::None, Tamper::ShortIdForeign(0), Tamper::ShortIdForeign(2), Tamper::ProposalsChanged, Tamper::ExtensionChanged, Tamper::ExtensionRemoved];
    let prefilled_sets: Vec<Vec<usize>> = subsets(&[1usize, 2, 3]);
    let pool_sets: Vec<Vec<usize>> = subsets(&[0usize, 1, 2]);
    let supplied_sets: Vec<Vec<usize>> = subsets(&[0usize, 1, 2, 3]); // 3 = the foreign tx
    for pool_set in &pool_sets {
        // bring the pool to exactly this availability
        for i in 0..3 {
            let want = pool_set.contains(&i);
            if want && !in_pool.contains(&i) {
                node.submit_tx(&txs[i]).map_err(|e| format!("submit: {e}"))?;
                in_pool.insert(i);
            } else if !want && in_pool.contains(&i) {
                pool.remove_local_tx(txs[i].hash()).map_err(|e| e.to_string())?;
                in_pool.remove(&i);
            }
        }
        for prefilled in &prefilled_sets {
            for tamper in &tampers {
                let pre: HashSet<usize> = prefilled.iter().cloned().collect();
                let mut cb = packed::CompactBlock::build_from_block(&block, &pre);
                match tamper {
                    Tamper::None => {}
                    Tamper::ShortIdForeign(k) => {
                        let mut ids: Vec<packed::ProposalShortId> = cb.short_ids().into_iter().collect();
                        if *k >= ids.len() {
                            continue;
                        }
                        ids[*k] = foreign.proposal_short_id();
                        cb = cb.as_builder().short_ids(ids.pack()).build();
                    }
                    Tamper::ProposalsChanged => {
                        cb = cb.as_builder().proposals(vec![packed::ProposalShortId::new([9; 10])].pack()).build();
                    }
                    Tamper::ExtensionChanged => {
                        let v1 = packed::CompactBlockV1::new_builder()
                            .header(cb.header())
                            .short_ids(cb.short_ids())
                            .prefilled_transactions(cb.prefilled_transactions())
                            .uncles(cb.uncles())
                            .proposals(cb.proposals())
                            .extension(Bytes::from(vec![6u8; 40]).pack())
                            .build();
                        cb = v1.as_v0();
                    }
                    Tamper::ExtensionRemoved => {
                        cb = packed::CompactBlock::new_builder().header(cb.header()).short_ids(cb.short_ids()).prefilled_transactions(cb.prefilled_transactions()).uncles(cb.uncles()).proposals(cb.proposals()).build();
                    }
                }
                if !ckb_sync::verif::compact_block_verify(&cb).is_ok() {
                    report.count("compact_blocks_refused_by_verifier", 1);
                    continue;
                }
                for supplied in &supplied_sets {
                    if ctx.out_of_time() {
                        report.cap_hit = Some("reconstruction family: wall budget".into());
                        return Ok(());
                    }
                    let received: Vec<TransactionView> = supplied.iter().map(|i| if *i == 3 { foreign.clone() } else { txs[*i].clone() }).collect();
                    let active = sync_shared.active_chain();
                    let fut = relayer.reconstruct_block(&active, &cb, received, &[], &[]);
                    let res = std::panic::catch_unwind(std::panic::AssertUnwindSafe(|| handle.block_on(fut)));
                    report.evaluations += 1;
                    report.transitions += 1;
                    let label = json!({"family": "reconstruct", "prefilled": prefilled, "pool": pool_set, "supplied": supplied, "tamper": tamper});
                    // which block positions can be resolved: prefilled, or short id known from supplied/pool
                    let short_ids: Vec<packed::ProposalShortId> = cb.short_ids().into_iter().collect();
                    let positions: Vec<usize> = (1..=3).filter(|p| !pre.contains(p)).collect();
                    let mut want_missing = vec![];
                    for (k, pos) in positions.iter().enumerate() {
                        let id = &short_ids[k];
                        let from_supplied = supplied.iter().any(|i| (if *i == 3 { foreign.proposal_short_id() } else { txs[*i].proposal_short_id() }) == *id);
                        let from_pool = (0..3).any(|i| pool_set.contains(&i) && txs[i].proposal_short_id() == *id);
                        if !from_supplied && !from_pool {
                            want_missing.push(*pos);
                        }
                    }
                    use ckb_sync::ReconstructionResult as RR;
                    match res {
                        Err(_) => report.violation("reconstruct/panic", "reconstruct_block panicked on a verified compact block".to_string(), label),
                        Ok(RR::Block(b)) => {
                            report.outcomes.insert(1);
                            if b.hash() != announced_hash || b.data().as_slice() != block.data().as_slice() {
                                report.violation(
                                    format!("reconstruct/different-block/{}", serde_json::to_value(tamper).unwrap().as_str().map(|s| s.to_string()).unwrap_or_else(|| "short-id".into())),
                                    format!("reconstruction returned a block with hash {} for a compact block announcing {} (header roots were recomputed from peer-supplied content)", b.hash(), announced_hash),
                                    label,
                                );
                            } else {
                                report.nontrivial.insert(fp(&(prefilled, pool_set, supplied)));
                            }
                        }
                        Ok(RR::Missing(txm, um)) => {
                            report.outcomes.insert(2);
                            if txm != want_missing || !um.is_empty() {
                                report.violation("reconstruct/imprecise-missing", format!("missing report {txm:?}/{um:?}, unresolved positions are {want_missing:?}"), label);
                            }
                        }
                        Ok(RR::Collided) => {
                            report.outcomes.insert(3);
                        }
                        Ok(RR::Error(_)) => {
                            report.outcomes.insert(4);
                        }
                    }
                    report.states.insert(fp(&(prefilled, pool_set, supplied, format!("{tamper:?}"))));
                }
            }
        }
    }
    // (B2) arbitrary compact-block structure: every prefilled index sequence of length 0..=3 over
    // {0,1,2,3,4,7} x short-id lists (0..3 ids, one list with a duplicate), in production order
    // (CompactBlockVerifier, then reconstruct_block) with nothing / everything supplied.
    {
        let all_txs: Vec<TransactionView> = block.transactions();
        let ids: Vec<packed::ProposalShortId> = txs.iter().map(|t| t.proposal_short_id()).collect();
        let id_lists: Vec<Vec<packed::ProposalShortId>> = vec![vec![], vec![ids[0].clone()], vec![ids[0].clone(), ids[1].clone()], ids.clone(), vec![ids[0].clone(), ids[0].clone()], vec![ids[1].clone(), ids[2].clone()], vec![ids[2].clone()]];
        let dom = [0u32, 1, 2, 3, 4, 7];
        let mut seqs: Vec<Vec<u32>> = vec![vec![]];
        for len in 1..=3usize {
            let mut cur: Vec<Vec<u32>> = vec![vec![]];
            for _ in 0..len {
                cur = cur.into_iter().flat_map(|p| dom.iter().map(move |d| { let mut q = p.clone(); q.push(*d); q })).collect();
            }
            seqs.extend(cur);
        }
        let base = packed::CompactBlock::build_from_block(&block, &HashSet::new());
        for seq in &seqs {
            for (li, id_list) in id_lists.iter().enumerate() {
                let prefilled: Vec<packed::IndexTransaction> = seq
                    .iter()
                    .map(|i| packed::IndexTransaction::new_builder().index(*i).transaction(all_txs[(*i as usize).min(3)].data()).build())
                    .collect();
                let cb = base.clone().as_builder().prefilled_transactions(prefilled.pack()).short_ids(id_list.clone().pack()).build();
                let label = json!({"family": "structure", "prefilled_indexes": seq, "short_id_list": li});
                let verdict = std::panic::catch_unwind(|| ckb_sync::verif::compact_block_verify(&cb).is_ok());
                report.evaluations += 1;
                let accepted = match verdict {
                    Err(_) => {
                        report.violation("structure/verifier-panic", format!("CompactBlockVerifier panicked on prefilled indexes {seq:?}"), label);
                        continue;
                    }
                    Ok(a) => a,
                };
                if !accepted {
                    report.count("structure_refused_by_verifier", 1);
                    continue;
                }
                report.count("structure_accepted_by_verifier", 1);
                for supplied_all in [false, true] {
                    let received: Vec<TransactionView> = if supplied_all { txs.clone() } else { vec![] };
                    let active = sync_shared.active_chain();
                    let fut = relayer.reconstruct_block(&active, &cb, received, &[], &[]);
                    let res = std::panic::catch_unwind(std::panic::AssertUnwindSafe(|| handle.block_on(fut)));
                    report.evaluations += 1;
                    report.states.insert(fp(&("structure", seq, li, supplied_all)));
                    use ckb_sync::ReconstructionResult as RR;
                    let label = json!({"family": "structure", "prefilled_indexes": seq, "short_id_list": li, "supplied_all": supplied_all});
                    match res {
                        Err(_) => report.violation("structure/panic", format!("reconstruct_block panicked on a compact block accepted by CompactBlockVerifier: prefilled indexes {seq:?}, {} short ids", id_list.len()), label),
                        Ok(RR::Block(b)) => {
                            report.outcomes.insert(5);
                            if b.hash() != announced_hash || b.data().as_slice() != block.data().as_slice() {
                                report.violation("structure/different-block", format!("prefilled indexes {seq:?}: reconstruction returned block {} for a compact block announcing {}", b.hash(), announced_hash), label);
                            } else {
                                report.nontrivial.insert(fp(&("structure", seq, li)));
                            }
                        }
                        Ok(RR::Missing(txm, _)) => {
                            report.outcomes.insert(6);
                            if txm.iter().any(|i| *i >= cb.txs_len()) {
                                report.violation("structure/imprecise-missing", format!("missing report {txm:?} names positions outside the block of {} txs", cb.txs_len()), label);
                            }
                        }
                        Ok(RR::Collided) => {
                            report.outcomes.insert(7);
                        }
                        Ok(RR::Error(_)) => {
                            report.outcomes.insert(8);
                        }
                    }
                }
            }
        }
    }
    // (B3) uncles: a block with two uncles the node does not know; for every set of uncle
    // indexes the node may have asked for and every sequence (length 0..=3) of uncles a peer may
    // answer with, in production order: BlockUnclesVerifier, then reconstruct_block.
    {
        let mk_uncle = |n: u8| -> ckb_types::core::UncleBlockView {
            BlockBuilder::default().number(1u64).parent_hash(cons.genesis_hash()).timestamp(time_for_height(1) + n as u64).compact_target(cons.genesis_block().compact_target()).nonce(n as u128).build().as_uncle()
        };
        let u: Vec<ckb_types::core::UncleBlockView> = vec![mk_uncle(1), mk_uncle(2), mk_uncle(3)]; // u[2] is foreign
        let ublock: BlockView = block.as_advanced_builder().number(2u64).uncle(u[0].clone()).uncle(u[1].clone()).build();
        let all: HashSet<usize> = (0..4).collect();
        let cb = packed::CompactBlock::build_from_block(&ublock, &all);
        let index_sets: Vec<Vec<u32>> = subsets(&[0u32, 1]);
        let mut answers: Vec<Vec<usize>> = vec![vec![]];
        for len in 1..=3usize {
            let mut cur: Vec<Vec<usize>> = vec![vec![]];
            for _ in 0..len {
                cur = cur.into_iter().flat_map(|p| (0..3usize).map(move |d| { let mut q = p.clone(); q.push(d); q })).collect();
            }
            answers.extend(cur);
        }
        for idx in &index_sets {
            for ans in &answers {
                let supplied: Vec<ckb_types::core::UncleBlockView> = ans.iter().map(|i| u[*i].clone()).collect();
                let label = json!({"family": "uncles", "asked_indexes": idx, "answered": ans});
                report.evaluations += 1;
                let verdict = std::panic::catch_unwind(|| ckb_sync::verif::block_uncles_verify(&cb, idx, &supplied).is_ok());
                let accepted = match verdict {
                    Err(_) => {
                        report.violation("uncles/verifier-panic", format!("BlockUnclesVerifier panicked: asked {idx:?}, answered {ans:?}"), label);
                        continue;
                    }
                    Ok(a) => a,
                };
                if !accepted {
                    report.count("uncle_answers_refused_by_verifier", 1);
                    continue;
                }
                report.count("uncle_answers_accepted_by_verifier", 1);
                let active = sync_shared.active_chain();
                let fut = relayer.reconstruct_block(&active, &cb, vec![], idx, &supplied);
                let res = std::panic::catch_unwind(std::panic::AssertUnwindSafe(|| handle.block_on(fut)));
                report.states.insert(fp(&("uncles", idx, ans)));
                use ckb_sync::ReconstructionResult as RR;
                match res {
                    Err(_) => report.violation("uncles/panic", format!("reconstruct_block panicked on an uncle answer accepted by BlockUnclesVerifier: asked for uncle indexes {idx:?}, peer answered with uncles {ans:?}"), label),
                    Ok(RR::Block(b)) => {
                        report.outcomes.insert(9);
                        if b.hash() != ublock.hash() || b.data().as_slice() != ublock.data().as_slice() {
                            report.violation("uncles/different-block", format!("asked {idx:?}, answered {ans:?}: reconstruction returned block {} for a compact block announcing {}", b.hash(), ublock.hash()), label);
                        } else {
                            report.nontrivial.insert(fp(&("uncles", idx, ans)));
                        }
                    }
                    Ok(RR::Missing(txm, um)) => {
                        report.outcomes.insert(10);
                        let want: Vec<usize> = (0..2usize).filter(|i| !idx.contains(&(*i as u32))).collect();
                        if !txm.is_empty() || um != want {
                            report.violation("uncles/imprecise-missing", format!("asked {idx:?}, answered {ans:?}: missing report {txm:?}/{um:?}, the locally unknown uncles not asked for are {want:?}"), label);
                        }
                    }
                    Ok(RR::Collided) => {
                        report.outcomes.insert(11);
                    }
                    Ok(RR::Error(_)) => {
                        report.outcomes.insert(12);
                    }
                }
            }
        }
    }
    // (B4) uncles partly known locally: two real sibling blocks of height 1 are stored by the node
    // (one on the main chain, one as a side block); the announced block lists 2..3 uncles drawn from
    // {L1, L2 (local), U1, U2 (unknown)} in every order.  Production flow: the first reconstruction
    // reports the missing uncle indexes, the peer answers (every sequence of length 0..=2 over
    // {U1, U2, a foreign uncle}), BlockUnclesVerifier, second reconstruction.
    {
        let snap = node.shared.snapshot();
        let l1 = crate::forge::assemble(&snap, &crate::forge::BlockSpec { miner: 1, ..Default::default() })?;
        let l2 = crate::forge::assemble(&snap, &crate::forge::BlockSpec { miner: 2, ts_offset: 1, ..Default::default() })?;
        node.process(&l1).map_err(|e| format!("l1: {e}"))?;
        node.process(&l2).map_err(|e| format!("l2: {e}"))?;
        let fake = |n: u8| -> ckb_types::core::UncleBlockView {
            BlockBuilder::default().number(1u64).parent_hash(cons.genesis_hash()).timestamp(time_for_height(1) + 50 + n as u64).compact_target(cons.genesis_block().compact_target()).nonce(n as u128).build().as_uncle()
        };
        // 0 = L1, 1 = L2, 2 = U1, 3 = U2, 4 = foreign
        let pool_u: Vec<ckb_types::core::UncleBlockView> = vec![l1.as_uncle(), l2.as_uncle(), fake(1), fake(2), fake(3)];
        let mut lists: Vec<Vec<usize>> = vec![];
        for a in 0..4usize {
            for b in 0..4usize {
                if a == b {
                    continue;
                }
                lists.push(vec![a, b]);
                for c in 0..4usize {
                    if c != a && c != b {
                        lists.push(vec![a, b, c]);
                    }
                }
            }
        }
        let mut answers: Vec<Vec<usize>> = vec![vec![]];
        for x in 2..5usize {
            answers.push(vec![x]);
            for y in 2..5usize {
                answers.push(vec![x, y]);
            }
        }
        let all: HashSet<usize> = (0..4).collect();
        for list in &lists {
            let mut b = block.as_advanced_builder().number(2u64);
            for i in list {
                b = b.uncle(pool_u[*i].clone());
            }
            let ublock: BlockView = b.build();
            let cb = packed::CompactBlock::build_from_block(&ublock, &all);
            let active = sync_shared.active_chain();
            let first = std::panic::catch_unwind(std::panic::AssertUnwindSafe(|| handle.block_on(relayer.reconstruct_block(&active, &cb, vec![], &[], &[]))));
            use ckb_sync::ReconstructionResult as RR;
            let label0 = json!({"family": "uncles-mixed", "uncle_list": list});
            report.evaluations += 1;
            let want_missing: Vec<usize> = list.iter().enumerate().filter(|(_, u)| **u >= 2).map(|(i, _)| i).collect();
            let asked: Vec<u32> = match first {
                Err(_) => {
                    report.violation("uncles-mixed/panic", format!("reconstruct_block panicked on uncle list {list:?} before any answer"), label0);
                    continue;
                }
                Ok(RR::Missing(txm, um)) => {
                    if !txm.is_empty() || um != want_missing {
                        report.violation("uncles-mixed/imprecise-missing", format!("uncle list {list:?} (0, 1 are stored locally): missing report {txm:?}/{um:?}, unknown uncles are at {want_missing:?}"), label0);
                    }
                    um.iter().map(|i| *i as u32).collect()
                }
                Ok(RR::Block(b)) => {
                    if !want_missing.is_empty() || b.hash() != ublock.hash() {
                        report.violation("uncles-mixed/different-block", format!("uncle list {list:?}: a block was returned although uncles {want_missing:?} are unknown (or it is another block)"), label0);
                    }
                    continue;
                }
                Ok(_) => continue,
            };
            for ans in &answers {
                let supplied: Vec<ckb_types::core::UncleBlockView> = ans.iter().map(|i| pool_u[*i].clone()).collect();
                let label = json!({"family": "uncles-mixed", "uncle_list": list, "asked_indexes": asked, "answered": ans});
                report.evaluations += 1;
                let ok = std::panic::catch_unwind(|| ckb_sync::verif::block_uncles_verify(&cb, &asked, &supplied).is_ok());
                match ok {
                    Err(_) => {
                        report.violation("uncles-mixed/verifier-panic", format!("BlockUnclesVerifier panicked: list {list:?}, asked {asked:?}, answered {ans:?}"), label);
                        continue;
                    }
                    Ok(false) => {
                        report.count("uncle_answers_refused_by_verifier", 1);
                        continue;
                    }
                    Ok(true) => {}
                }
                let active = sync_shared.active_chain();
                let res = std::panic::catch_unwind(std::panic::AssertUnwindSafe(|| handle.block_on(relayer.reconstruct_block(&active, &cb, vec![], &asked, &supplied))));
                report.states.insert(fp(&("uncles-mixed", list, ans)));
                match res {
                    Err(_) => report.violation("uncles-mixed/panic", format!("reconstruct_block panicked: uncle list {list:?} (0, 1 stored locally), asked for {asked:?}, the peer answered {ans:?} (accepted by BlockUnclesVerifier)"), label),
                    Ok(RR::Block(b)) => {
                        report.outcomes.insert(13);
                        if b.hash() != ublock.hash() || b.data().as_slice() != ublock.data().as_slice() {
                            report.violation("uncles-mixed/different-block", format!("list {list:?}, asked {asked:?}, answered {ans:?}: reconstruction returned block {} for a compact block announcing {}", b.hash(), ublock.hash()), label);
                        } else {
                            report.nontrivial.insert(fp(&("uncles-mixed", list, ans)));
                        }
                    }
                    Ok(RR::Missing(_, _)) => {
                        report.outcomes.insert(14);
                    }
                    Ok(RR::Collided) => {
                        report.outcomes.insert(15);
                    }
                    Ok(RR::Error(_)) => {
                        report.outcomes.insert(16);
                    }
                }
            }
        }
    }
    report.traces += 1;
    // the relayer holds a ChainController: the chain service only stops once every clone is gone
    drop(relayer);
    drop(sync_shared);
    report.sample(json!({"family": "reconstruct", "block_txs": 4, "prefilled_sets": prefilled_sets.len(), "pool_sets": pool_sets.len(), "supplied_sets": supplied_sets.len(), "tampers": tampers.len()}));
    node.shutdown();
    Ok(())
}

// ---------------------------------------------------------------------------------------
// (C) relay sessions: message sequences from two peers through the real Relayer::received

/// A protocol context that records what the handlers send and whom they ban.
pub(crate) struct MockNc {
    pub(crate) sent: std::sync::Mutex<Vec<(ckb_network::PeerIndex, Bytes)>>,
    pub(crate) banned: std::sync::Mutex<Vec<(ckb_network::PeerIndex, String)>>,
}

type Task = std::pin::Pin<Box<dyn std::future::Future<Output = ()> + 'static + Send>>;

#[ckb_network::async_trait]
impl ckb_network::CKBProtocolContext for MockNc {
    async fn set_notify(&self, _i: std::time::Duration, _t: u64) -> Result<(), ckb_network::Error> {
        Ok(())
    }
    async fn remove_notify(&self, _t: u64) -> Result<(), ckb_network::Error> {
        Ok(())
    }
    async fn async_quick_send_message(&self, p: ckb_network::ProtocolId, peer: ckb_network::PeerIndex, data: Bytes) -> Result<(), ckb_network::Error> {
        self.send_message(p, peer, data)
    }
    async fn async_quick_send_message_to(&self, peer: ckb_network::PeerIndex, data: Bytes) -> Result<(), ckb_network::Error> {
        self.send_message_to(peer, data)
    }
    async fn async_quick_filter_broadcast(&self, _t: ckb_network::TargetSession, _d: Bytes) -> Result<(), ckb_network::Error> {
        Ok(())
    }
    async fn async_future_task(&self, _t: Task, _b: bool) -> Result<(), ckb_network::Error> {
        Ok(())
    }
    async fn async_send_message(&self, p: ckb_network::ProtocolId, peer: ckb_network::PeerIndex, data: Bytes) -> Result<(), ckb_network::Error> {
        self.send_message(p, peer, data)
    }
    async fn async_send_message_to(&self, peer: ckb_network::PeerIndex, data: Bytes) -> Result<(), ckb_network::Error> {
        self.send_message_to(peer, data)
    }
    async fn async_filter_broadcast(&self, _t: ckb_network::TargetSession, _d: Bytes) -> Result<(), ckb_network::Error> {
        Ok(())
    }
    async fn async_filter_broadcast_with_proto(&self, _p: ckb_network::ProtocolId, _t: ckb_network::TargetSession, _d: Bytes) -> Result<(), ckb_network::Error> {
        Ok(())
    }
    async fn async_quick_filter_broadcast_with_proto(&self, _p: ckb_network::ProtocolId, _t: ckb_network::TargetSession, _d: Bytes) -> Result<(), ckb_network::Error> {
        Ok(())
    }
    async fn async_disconnect(&self, _peer: ckb_network::PeerIndex, _m: &str) -> Result<(), ckb_network::Error> {
        Ok(())
    }
    fn quick_send_message(&self, p: ckb_network::ProtocolId, peer: ckb_network::PeerIndex, data: Bytes) -> Result<(), ckb_network::Error> {
        self.send_message(p, peer, data)
    }
    fn quick_send_message_to(&self, peer: ckb_network::PeerIndex, data: Bytes) -> Result<(), ckb_network::Error> {
        self.send_message_to(peer, data)
    }
    fn quick_filter_broadcast(&self, _t: ckb_network::TargetSession, _d: Bytes) -> Result<(), ckb_network::Error> {
        Ok(())
    }
    fn quick_filter_broadcast_with_proto(&self, _p: ckb_network::ProtocolId, _t: ckb_network::TargetSession, _d: Bytes) -> Result<(), ckb_network::Error> {
        Ok(())
    }
    fn future_task(&self, _t: Task, _b: bool) -> Result<(), ckb_network::Error> {
        Ok(())
    }
    fn send_message(&self, _p: ckb_network::ProtocolId, peer: ckb_network::PeerIndex, data: Bytes) -> Result<(), ckb_network::Error> {
        self.sent.lock().unwrap().push((peer, data));
        Ok(())
    }
    fn send_message_to(&self, peer: ckb_network::PeerIndex, data: Bytes) -> Result<(), ckb_network::Error> {
        self.sent.lock().unwrap().push((peer, data));
        Ok(())
    }
    fn filter_broadcast(&self, _t: ckb_network::TargetSession, _d: Bytes) -> Result<(), ckb_network::Error> {
        Ok(())
    }
    fn disconnect(&self, _peer: ckb_network::PeerIndex, _m: &str) -> Result<(), ckb_network::Error> {
        Ok(())
    }
    fn get_peer(&self, _peer: ckb_network::PeerIndex) -> Option<ckb_network::Peer> {
        None
    }
    fn with_peer_mut(&self, _peer: ckb_network::PeerIndex, _f: Box<dyn FnOnce(&mut ckb_network::Peer)>) {}
    fn connected_peers(&self) -> Vec<ckb_network::PeerIndex> {
        vec![1.into(), 2.into()]
    }
    fn full_relay_connected_peers(&self) -> Vec<ckb_network::PeerIndex> {
        vec![1.into(), 2.into()]
    }
    fn report_peer(&self, _peer: ckb_network::PeerIndex, _b: ckb_network::Behaviour) {}
    fn ban_peer(&self, peer: ckb_network::PeerIndex, _d: std::time::Duration, reason: String) {
        self.banned.lock().unwrap().push((peer, reason));
    }
    fn protocol_id(&self) -> ckb_network::ProtocolId {
        ckb_network::SupportProtocols::RelayV3.protocol_id()
    }
}

pub const CB_VARIANTS: [&str; 6] = ["honest{0}", "honest{0,2}", "fewer-ids", "foreign-id", "more-ids", "foreign-prefilled"];
pub const BT_VARIANTS: [&str; 5] = ["answer-to-request", "all-three", "first-only", "foreign-only", "empty"];

#[derive(Clone, Copy, Debug, PartialEq, Eq, Hash, serde::Serialize, serde::Deserialize)]
pub enum SMsg {
    /// compact block of the announced block, variant index into CB_VARIANTS
    Cb(u8),
    /// BlockTransactions for the announced block, variant index into BT_VARIANTS
    Bt(u8),
}

/// One relay session world: a pool node at tip b2 (b1 proposes t0..t2), a forge that produces a
/// fresh valid block 3 committing t0..t2 for every history.
struct SessionWorld {
    cons: ckb_chain_spec::consensus::Consensus,
    node: Node,
    forge: crate::forge::Forge,
    b2: packed::Byte32,
    txs: Vec<TransactionView>,
    foreign: TransactionView,
    serial: u64,
}

impl SessionWorld {
    fn new(ctx: &Ctx, tag: &str) -> Result<SessionWorld, String> {
        let cons = consensus(&WorldOpts::default());
        set_time(time_for_height(3) + 12_000);
        let dir = ctx.scratch.join(format!("{tag}-node"));
        let _ = std::fs::remove_dir_all(&dir);
        let node = Node::boot(&dir, &NodeOpts::new(cons.clone()).with_pool())?;
        node.wait_startup()?;
        let mut forge = crate::forge::Forge::new(&ctx.scratch.join(format!("{tag}-forge")), &cons)?;
        let cells = genesis_cells(&cons);
        let txs: Vec<TransactionView> = (0..3).map(|i| simple_tx(&cons, &cells[i..i + 1], 1, 1_000_000 + i as u64, 40 + i as u8)).collect();
        let foreign = simple_tx(&cons, &cells[4..5], 1, 9_000_000, 98);
        let b1 = forge.build_on(&cons.genesis_hash(), &crate::forge::BlockSpec { proposals: txs.iter().map(|t| t.proposal_short_id()).collect(), ..Default::default() })?;
        let b2 = forge.build_on(&b1.hash(), &Default::default())?;
        for b in [&b1, &b2] {
            node.process(b).map_err(|e| format!("session world: block refused: {e}"))?;
        }
        node.wait_pool_synced()?;
        Ok(SessionWorld { cons, node, forge, b2: b2.hash(), txs, foreign, serial: ctx.shard as u64 * 1_000_000 })
    }

    /// tip back to b2, pool = exactly `pool_set`
    fn reset(&mut self, pool_set: &[usize]) -> Result<(), String> {
        // the pool first finishes whatever tip change the last history caused
        self.node.wait_pool_synced()?;
        if self.node.tip().hash() != self.b2 {
            self.node.chain().truncate(self.b2.clone()).map_err(|e| format!("truncate: {e}"))?;
        }
        // (truncate does not notify the pool: clear_pool hands it the new snapshot)
        let snap = Arc::clone(&self.node.shared.snapshot());
        self.node.shared.tx_pool_controller().clear_pool(snap).map_err(|e| e.to_string())?;
        self.node.wait_pool_synced()?;
        for i in pool_set {
            self.node.submit_tx(&self.txs[*i]).map_err(|e| format!("submit t{i}: {e}"))?;
        }
        Ok(())
    }

    fn fresh_block(&mut self) -> Result<BlockView, String> {
        self.serial += 1;
        let spec = crate::forge::BlockSpec { txs: self.txs.clone(), ts_offset: self.serial % 10_000, miner: (self.serial / 10_000 % 250) as u8, ..Default::default() };
        let b = self.forge.build_on(&self.b2.clone(), &spec)?;
        self.forge.known.remove(&b.hash());
        Ok(b)
    }
}

fn compact_variant(block: &BlockView, foreign: &TransactionView, v: u8) -> packed::CompactBlock {
    let pre = |set: &[usize]| -> HashSet<usize> { set.iter().cloned().collect() };
    match v {
        0 => packed::CompactBlock::build_from_block(block, &pre(&[])),
        1 => packed::CompactBlock::build_from_block(block, &pre(&[2])),
        2 => {
            // same header, only the first short id
            let cb = packed::CompactBlock::build_from_block(block, &pre(&[]));
            let ids: Vec<packed::ProposalShortId> = cb.short_ids().into_iter().take(1).collect();
            cb.as_builder().short_ids(ids.pack()).build()
        }
        3 => {
            let cb = packed::CompactBlock::build_from_block(block, &pre(&[]));
            let mut ids: Vec<packed::ProposalShortId> = cb.short_ids().into_iter().collect();
            ids[0] = foreign.proposal_short_id();
            cb.as_builder().short_ids(ids.pack()).build()
        }
        4 => {
            let cb = packed::CompactBlock::build_from_block(block, &pre(&[]));
            let mut ids: Vec<packed::ProposalShortId> = cb.short_ids().into_iter().collect();
            ids.push(foreign.proposal_short_id());
            cb.as_builder().short_ids(ids.pack()).build()
        }
        _ => {
            // position 1 prefilled with a foreign transaction, short ids of positions 2 and 3
            let cb = packed::CompactBlock::build_from_block(block, &pre(&[1]));
            let mut pf: Vec<packed::IndexTransaction> = cb.prefilled_transactions().into_iter().collect();
            pf[1] = pf[1].clone().as_builder().transaction(foreign.data()).build();
            cb.as_builder().prefilled_transactions(pf.pack()).build()
        }
    }
}

fn relay_bytes(item: impl Into<packed::RelayMessageUnion>) -> Bytes {
    packed::RelayMessage::new_builder().set(item).build().as_bytes()
}

/// indexes of the last GetBlockTransactions for `hash` sent to `peer`
fn last_request(nc: &MockNc, peer: ckb_network::PeerIndex, hash: &packed::Byte32) -> Option<Vec<u32>> {
    let sent = nc.sent.lock().unwrap();
    sent.iter().rev().find_map(|(p, data)| {
        if *p != peer {
            return None;
        }
        let msg = packed::RelayMessageReader::from_compatible_slice(data).ok()?;
        match msg.to_enum() {
            packed::RelayMessageUnionReader::GetBlockTransactions(r) if r.block_hash().to_entity() == *hash => Some(r.indexes().iter().map(|i| i.into()).collect()),
            _ => None,
        }
    })
}

fn run_session(w: &mut SessionWorld, pool_set: &[usize], hist: &[(u8, SMsg)], report: &mut Report) -> Result<(), String> {
    use ckb_network::CKBProtocolHandler;
    w.reset(pool_set)?;
    let block = w.fresh_block()?;
    let hash = block.hash();
    let (_tx, rx) = ckb_channel::bounded(1);
    let sync_shared = Arc::new(SyncShared::new(w.node.shared.clone(), Default::default(), rx));
    let mut relayer = Relayer::new(w.node.chain().clone(), Arc::clone(&sync_shared));
    let nc = Arc::new(MockNc { sent: Default::default(), banned: Default::default() });
    let handle = w.node.shared.async_handle().clone();
    let label = json!({"family": "session", "pool": pool_set, "history": hist});
    let names: Vec<String> = hist.iter().map(|(p, m)| match m { SMsg::Cb(v) => format!("peer{p}:CompactBlock[{}]", CB_VARIANTS[*v as usize]), SMsg::Bt(v) => format!("peer{p}:BlockTransactions[{}]", BT_VARIANTS[*v as usize]) }).collect();
    let mut honest_cb_from: HashSet<u8> = HashSet::new();
    let mut honest_answered: HashSet<u8> = HashSet::new();
    for (step, (p, m)) in hist.iter().enumerate() {
        let peer: ckb_network::PeerIndex = (*p as usize).into();
        let sent_before = nc.sent.lock().unwrap().len();
        let data = match m {
            SMsg::Cb(v) => relay_bytes(compact_variant(&block, &w.foreign, *v)),
            SMsg::Bt(v) => {
                let all = block.transactions();
                let picked: Vec<TransactionView> = match v {
                    0 => last_request(&nc, peer, &hash).unwrap_or_else(|| vec![1, 2, 3]).iter().filter_map(|i| all.get(*i as usize).cloned()).collect(),
                    1 => all[1..].to_vec(),
                    2 => vec![all[1].clone()],
                    3 => vec![w.foreign.clone()],
                    _ => vec![],
                };
                relay_bytes(packed::BlockTransactions::new_builder().block_hash(hash.clone()).transactions(picked.iter().map(|t| t.data()).collect::<Vec<_>>().pack()).build())
            }
        };
        let nc2: Arc<dyn ckb_network::CKBProtocolContext + Sync> = nc.clone();
        let res = std::panic::catch_unwind(std::panic::AssertUnwindSafe(|| handle.block_on(relayer.received(nc2, peer, data))));
        report.transitions += 1;
        report.evaluations += 1;
        if res.is_err() {
            report.violation("session/handler-panic", format!("Relayer::received panicked at step {step} of [{}] (pool holds t{:?})", names.join(", "), pool_set), label.clone());
            // the relayer may hold poisoned state: this history ends here
            break;
        }
        // the request for missing transactions of a compact block is sent from a spawned task:
        // wait until the request matching the recorded expectation is out
        let t0 = std::time::Instant::now();
        loop {
            let expected: Option<Vec<u32>> = handle.block_on(async { sync_shared.state().pending_compact_blocks().await.get(&hash).and_then(|e| e.1.get(&peer).map(|x| x.0.clone())) });
            match expected {
                None => break,
                Some(e) if last_request(&nc, peer, &hash).as_ref() == Some(&e) => break,
                Some(e) => {
                    if t0.elapsed() > std::time::Duration::from_secs(10) {
                        return Err(format!("the request {e:?} recorded for peer {p} was never sent ([{}])", names.join(", ")));
                    }
                    std::thread::sleep(std::time::Duration::from_micros(50));
                }
            }
        }
        // whatever reached the chain service has been dealt with
        w.node.service_barrier()?;
        w.node.verify_barrier()?;
        // a precise request: an honest compact block asks exactly for the positions that are not in the pool
        if let SMsg::Cb(v) = m {
            if *v <= 1 {
                honest_cb_from.insert(*p);
                if nc.sent.lock().unwrap().len() > sent_before {
                    if let Some(req) = last_request(&nc, peer, &hash) {
                        let pre: Vec<u32> = if *v == 0 { vec![0] } else { vec![0, 2] };
                        let want: Vec<u32> = (1..=3u32).filter(|pos| !pre.contains(pos) && !pool_set.contains(&((*pos - 1) as usize))).collect();
                        if req != want {
                            report.violation("session/imprecise-request", format!("[{}]: peer {p} was asked for positions {req:?}, unavailable are {want:?}", names.join(", ")), label.clone());
                        }
                    }
                }
            }
        }
        if let SMsg::Bt(0) = m {
            if honest_cb_from.contains(p) {
                honest_answered.insert(*p);
            }
        }
        // never a different block under the announced hash; the valid block is never marked invalid
        {
            use ckb_store::ChainStore;
            let store = w.node.shared.store();
            if let Some(b) = store.get_block(&hash) {
                if b.data().as_slice() != block.data().as_slice() {
                    report.violation("session/different-block-stored", format!("[{}]: the block stored under the announced hash is not the announced block", names.join(", ")), label.clone());
                }
            }
            let tip = w.node.tip().hash();
            if tip != w.b2 && tip != hash {
                report.violation("session/unexpected-tip", format!("[{}]: tip {tip} is neither the parent nor the announced block", names.join(", ")), label.clone());
            }
            // counted, not judged (the statement allows an "invalid verdict")
            let st = w.node.shared.get_block_status(&hash);
            if st.contains(ckb_shared::block_status::BlockStatus::BLOCK_INVALID) {
                report.count("session_steps_with_the_valid_block_marked_invalid", 1);
            }
        }
    }
    let accepted = w.node.tip().hash() == hash;
    if accepted {
        report.nontrivial.insert(fp(&(pool_set, hist)));
        report.count("session_block_accepted", 1);
    }
    let honest_banned = nc.banned.lock().unwrap().iter().filter(|(p, _)| { let n = p.value(); honest_answered.contains(&(n as u8)) }).count();
    if honest_banned > 0 {
        report.count("session_histories_banning_a_peer_that_sent_the_true_block_and_answered_the_request", 1);
    }
    if !honest_answered.is_empty() && !accepted {
        report.count("session_histories_where_an_honest_delivery_did_not_complete", 1);
    }
    // the node was not poisoned: delivered directly, the announced block is still accepted
    if !accepted {
        match w.node.process(&block) {
            Ok(_) => {}
            Err(e) => report.violation("session/valid-block-refused-afterwards", format!("[{}]: the announced block delivered directly afterwards is refused: {e}", names.join(", ")), label.clone()),
        }
    }
    report.states.insert(fp(&("session", pool_set, hist)));
    report.outcomes.insert(100 + accepted as u64 + 2 * (nc.banned.lock().unwrap().len().min(3) as u64));
    report.traces += 1;
    drop(relayer);
    drop(sync_shared);
    Ok(())
}

fn session_family(ctx: &Ctx, report: &mut Report, only: Option<&Value>) -> Result<(), String> {
    let mut w = SessionWorld::new(ctx, "relay-session")?;
    if let Some(v) = only {
        let pool_set: Vec<usize> = serde_json::from_value(v["pool"].clone()).map_err(|e| e.to_string())?;
        let hist: Vec<(u8, SMsg)> = serde_json::from_value(v["history"].clone()).map_err(|e| e.to_string())?;
        run_session(&mut w, &pool_set, &hist, report)?;
        w.node.shutdown();
        return Ok(());
    }
    let mut ops: Vec<(u8, SMsg)> = vec![];
    for p in [1u8, 2] {
        for v in 0..CB_VARIANTS.len() as u8 {
            ops.push((p, SMsg::Cb(v)));
        }
        for v in 0..BT_VARIANTS.len() as u8 {
            ops.push((p, SMsg::Bt(v)));
        }
    }
    // (pool contents, depth); peer symmetry: the first message comes from peer 1
    let configs: Vec<(Vec<usize>, usize)> = if ctx.tier.is_thorough() { vec![(vec![], 4), (vec![0], 4), (vec![0, 1, 2], 3)] } else { vec![(vec![], 3), (vec![0], 3)] };
    let mut idx = 0u64;
    for (pool_set, depth) in &configs {
        let mut level: Vec<Vec<(u8, SMsg)>> = ops.iter().filter(|(p, _)| *p == 1).map(|o| vec![*o]).collect();
        for d in 1..=*depth {
            for h in &level {
                idx += 1;
                if !ctx.mine(idx) {
                    continue;
                }
                if ctx.out_of_time() {
                    report.cap_hit = Some(format!("session family: wall budget at depth {d} (pool {pool_set:?})"));
                    w.node.shutdown();
                    return Ok(());
                }
                run_session(&mut w, pool_set, h, report)?;
            }
            report.max_counter(&format!("max_session_depth_completed_pool{}", pool_set.len()), d as u64);
            if d < *depth {
                level = level.iter().flat_map(|h| ops.iter().map(move |o| { let mut n = h.clone(); n.push(*o); n })).collect();
            }
        }
    }
    report.sample(json!({"family": "session", "ops": ops.len(), "configs": configs.iter().map(|(p, d)| json!({"pool": p, "depth": d})).collect::<Vec<_>>()}));
    w.node.shutdown();
    Ok(())
}

// ---------------------------------------------------------------------------------------
// (D) sync sessions: message sequences from two peers through the real Synchronizer::received

pub const SH_VARIANTS: [&str; 11] = ["[]", "[H3]", "[H3,H4]", "[H4]", "[H3,H3']", "[H4,H3]", "[H3 timestamp 1]", "[H3,H4 with number 9]", "[b1]", "[b2,H3]", "[genesis]"];
pub const SB_VARIANTS: [&str; 5] = ["B3", "B4", "B3 without its last tx (same header)", "B3 with B4's uncles/proposals swapped in (same header)", "B3 with timestamp 1"];
pub const GH_VARIANTS: [&str; 4] = ["locator [tip]", "locator [genesis]", "locator [unknown]", "locator []"];
pub const GB_VARIANTS: [&str; 5] = ["[]", "[b1]", "[unknown]", "[b1,b1]", "[B3]"];
pub const NOTIFY_VARIANTS: [&str; 3] = ["send-getheaders", "fetch-blocks", "eviction"];

#[derive(Clone, Copy, Debug, PartialEq, Eq, Hash, serde::Serialize, serde::Deserialize)]
pub enum YMsg {
    SendHeaders(u8),
    SendBlock(u8),
    GetHeaders(u8),
    GetBlocks(u8),
    InIbd,
    /// a timer of the protocol fires (no peer involved)
    Notify(u8),
}

fn sync_bytes(item: impl Into<packed::SyncMessageUnion>) -> Bytes {
    packed::SyncMessage::new_builder().set(item).build().as_bytes()
}

fn run_sync_session(w: &mut SessionWorld, hist: &[(u8, YMsg)], report: &mut Report) -> Result<(), String> {
    use ckb_network::CKBProtocolHandler;
    use ckb_store::ChainStore;
    w.reset(&[])?;
    let b3 = w.fresh_block()?;
    // a sibling and a child
    w.serial += 1;
    let b3x = w.forge.build_on(&w.b2.clone(), &crate::forge::BlockSpec { ts_offset: w.serial % 10_000, miner: 251, ..Default::default() })?;
    w.forge.learn(&b3);
    let b4 = w.forge.build_on(&b3.hash(), &Default::default())?;
    for b in [&b3, &b3x, &b4] {
        w.forge.known.remove(&b.hash());
    }
    let store = w.node.shared.store();
    let b1 = store.get_block_hash(1).and_then(|h| store.get_block(&h)).ok_or("b1")?;
    let b2 = store.get_block(&w.b2).ok_or("b2")?;
    let genesis = w.cons.genesis_block().clone();
    let unknown = packed::Byte32::new([0xabu8; 32]);
    let h3_old = b3.header().as_advanced_builder().timestamp(1u64).build();
    let h4_bad = b4.header().as_advanced_builder().number(9u64).build();
    let (_tx, rx) = ckb_channel::bounded(1);
    let sync_shared = Arc::new(SyncShared::new(w.node.shared.clone(), Default::default(), rx));
    let mut sync = ckb_sync::Synchronizer::new(w.node.chain().clone(), Arc::clone(&sync_shared));
    let nc = Arc::new(MockNc { sent: Default::default(), banned: Default::default() });
    let handle = w.node.shared.async_handle().clone();
    let label = json!({"family": "sync-session", "history": hist});
    let names: Vec<String> = hist
        .iter()
        .map(|(p, m)| match m {
            YMsg::SendHeaders(v) => format!("peer{p}:SendHeaders{}", SH_VARIANTS[*v as usize]),
            YMsg::SendBlock(v) => format!("peer{p}:SendBlock[{}]", SB_VARIANTS[*v as usize]),
            YMsg::GetHeaders(v) => format!("peer{p}:GetHeaders[{}]", GH_VARIANTS[*v as usize]),
            YMsg::GetBlocks(v) => format!("peer{p}:GetBlocks{}", GB_VARIANTS[*v as usize]),
            YMsg::InIbd => format!("peer{p}:InIBD"),
            YMsg::Notify(v) => format!("timer:{}", NOTIFY_VARIANTS[*v as usize]),
        })
        .collect();
    for p in [1usize, 2] {
        let nc2: Arc<dyn ckb_network::CKBProtocolContext + Sync> = nc.clone();
        handle.block_on(sync.connected(nc2, p.into(), "3"));
    }
    let mut panicked = false;
    let mut marked_invalid = false;
    for (step, (p, m)) in hist.iter().enumerate() {
        let peer: ckb_network::PeerIndex = (*p as usize).into();
        let headers = |hs: Vec<&ckb_types::core::HeaderView>| sync_bytes(packed::SendHeaders::new_builder().headers(hs.into_iter().map(|h| h.data()).collect::<Vec<_>>().pack()).build());
        let nc2: Arc<dyn ckb_network::CKBProtocolContext + Sync> = nc.clone();
        let res = match m {
            YMsg::Notify(v) => {
                // SEND_GET_HEADERS_TOKEN, NOT_IBD_BLOCK_FETCH_TOKEN, TIMEOUT_EVICTION_TOKEN of sync/src/synchronizer/mod.rs
                let token = [0u64, 2, 3][*v as usize];
                std::panic::catch_unwind(std::panic::AssertUnwindSafe(|| handle.block_on(sync.notify(nc2, token))))
            }
            _ => {
                let (h3, h4, h3x) = (b3.header(), b4.header(), b3x.header());
                let data = match m {
                    YMsg::SendHeaders(v) => match v {
                        0 => headers(vec![]),
                        1 => headers(vec![&h3]),
                        2 => headers(vec![&h3, &h4]),
                        3 => headers(vec![&h4]),
                        4 => headers(vec![&h3, &h3x]),
                        5 => headers(vec![&h4, &h3]),
                        6 => headers(vec![&h3_old]),
                        7 => headers(vec![&h3, &h4_bad]),
                        8 => headers(vec![&b1.header()]),
                        9 => headers(vec![&b2.header(), &h3]),
                        _ => headers(vec![&genesis.header()]),
                    },
                    YMsg::SendBlock(v) => {
                        let blk: packed::Block = match v {
                            0 => b3.data(),
                            1 => b4.data(),
                            2 => {
                                let mut txs: Vec<packed::Transaction> = b3.data().transactions().into_iter().collect();
                                txs.pop();
                                b3.data().as_builder().transactions(txs.pack()).build()
                            }
                            3 => b3.data().as_builder().uncles(b3x.data().uncles()).proposals(vec![packed::ProposalShortId::new([7u8; 10])].pack()).build(),
                            _ => b3.data().as_builder().header(h3_old.data()).build(),
                        };
                        sync_bytes(packed::SendBlock::new_builder().block(blk).build())
                    }
                    YMsg::GetHeaders(v) => {
                        let loc: Vec<packed::Byte32> = match v {
                            0 => vec![w.b2.clone()],
                            1 => vec![genesis.hash()],
                            2 => vec![unknown.clone()],
                            _ => vec![],
                        };
                        sync_bytes(packed::GetHeaders::new_builder().hash_stop(packed::Byte32::zero()).block_locator_hashes(loc.pack()).build())
                    }
                    YMsg::GetBlocks(v) => {
                        let hs: Vec<packed::Byte32> = match v {
                            0 => vec![],
                            1 => vec![b1.hash()],
                            2 => vec![unknown.clone()],
                            3 => vec![b1.hash(), b1.hash()],
                            _ => vec![b3.hash()],
                        };
                        sync_bytes(packed::GetBlocks::new_builder().block_hashes(hs.pack()).build())
                    }
                    _ => sync_bytes(packed::InIBD::new_builder().build()),
                };
                std::panic::catch_unwind(std::panic::AssertUnwindSafe(|| handle.block_on(sync.received(nc2, peer, data))))
            }
        };
        report.transitions += 1;
        report.evaluations += 1;
        if res.is_err() {
            report.violation("sync-session/handler-panic", format!("the Synchronizer panicked at step {step} of [{}]", names.join(", ")), label.clone());
            panicked = true;
            break;
        }
        w.node.service_barrier()?;
        w.node.verify_barrier()?;
        let store = w.node.shared.store();
        for (name, b) in [("B3", &b3), ("B4", &b4)] {
            if let Some(got) = store.get_block(&b.hash()) {
                if got.data().as_slice() != b.data().as_slice() {
                    report.violation("sync-session/different-block-stored", format!("[{}]: the block stored under the hash of {name} is not {name}", names.join(", ")), label.clone());
                }
            }
            // counted, not judged: the statement allows an "invalid verdict"; that a header with an
            // unknown parent marks the (valid) block invalid in the status map is recorded in DESIGN.md §6
            if w.node.shared.get_block_status(&b.hash()).contains(ckb_shared::block_status::BlockStatus::BLOCK_INVALID) {
                marked_invalid = true;
            }
        }
        let tip = w.node.tip().hash();
        if tip != w.b2 && tip != b3.hash() && tip != b4.hash() && tip != b3x.hash() {
            report.violation("sync-session/unexpected-tip", format!("[{}]: tip {tip} is none of b2, B3, B3', B4", names.join(", ")), label.clone());
        }
    }
    let tip = w.node.tip().hash();
    if marked_invalid {
        report.count("sync_session_histories_marking_a_valid_block_invalid_in_the_status_map", 1);
    }
    if tip != w.b2 {
        report.nontrivial.insert(fp(&("sync", hist)));
        report.count("sync_session_histories_moving_the_tip", 1);
    }
    if !panicked {
        for (name, b) in [("B3", &b3), ("B4", &b4)] {
            if let Err(e) = w.node.process(b) {
                report.violation("sync-session/valid-block-refused-afterwards", format!("[{}]: {name} delivered directly afterwards is refused: {e}", names.join(", ")), label.clone());
            }
        }
    }
    report.states.insert(fp(&("sync-session", hist)));
    report.outcomes.insert(200 + (tip != w.b2) as u64 + 2 * (nc.banned.lock().unwrap().len().min(3) as u64) + 8 * (nc.sent.lock().unwrap().len().min(4) as u64));
    report.traces += 1;
    drop(sync);
    drop(sync_shared);
    Ok(())
}

fn sync_session_family(ctx: &Ctx, report: &mut Report, only: Option<&Value>) -> Result<(), String> {
    let mut w = SessionWorld::new(ctx, "sync-session")?;
    if let Some(v) = only {
        let hist: Vec<(u8, YMsg)> = serde_json::from_value(v["history"].clone()).map_err(|e| e.to_string())?;
        run_sync_session(&mut w, &hist, report)?;
        w.node.shutdown();
        return Ok(());
    }
    let mut ops: Vec<(u8, YMsg)> = vec![];
    for p in [1u8, 2] {
        ops.extend((0..SH_VARIANTS.len() as u8).map(|v| (p, YMsg::SendHeaders(v))));
        ops.extend((0..SB_VARIANTS.len() as u8).map(|v| (p, YMsg::SendBlock(v))));
        ops.extend((0..GH_VARIANTS.len() as u8).map(|v| (p, YMsg::GetHeaders(v))));
        ops.extend((0..GB_VARIANTS.len() as u8).map(|v| (p, YMsg::GetBlocks(v))));
        ops.push((p, YMsg::InIbd));
    }
    ops.extend((0..NOTIFY_VARIANTS.len() as u8).map(|v| (0u8, YMsg::Notify(v))));
    // (prefix, free depth after it).  Peer symmetry: without a prefix the first peer message comes
    // from peer 1.  The prefixes put the search behind the steps every block download needs
    // (headers accepted, blocks asked for).
    let dl = vec![(1u8, YMsg::SendHeaders(2)), (0u8, YMsg::Notify(1))];
    let configs: Vec<(Vec<(u8, YMsg)>, usize)> = if ctx.tier.is_thorough() { vec![(vec![], 3), (dl.clone(), 3)] } else { vec![(vec![], 2), (vec![(1u8, YMsg::SendHeaders(2))], 2), (dl.clone(), 1)] };
    let mut idx = 0u64;
    for (prefix, depth) in &configs {
        let mut level: Vec<Vec<(u8, YMsg)>> = ops.iter().filter(|(p, _)| !prefix.is_empty() || *p != 2).map(|o| { let mut h = prefix.clone(); h.push(*o); h }).collect();
        for d in 1..=*depth {
            for h in &level {
                idx += 1;
                if !ctx.mine(idx) {
                    continue;
                }
                if ctx.out_of_time() {
                    report.cap_hit = Some(format!("sync session family: wall budget at depth {d} after a prefix of {}", prefix.len()));
                    w.node.shutdown();
                    return Ok(());
                }
                run_sync_session(&mut w, h, report)?;
            }
            report.max_counter(&format!("max_sync_session_depth_completed_after_prefix{}", prefix.len()), d as u64);
            if d < *depth {
                level = level.iter().flat_map(|h| ops.iter().map(move |o| { let mut n = h.clone(); n.push(*o); n })).collect();
            }
        }
    }
    let depth = configs.iter().map(|(p, d)| p.len() + d).max().unwrap_or(0);
    report.sample(json!({"family": "sync-session", "ops": ops.len(), "depth": depth}));
    w.node.shutdown();
    Ok(())
}

// ---------------------------------------------------------------------------------------
// (E) request handlers: every request message of the relay, sync and block-filter protocols with
// boundary and extreme field values, and every 4-byte word of each replaced by boundary values,
// through the production `received` of the real handlers on a real node.  A request can be refused
// (or the peer banned); the handler must not panic.
fn request_family(ctx: &Ctx, report: &mut Report, only: Option<&Value>) -> Result<(), String> {
    use ckb_network::CKBProtocolHandler;
    let mut w = SessionWorld::new(ctx, "c16-req")?;
    w.reset(&[0, 1])?;
    let b3 = w.fresh_block()?;
    w.node.process(&b3).map_err(|e| format!("block 3: {e}"))?;
    w.node.wait_pool_synced()?;
    // block filters exist for the filter protocol to serve
    ckb_block_filter::filter::BlockFilter::new(w.node.shared.clone()).verif_build_once();
    let genesis = w.cons.genesis_hash();
    let unknown = packed::Byte32::new([0xabu8; 32]);
    let hashes = [b3.hash(), w.b2.clone(), genesis.clone(), unknown.clone()];
    let (_tx, rx) = ckb_channel::bounded(1);
    let sync_shared = Arc::new(SyncShared::new(w.node.shared.clone(), Default::default(), rx));
    let mut relayer = Relayer::new(w.node.chain().clone(), Arc::clone(&sync_shared));
    let mut sync = ckb_sync::Synchronizer::new(w.node.chain().clone(), Arc::clone(&sync_shared));
    let mut filter = ckb_sync::BlockFilter::new(Arc::clone(&sync_shared));
    let nc = Arc::new(MockNc { sent: Default::default(), banned: Default::default() });
    let handle = w.node.shared.async_handle().clone();
    // (protocol, name, bytes)
    let mut msgs: Vec<(u8, String, Bytes)> = vec![];
    let ids: Vec<packed::ProposalShortId> = w.txs.iter().map(|t| t.proposal_short_id()).collect();
    for (hi, h) in hashes.iter().enumerate() {
        for (ii, idx) in [vec![], vec![0u32], vec![1, 2], vec![u32::MAX], vec![3, 3], vec![4]].iter().enumerate() {
            for (ui, uidx) in [vec![], vec![0u32], vec![u32::MAX]].iter().enumerate() {
                msgs.push((0, format!("GetBlockTransactions(block {hi}, indexes #{ii}, uncle indexes #{ui})"), relay_bytes(packed::GetBlockTransactions::new_builder().block_hash(h.clone()).indexes(packed::Uint32Vec::new_builder().set(idx.iter().map(|i| Pack::<packed::Uint32>::pack(i)).collect()).build()).uncle_indexes(packed::Uint32Vec::new_builder().set(uidx.iter().map(|i| Pack::<packed::Uint32>::pack(i)).collect()).build()).build())));
            }
        }
        for (pi, props) in [vec![], vec![ids[0].clone()], vec![ids[0].clone(), ids[0].clone()], (0..3001u32).map(|i| { let mut x = [0u8; 10]; x[..4].copy_from_slice(&i.to_le_bytes()); packed::ProposalShortId::new(x) }).collect::<Vec<_>>()].iter().enumerate() {
            msgs.push((0, format!("GetBlockProposal(block {hi}, proposals #{pi})"), relay_bytes(packed::GetBlockProposal::new_builder().block_hash(h.clone()).proposals(props.clone().pack()).build())));
        }
    }
    for (ti, hs) in [vec![], vec![w.txs[0].hash()], vec![unknown.clone()], vec![w.txs[0].hash(), w.txs[0].hash()], (0..40_000u32).map(|i| { let mut x = [0u8; 32]; x[..4].copy_from_slice(&i.to_le_bytes()); packed::Byte32::new(x) }).collect::<Vec<_>>()].iter().enumerate() {
        msgs.push((0, format!("GetRelayTransactions(hashes #{ti})"), relay_bytes(packed::GetRelayTransactions::new_builder().tx_hashes(hs.clone().pack()).build())));
        msgs.push((0, format!("RelayTransactionHashes(hashes #{ti})"), relay_bytes(packed::RelayTransactionHashes::new_builder().tx_hashes(hs.clone().pack()).build())));
        msgs.push((1, format!("GetBlocks(hashes #{ti})"), sync_bytes(packed::GetBlocks::new_builder().block_hashes(hs.clone().pack()).build())));
    }
    for (si, stop) in [packed::Byte32::zero(), b3.hash()].iter().enumerate() {
        for (li, loc) in [vec![], vec![w.b2.clone()], vec![genesis.clone()], vec![unknown.clone()], vec![b3.hash(), w.b2.clone(), genesis.clone()], vec![genesis.clone(), b3.hash()], vec![unknown.clone(); 200]].iter().enumerate() {
            msgs.push((1, format!("GetHeaders(stop #{si}, locator #{li})"), sync_bytes(packed::GetHeaders::new_builder().hash_stop(stop.clone()).block_locator_hashes(loc.clone().pack()).build())));
        }
    }
    for hs in [vec![b3.hash()], vec![b3.hash(); 40], vec![genesis.clone(), b3.hash(), unknown.clone()]] {
        msgs.push((1, format!("GetBlocks({} hashes)", hs.len()), sync_bytes(packed::GetBlocks::new_builder().block_hashes(hs.pack()).build())));
    }
    for start in [0u64, 1, 2, 3, 4, 100, u64::MAX - 2000, u64::MAX - 1, u64::MAX] {
        let f = |item: packed::BlockFilterMessageUnion| packed::BlockFilterMessage::new_builder().set(item).build().as_bytes();
        msgs.push((2, format!("GetBlockFilters(start {start})"), f(packed::GetBlockFilters::new_builder().start_number(start).build().into())));
        msgs.push((2, format!("GetBlockFilterHashes(start {start})"), f(packed::GetBlockFilterHashes::new_builder().start_number(start).build().into())));
        msgs.push((2, format!("GetBlockFilterCheckPoints(start {start})"), f(packed::GetBlockFilterCheckPoints::new_builder().start_number(start).build().into())));
    }
    // every 4-byte word of every (small) seed replaced by boundary values
    let seeds: Vec<(u8, String, Bytes)> = msgs.iter().filter(|m| m.2.len() <= 400).cloned().collect();
    for (proto, name, data) in seeds {
        for off in (0..data.len().saturating_sub(3)).step_by(4) {
            for v in [0u32, 1, 0x7fff_ffff, 0xffff_ffff, data.len() as u32, data.len() as u32 + 1] {
                let mut m = data.to_vec();
                if m[off..off + 4] == v.to_le_bytes() {
                    continue;
                }
                m[off..off + 4].copy_from_slice(&v.to_le_bytes());
                msgs.push((proto, format!("{name} with bytes {off}..{} = {v:#x}", off + 4), Bytes::from(m)));
            }
        }
    }
    report.count("request_messages", msgs.len() as u64);
    let label = json!({"family": "requests"});
    let mut replies = 0u64;
    let mut peer_no = 10usize;
    for (k, (proto, name, data)) in msgs.iter().enumerate() {
        if let Some(v) = only {
            if v["message"].as_str() != Some(name.as_str()) {
                continue;
            }
        } else if !ctx.mine(k as u64) {
            // (the world is per worker; the messages are split)
            continue;
        }
        if ctx.out_of_time() {
            report.cap_hit = Some("request family: wall budget".into());
            break;
        }
        // a fresh peer per message: the relayer's per-peer rate limiter uses real time
        peer_no += 1;
        let peer: ckb_network::PeerIndex = peer_no.into();
        let before = nc.sent.lock().unwrap().len();
        let nc2: Arc<dyn ckb_network::CKBProtocolContext + Sync> = nc.clone();
        let res = std::panic::catch_unwind(std::panic::AssertUnwindSafe(|| match proto {
            0 => handle.block_on(relayer.received(nc2, peer, data.clone())),
            1 => handle.block_on(sync.received(nc2, peer, data.clone())),
            _ => handle.block_on(filter.received(nc2, peer, data.clone())),
        }));
        report.evaluations += 1;
        if res.is_err() {
            report.violation(format!("request-panic/{}", ["relay", "sync", "block-filter"][*proto as usize]), format!("{}::received panicked on {name} ({} bytes)", ["Relayer", "Synchronizer", "BlockFilter"][*proto as usize], data.len()), json!({"family": "requests", "message": name}));
            // the handler may hold poisoned state: rebuild it
            relayer = Relayer::new(w.node.chain().clone(), Arc::clone(&sync_shared));
            sync = ckb_sync::Synchronizer::new(w.node.chain().clone(), Arc::clone(&sync_shared));
            filter = ckb_sync::BlockFilter::new(Arc::clone(&sync_shared));
        }
        let mut sent = nc.sent.lock().unwrap();
        if sent.len() > before {
            replies += 1;
            report.nontrivial.insert(fp(&("request", name)));
        }
        sent.clear();
        report.outcomes.insert(fp(&("request", proto, res.is_ok(), !nc.banned.lock().unwrap().is_empty())));
        nc.banned.lock().unwrap().clear();
    }
    let _ = label;
    report.count("request_messages_answered", replies);
    drop(relayer);
    drop(sync);
    drop(filter);
    drop(sync_shared);
    w.node.service_barrier()?;
    Ok(())
}

pub fn meta(tier: Tier) -> Meta {
    Meta {
        id: "C16",
        level: "exploration",
        rule: "(E) request handlers: every request message of the relay, sync and block-filter protocols (GetBlockTransactions over known / unknown blocks x index lists incl. out-of-range and u32::MAX x uncle index lists; GetBlockProposal with 0 / 1 / duplicate / 3001 ids; GetRelayTransactions, RelayTransactionHashes, GetBlocks with empty / known / unknown / duplicate / 40 000 hashes; GetHeaders over 2 stop hashes x 7 locators incl. unordered and 200 unknown entries; GetBlockFilters / Hashes / CheckPoints from 0, 1, 2, 3, 4, 100, u64::MAX-2000, u64::MAX-1, u64::MAX) and every 4-byte word of each of them replaced by 0, 1, 0x7fffffff, 0xffffffff, len, len+1, through the production received() of the real Relayer, Synchronizer and BlockFilter on a real node (a fresh peer per message): no handler panics. decode: all 65 793 byte strings of length 0..=2 into each of the four protocol readers and into decompress; for each of 27 seed messages (one per union arm, small and large) every truncation, every single-byte substitution from {00,01,7f,80,ff,b-1,b+1}, every aligned 4-byte word replaced by {0,1,len-1,len,len+1,7fffffff,ffffffff}, every bit flip (seeds <= 256 B), raw and on the compressed frame; each decoded value is walked (all accessors, view conversion, hashes, Display, BlockVerifier, NonContextualTransactionVerifier, CompactBlockVerifier, BlockTransactions/UnclesVerifier) under catch_unwind. reconstruct: real Relayer::reconstruct_block on a real pool for every prefilled subset containing the cellbase (8) x pool availability subset (8) x peer-supplied subset incl. a foreign tx (16) x tampering {none, short id replaced (2 positions), proposals changed, extension changed/removed}; structure: all prefilled index sequences (len 0..3 over {0,1,2,3,4,7}) x 7 short-id lists through CompactBlockVerifier then reconstruct_block; uncles: asked index subsets of {0,1} x answer sequences (len 0..3 over {U0,U1,foreign}) through BlockUnclesVerifier then reconstruct_block; uncles-mixed: every list of 2..3 uncles over {two locally stored real blocks, two unknown}, the missing indexes the first reconstruction reports, every answer of length 0..2 over {the unknown ones, a foreign one}, BlockUnclesVerifier, second reconstruction. non-trivial = a mutant that decodes / a reconstruction that returns the block.",
        assumptions: &["only compact blocks accepted by CompactBlockVerifier are reconstructed (production order)", "byte strings further than one mutation from a seed or longer than 2 bytes are not enumerated"],
        bounds: json!({"seed_size_cap_quick": 700, "tier": tier.as_str()}),
    }
}

pub fn run(ctx: &Ctx) -> Report {
    let mut report = Report::new();
    if std::env::var("VERIF_PANICS").is_err() {
        std::panic::set_hook(Box::new(|_| {}));
    }
    if ctx.replay.is_some() {
        report.outcomes.insert(0);
    }
    let v: Option<Value> = ctx.replay.as_ref().map(|p| load_replay_case(p));
    let fam = v.as_ref().and_then(|v| v["family"].as_str().map(|s| s.to_string()));
    // the decode sweep (rayon, all cores) and the reconstruction families run in the first worker;
    // the session family is split over all workers
    let first = ctx.shards == 1 || ctx.shard == 0;
    if first && (fam.is_none() || fam.as_deref() == Some("decode") || fam.as_deref() == Some("decompress")) {
        decode_family(ctx, &mut report);
    }
    if first && (fam.is_none() || matches!(fam.as_deref(), Some("reconstruct") | Some("structure") | Some("uncles") | Some("uncles-mixed"))) {
        if let Err(e) = reconstruct_family(ctx, &mut report) {
            report.machinery_errors.push(format!("reconstruction family: {e}"));
        }
    }
    if fam.is_none() || fam.as_deref() == Some("sync-session") {
        if let Err(e) = sync_session_family(ctx, &mut report, v.as_ref().filter(|_| fam.is_some())) {
            report.machinery_errors.push(format!("sync session family: {e}"));
        }
    }
    if fam.is_none() || fam.as_deref() == Some("requests") {
        if let Err(e) = request_family(ctx, &mut report, v.as_ref().filter(|_| fam.is_some())) {
            report.machinery_errors.push(format!("request family: {e}"));
        }
    }
    if fam.is_none() || fam.as_deref() == Some("session") {
        if let Err(e) = session_family(ctx, &mut report, v.as_ref().filter(|_| fam.is_some())) {
            report.machinery_errors.push(format!("session family: {e}"));
        }
    }
    let _ = std::panic::take_hook();
    report.traces += report.evaluations;
    report.transitions += report.evaluations;
    report.states.insert(1);
    report
}
